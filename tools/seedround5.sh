#!/bin/sh
# tools/seedround5.sh <dir> [<dir> ...]: confirm + check + keep reviewer seeds (meta.json names the property)
for D in "$@"; do
  [ -f "$D/patch.diff" ] || { echo "$D: no patch"; continue; }
  P=$(python3 -c "import json;print(json.load(open('$D/meta.json'))['property'])")
  K=$(( $(ls /verif/seeded/$P 2>/dev/null | sort -n | tail -1) + 1 ))
  F=$(python3 -c "import json;print(json.load(open('$D/meta.json'))['demo'].get('file',''))" 2>/dev/null)
  FL=$(python3 -c "import json;print(json.load(open('$D/meta.json'))['demo'].get('filter',''))" 2>/dev/null)
  echo "== $D ($P) -> seeded/$P/$K (file=$F filter=$FL)"
  if [ -f "$D/demo.py" ]; then python3 /verif/tools/seedkeep.py $P $D $K
  else python3 /verif/tools/seedkeep.py $P $D $K --file "$F" --mode append --filter "$FL"; fi
done
