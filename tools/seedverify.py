#!/usr/bin/env python3
"""Confirm a seeded change in a scratch worktree of /repo (never in /repo itself):
  1. the patch applies to /repo's HEAD and the crate builds,
  2. the pinned test suite still passes with it (same passed/failed counts as without),
  3. the demonstration fails with the change and passes without it.
usage: seedverify.py <seed dir> [--file <src file>] [--mode append|inside] [--filter <test filter>]
A seed dir holds patch.diff, meta.json and demo_test.rs (a #[test] or a #[cfg(test)] mod block) or demo.py.
The worktree /tmp/sv-wt and its target dir /tmp/sv-target are shared between calls; remove with --cleanup.
Prints a JSON summary; exit 0 iff all three confirmations hold."""
import json, os, re, subprocess, sys

WT = "/tmp/sv-wt"
TARGET = "/tmp/sv-target"
ENV = dict(os.environ, CARGO_TARGET_DIR=TARGET, CARGO_NET_OFFLINE="true")


def sh(cmd, cwd=WT, timeout=1800):
    p = subprocess.run(cmd, cwd=cwd, env=ENV, shell=isinstance(cmd, str), stdout=subprocess.PIPE,
                       stderr=subprocess.STDOUT, timeout=timeout)
    return p.returncode, p.stdout.decode("utf-8", "replace")


def ensure_wt():
    head = subprocess.check_output(["git", "-C", "/repo", "rev-parse", "HEAD"]).decode().strip()
    if not os.path.isdir(WT):
        subprocess.check_call(["git", "-C", "/repo", "worktree", "add", "--detach", WT, head],
                              stdout=subprocess.DEVNULL, stderr=subprocess.DEVNULL)
    sh("git checkout -q --detach %s && git checkout -- . && git clean -fdq" % head)
    return head


def suite():
    rc, out = sh("cargo test --workspace --no-fail-fast --offline 2>&1")
    m = re.findall(r"test result: \w+\. (\d+) passed; (\d+) failed; (\d+) ignored", out)
    tot = [sum(int(x[i]) for x in m) for i in range(3)] if m else None
    built = "error: could not compile" not in out and "error[" not in out
    return built, tot, out


def inject(src, demo, mode):
    p = os.path.join(WT, src)
    s = open(p).read()
    d = open(demo).read()
    if mode == "append":
        s = s + "\n" + d + "\n"
    else:
        t = s.rstrip()
        assert t.endswith("}"), "file does not end with a closing brace"
        s = t[:-1] + "\n" + d + "\n}\n"
    open(p, "w").write(s)


def run_demo(seed, args, with_patch):
    if os.path.exists(os.path.join(seed, "demo.py")):
        rc, out = sh("cargo build --offline 2>&1 | tail -3")
        rc, out = sh(["python3", os.path.join(seed, "demo.py"), os.path.join(TARGET, "debug", "gold-lang-lsp")],
                     timeout=900)
        return rc == 0, out[-1500:]
    inject(args["file"], os.path.join(seed, "demo_test.rs"), args["mode"])
    if os.path.exists(os.path.join(seed, "demo_delay.diff")):
        rc, out = sh(["git", "apply", os.path.join(seed, "demo_delay.diff")])
        assert rc == 0, "demo_delay.diff does not apply: " + out
    rc, out = sh("cargo test --offline %s 2>&1" % args["filter"])
    m = re.findall(r"test result: \w+\. (\d+) passed; (\d+) failed", out)
    ran = sum(int(a) + int(b) for a, b in m) if m else 0
    failed = sum(int(b) for a, b in m) if m else 0
    if "error: could not compile" in out or "error[" in out:
        return None, out[-3000:]
    if "process didn't exit successfully" in out and "signal:" in out:
        keep = [l for l in out.splitlines() if re.search(r"overflowed|fatal runtime|signal:", l)]
        return False, "\n".join(keep)[-1500:]
    if ran == 0:
        return None, "no demo test ran (filter %s)\n" % args["filter"] + out[-1500:]
    keep = [l for l in out.splitlines() if re.search(r"^test |panicked|left:|right:|test result", l)]
    return failed == 0, "\n".join(keep)[-1500:]


def main():
    a = sys.argv[1:]
    if a and a[0] == "--cleanup":
        subprocess.call(["git", "-C", "/repo", "worktree", "remove", "--force", WT])
        subprocess.call(["rm", "-rf", TARGET])
        return 0
    seed = os.path.abspath(a[0])
    args = {"file": None, "mode": None, "filter": None}
    i = 1
    while i < len(a):
        args[a[i][2:]] = a[i + 1]
        i += 2
    demo_rs = os.path.join(seed, "demo_test.rs")
    if os.path.exists(demo_rs):
        d = open(demo_rs).read()
        if args["mode"] is None:
            args["mode"] = "append" if re.search(r"#\[cfg\(test\)\]\s*(pub\s+)?mod\s", d) else "inside"
        if args["filter"] is None:
            m = re.search(r"mod\s+(\w+)", d) if args["mode"] == "append" else re.search(r"fn\s+(\w+)", d)
            args["filter"] = m.group(1)
        assert args["file"], "--file needed"
    res = {"seed": seed}
    res["head"] = ensure_wt()
    base_built, base_tot, _ = suite()
    res["suite_without"] = base_tot
    rc, out = sh(["git", "apply", os.path.join(seed, "patch.diff")])
    res["applies"] = rc == 0
    if rc != 0:
        res["error"] = out
        print(json.dumps(res, indent=1)); return 1
    built, tot, out = suite()
    res["builds"] = built
    res["suite_with"] = tot
    res["suite_same"] = built and tot == base_tot and tot[1] == 0
    ok_with, out_with = run_demo(seed, args, True)
    res["demo_with_change"] = {"passes": ok_with, "output": out_with}
    # without the change: revert the patch, keep the demo
    sh("git checkout -- . && git clean -fdq")
    ok_wo, out_wo = run_demo(seed, args, False)
    res["demo_without_change"] = {"passes": ok_wo, "output": out_wo}
    sh("git checkout -- . && git clean -fdq")
    res["confirmed"] = bool(res["suite_same"] and ok_with is False and ok_wo is True)
    print(json.dumps(res, indent=1))
    return 0 if res["confirmed"] else 1


if __name__ == "__main__":
    sys.exit(main())
