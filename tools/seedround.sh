#!/bin/sh
# tools/seedround.sh <outdir-prefix> Cxx [Cyy ...]: confirm + check + keep the sub-agent seeds <prefix>Cxx as seeded/Cxx/<next k>
PFX="$1"; shift
for P in "$@"; do
  D="$PFX$P"
  [ -f "$D/patch.diff" ] || { echo "$P: no patch"; continue; }
  K=$(( $(ls /verif/seeded/$P 2>/dev/null | sort -n | tail -1) + 1 ))
  F=$(python3 -c "import json;print(json.load(open('$D/meta.json'))['demo'].get('file',''))" 2>/dev/null)
  FL=$(python3 -c "import json;print(json.load(open('$D/meta.json'))['demo'].get('filter','seed_r4_$P'))" 2>/dev/null)
  echo "== $P -> seeded/$P/$K (file=$F filter=$FL)"
  if [ -f "$D/demo.py" ]; then python3 /verif/tools/seedkeep.py $P $D $K
  else python3 /verif/tools/seedkeep.py $P $D $K --file "$F" --mode append --filter "$FL"; fi
done
