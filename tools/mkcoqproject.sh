#!/bin/sh
# Regenerates coq/_CoqProject from the files present (every .v under theories/).
cd "$(dirname "$0")/../coq"
{
  echo '-Q theories GoldV'
  echo '-arg -w -arg -notation-overridden,-deprecated-hint-without-locality,-deprecated-instance-without-locality,-ambiguous-paths'
  find theories -name '*.v' | LC_ALL=C sort
} > _CoqProject.new
if ! cmp -s _CoqProject.new _CoqProject; then mv _CoqProject.new _CoqProject; else rm _CoqProject.new; fi
