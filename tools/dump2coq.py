#!/usr/bin/env python3
"""Turns Gold source text into the Coq term (Tree.node) of the tree the REAL parser builds for it:
   text -> vharness unusedvar (its first field) -> tree dump (harness/src/treedump.rs format) -> Gallina.
   usage: tools/dump2coq.py NAME 'proc p\\n var x : int4\\nendproc'  [--split]
   --split emits one Definition per child of the root (NAME_0, NAME_1, ...) and NAME := root over them,
   so that the children can be re-arranged in Coq.  Needs the generated Gen/AstKinds.v and Gen/Tokens.v."""
import os, re, subprocess, sys

VERIF = os.path.dirname(os.path.dirname(os.path.abspath(__file__)))


def names(path, prefix):
    return re.findall(r"^\| (%s\w+)" % prefix, open(path).read(), re.M)


KINDS = names(os.path.join(VERIF, "coq/theories/Gen/AstKinds.v"), "K")
TOKS = names(os.path.join(VERIF, "coq/theories/Gen/Tokens.v"), "T")


def cps(s):
    return "[]" if s == "-" else "[" + ";".join(s.split(".")) + "]"


def rng(a, b, c, d):
    return "(mkRange (mkPos %s %s) (mkPos %s %s))" % (a, b, c, d)


def tok(s):
    tt, raw, sl, sc, el, ec, v = s.split(":")
    return "(mkTok %s %s %s %s)" % (raw, rng(sl, sc, el, ec), TOKS[int(tt)], cps(v))


def aval(s):
    k, rest = s[0], s[1:]
    if k == "n":
        return "AN %s" % rest
    if k == "s":
        return "AS %s" % cps(rest)
    if k == "t":
        return "AT %s" % tok(rest)
    return "AL [%s]" % "; ".join(tok(t) for t in rest.split(",") if t)


def parse(s, pos=0):
    assert s[pos] == "("
    j = s.index("{", pos)
    head = s[pos + 1:j].split()
    k = s.index("}", j)
    attrs = [kv.split("=", 1) for kv in s[j + 1:k].split(";") if kv]
    pos = k + 1
    ch = []
    while s[pos] == " ":
        pos += 1
    while s[pos] == "(":
        c, pos = parse(s, pos)
        ch.append(c)
        while s[pos] == " ":
            pos += 1
    assert s[pos] == ")"
    return (head, attrs, ch), pos + 1


def coq(n, ind=2, children=None):
    head, attrs, ch = n
    kind, ident, raw, sl, sc, el, ec = head
    a = "; ".join("(%s, %s)" % (k, aval(v)) for k, v in attrs)
    pad = " " * ind
    if children is None:
        children = [coq(c, ind + 2) for c in ch]
    body = ("\n" + pad + "  " + (";\n" + pad + "  ").join(children)) if children else ""
    return "Node %s %s %s %s [%s] [%s]" % (KINDS[int(kind)], cps(ident), raw, rng(sl, sc, el, ec), a, body)


def main():
    args = [a for a in sys.argv[1:] if not a.startswith("--")]
    name, text = args[0], args[1].replace("\\n", "\n")
    hb = os.path.join(VERIF, "harness/target/debug/vharness")
    line = ".".join(str(ord(c)) for c in text)
    out = subprocess.run([hb, "unusedvar"], input=line + "\n", capture_output=True, text=True).stdout.strip()
    dump = out.split("#")[0]
    tree, _ = parse(dump)
    print("(* real parser, text: %s *)" % repr(text).replace("*)", "* )"))
    if "--split" in sys.argv:
        for i, c in enumerate(tree[2]):
            print("Definition %s_%d : node :=\n  %s.\n" % (name, i, coq(c, 2)))
        print("Definition %s : node :=\n  %s.\n" % (name, coq(tree, 2, ["%s_%d" % (name, i) for i in range(len(tree[2]))])))
    else:
        print("Definition %s : node :=\n  %s.\n" % (name, coq(tree, 2)))


if __name__ == "__main__":
    main()
