#!/usr/bin/env python3
"""Regenerates /verif/MANIFEST.json from the MANIFEST dict of every checks/cNN.py and from
tools/not_applicable.json (kept valid at all times)."""
import importlib, json, os, sys
V = os.path.dirname(os.path.dirname(os.path.abspath(__file__)))
sys.path.insert(0, V)
props = [json.loads(l) for l in open(os.path.join(V, "properties.jsonl"))]
NA = json.load(open(os.path.join(V, "tools", "not_applicable.json")))
checks, na, engines = [], [], {}
for p in props:
    pid = p["id"]
    path = os.path.join(V, "checks", pid.lower() + ".py")
    if os.path.exists(path) and pid not in NA:
        c = importlib.import_module("checks." + pid.lower()).MANIFEST
        checks.append({
            "property_id": pid,
            "quick_cmd": "./vcheck %s --tier quick" % pid,
            "thorough_cmd": "./vcheck %s --tier thorough" % pid,
            "evidence_file": "/verif/evidence/%s.json" % pid,
            "replay_cmd_template": "./vcheck %s --replay {path}" % pid,
            "engine": c["engine"],
            "level_claimed": {"category": c.get("category", "proof"), "text": c["text"], "design_ref": "DESIGN.md section " + c["design"]},
            "level_note": c["note"],
            "technique": c["technique"],
        })
        for e in c.get("engines", []):
            engines.setdefault(e["name"], dict(e, serves_properties=[]))["serves_properties"].append(pid)
    else:
        na.append({"property_id": pid, "reason": NA.get(pid, "check not built yet in this session (planned, see DESIGN.md section 6)")})
hooks = json.load(open(os.path.join(V, "tools", "hooks.json")))
m = {
 "version": 1,
 "setup_cmd": "./setup.sh",
 "hooks": hooks,
 "engines": list(engines.values()),
 "checks": checks,
 "not_applicable": na,
 "notes": "Every check: translators -> Coq obligations of Properties/<id>.v re-checked (full .vo build, Print Assumptions audit) -> correspondence between extracted model and /repo's current tree -> evidence. See DESIGN.md.",
}
json.dump(m, open(os.path.join(V, "MANIFEST.json"), "w"), indent=1)
print("MANIFEST.json written:", len(checks), "checks,", len(na), "not claimed")
