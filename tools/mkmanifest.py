#!/usr/bin/env python3
"""Regenerates /verif/MANIFEST.json from the table below (kept valid at all times)."""
import json, os
V = os.path.dirname(os.path.dirname(os.path.abspath(__file__)))
props = [json.loads(l) for l in open(os.path.join(V, "properties.jsonl"))]

CHECKS = {
 "C18": dict(
   engine="E-symtab",
   technique="Coq proof: representation invariant by induction over all op sequences + refinement to nested case-insensitive maps; tied to the code by exhaustive differential run of the extracted model",
   text="Theorems over the Gallina model of SymbolTable (all op sequences, all chain lengths): lookup = latest insertion in nearest scope ignoring case, search_all one hit per scope, iteration = insertion order, merged listing = each name once/nearest wins/complete/ordered, stored indices in range. The model is tied to /repo by running the extracted model and the real SymbolTable on every insertion sequence up to length 5/4/3 (1/2/3 scopes) over 3 names x 2 casings followed by every query, plus random sequences; an independent oracle re-states the property on the implementation's own output.",
   note="Trusted: Coq kernel, extraction (ExtrOcamlBasic), harness. Assumes ASCII names, acyclic parent chains (cycles: C14), id == info.id at insertion.",
   design="6 C18"),
}
NOT_YET = "check not built yet in this session (planned, see DESIGN.md section 6)"

checks, na = [], []
for p in props:
    pid = p["id"]
    if pid in CHECKS:
        c = CHECKS[pid]
        checks.append({
            "property_id": pid,
            "quick_cmd": "./vcheck %s --tier quick" % pid,
            "thorough_cmd": "./vcheck %s --tier thorough" % pid,
            "evidence_file": "/verif/evidence/%s.json" % pid,
            "replay_cmd_template": "./vcheck %s --replay {path}" % pid,
            "engine": c["engine"],
            "level_claimed": {"category": c.get("category", "proof"), "text": c["text"], "design_ref": c["design"]},
            "level_note": c["note"],
            "technique": c["technique"],
        })
    else:
        na.append({"property_id": pid, "reason": NOT_YET})

m = {
 "version": 1,
 "setup_cmd": "./setup.sh",
 "hooks": {
   "guard": "gold_lsp_verif",
   "enable": "RUSTFLAGS=\"--cfg gold_lsp_verif\" (cargo build of /verif/harness into target-hooks)",
   "baseline_off_cmd": "cd /repo && cargo test --workspace --no-fail-fast --offline",
   "source_commits": [],
   "add_only": True,
 },
 "engines": [
   {"name": "E-symtab", "path": "harness/src/eng_symtab.rs + coq/extract/eng_symtab.ml", "serves_properties": ["C18"],
    "kind_free_text": "differential: real SymbolTable vs extracted Coq model on operation sequences"},
 ],
 "checks": checks,
 "not_applicable": na,
 "notes": "Every check: translators -> Coq obligations of Properties/<id>.v re-checked (full .vo build, Print Assumptions audit) -> correspondence between extracted model and /repo's current tree -> evidence. See DESIGN.md.",
}
json.dump(m, open(os.path.join(V, "MANIFEST.json"), "w"), indent=1)
print("MANIFEST.json written:", len(checks), "checks,", len(na), "not yet claimed")
