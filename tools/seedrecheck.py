#!/usr/bin/env python3
"""seedrecheck.py [ID ...]: re-runs every kept seeded change (seeded/<ID>/<k>) against the check of its property on /repo's
current tree (tools/seedcheck.sh applies the patch, runs the check, reverts) and updates meta.json:detection."""
import glob, json, os, subprocess, sys
V = os.path.dirname(os.path.dirname(os.path.abspath(__file__)))
want = set(a.upper() for a in sys.argv[1:] if "/" not in a)
want_seed = set(a.upper() for a in sys.argv[1:] if "/" in a)     # e.g. C18/6
for mf in sorted(glob.glob(os.path.join(V, "seeded", "*", "*", "meta.json"))):
    d = os.path.dirname(mf)
    pid = d.split(os.sep)[-2]
    if (want or want_seed) and pid not in want and ("%s/%s" % (pid, d.split(os.sep)[-1])) not in want_seed:
        continue
    if json.load(open(mf)).get("superseded"):
        continue
    q = subprocess.run(["sh", os.path.join(V, "tools/seedcheck.sh"), pid, d, "quick"], stdout=subprocess.PIPE, stderr=subprocess.STDOUT)
    lines = [l for l in q.stdout.decode().splitlines() if l.strip()]
    viol = [l for l in lines if l.startswith("VIOLATION")]
    ex = [l for l in lines if l.startswith("exit=")]
    other = [l for l in lines if l in ("PATCH-DOES-NOT-APPLY",) or l.startswith("refusing")]
    m = json.load(open(mf))
    head = subprocess.check_output(["git", "-C", "/repo", "rev-parse", "--short", "HEAD"]).decode().strip()
    m.setdefault("detection", {})[pid] = {"tier": "quick", "detected": bool(viol), "exit": ex[-1][5:] if ex else None,
                                           "first_violation_line": viol[0] if viol else None, "repo_head": head,
                                           "other_output": other}
    json.dump(m, open(mf, "w"), indent=1)
    print("%s/%s detected=%s %s %s" % (pid, d.split(os.sep)[-1], bool(viol), "(no failing input)" if viol and "no-failing-input-found" in viol[0] else "", " ".join(other)), flush=True)
