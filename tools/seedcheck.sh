#!/bin/sh
# tools/seedcheck.sh <property id> <dir with patch.diff> [tier]
# Applies a seeded change to /repo, runs the property's check, and undoes the change straight afterwards.
set -u
# exclusive lock on /repo for the time the seeded change is applied (checks hold it shared)
if [ -z "${VERIF_REPO_LOCK_HELD:-}" ]; then exec env VERIF_REPO_LOCK_HELD=1 flock -x /tmp/gold-verif-repo.lock sh "$0" "$@"; fi
PID="$1"; DIR="$(cd "$2" && pwd)"; TIER="${3:-quick}"
cd /verif
if ! git -C /repo diff --quiet; then echo "refusing: /repo has uncommitted changes"; exit 2; fi
if ! git -C /repo apply --check "$DIR/patch.diff" 2>/dev/null; then
  if git -C /repo apply --3way --check "$DIR/patch.diff" 2>/dev/null; then MODE="--3way"; else echo "PATCH-DOES-NOT-APPLY"; exit 3; fi
else MODE=""; fi
if ! git -C /repo apply $MODE "$DIR/patch.diff" 2>/dev/null; then git -C /repo reset -q --hard HEAD; echo "PATCH-DOES-NOT-APPLY"; exit 3; fi
if git -C /repo diff --name-only --diff-filter=U | grep -q .; then git -C /repo reset -q --hard HEAD; echo "PATCH-DOES-NOT-APPLY"; exit 3; fi
# the evidence file must describe runs on the unchanged tree only: keep it aside while the seeded tree is checked
EV="evidence/$PID.json"; [ -f "$EV" ] && cp "$EV" "/tmp/seedcheck.$PID.evidence"
./vcheck "$PID" --tier "$TIER" > /tmp/seedcheck.out 2>&1
RC=$?
[ -f "/tmp/seedcheck.$PID.evidence" ] && mv "/tmp/seedcheck.$PID.evidence" "$EV"
git -C /repo reset -q --hard HEAD; git -C /repo clean -fdq -e target
grep -E "^VIOLATION" /tmp/seedcheck.out | head -5
grep -E "^KNOWN-FINDING" /tmp/seedcheck.out | head -3
echo "exit=$RC"
exit 0
