#!/bin/sh
# regenerates coq/theories/Proofs/UnusedVarWitness.v from the REAL parser (tools/dump2coq.py)
cd "$(dirname "$0")/.."
O=coq/theories/Proofs/UnusedVarWitness.v
{
echo '(* Concrete trees for Properties/C15.v.  Every tree below is the dump of the tree the REAL parser'
echo '   (GoldLexer::lex + parse_gold of /repo) builds for the quoted text, converted by tools/dump2coq.py.'
echo '   The checks replay the same texts against the real analyser on every run (checks/c15.py WITNESSES). *)'
echo 'From GoldV Require Import Base Tokens Lexer AstKinds Tree.'
echo
python3 tools/dump2coq.py w_ok 'class aC (aP)\n\nmemory g : int4\n\nproc p(a : int4)\n var x : int4\n var y : int4\n var z : int4\n y = a + 1\n self.x = y\n if y > 0\n  z.foo(1)\n endif\nendproc\n\nfunc f return int4\n var x : int4\n var w : int4\n return x\nendfunc\n'
python3 tools/dump2coq.py w_case 'proc p\n var x : int4\n X = 1\nendproc'
python3 tools/dump2coq.py w_lit "proc p\n var s : int4\n foo('s')\nendproc"
python3 tools/dump2coq.py w_order 'proc p\n x = 1\n var x : int4\nendproc'
python3 tools/dump2coq.py w_dup 'proc p\n var x : int4\n var x : int4\nendproc'
python3 tools/dump2coq.py w_trail 'proc p\n var x : int4\nendproc\nproc q\nendproc\nmemory f : int4 absolute x' --split
} > $O
cd "$(dirname "$0")/.."
{
python3 tools/dump2coq.py w_callee 'proc p\n var x : int4\n x(1)\nendproc'
python3 tools/dump2coq.py w_forctr 'proc p\n var x : int4\n for x = 1 to 3\n  foo()\n endfor\nendproc'
python3 tools/dump2coq.py w_indexed 'proc p\n var x : int4\n self.x[1] = 2\nendproc'
} >> coq/theories/Proofs/UnusedVarWitness.v
