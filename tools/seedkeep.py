#!/usr/bin/env python3
"""seedkeep.py <PROPERTY> <seed source dir> <k> [seedverify options…] [--also Cxx,Cyy] [--tier quick|thorough]
Confirms the seeded change (tools/seedverify.py), runs the property's check against it (tools/seedcheck.sh) and,
when confirmed, keeps it as /verif/seeded/<PROPERTY>/<k>/ with the confirmation and detection results in meta.json."""
import json, os, shutil, subprocess, sys

V = "/verif"


def main():
    pid, src, k = sys.argv[1], sys.argv[2], sys.argv[3]
    rest = sys.argv[4:]
    also, tier = [], "quick"
    opts = []
    i = 0
    while i < len(rest):
        if rest[i] == "--also":
            also = rest[i + 1].split(","); i += 2
        elif rest[i] == "--tier":
            tier = rest[i + 1]; i += 2
        else:
            opts += rest[i:i + 2]; i += 2
    p = subprocess.run([sys.executable, os.path.join(V, "tools/seedverify.py"), src] + opts, stdout=subprocess.PIPE)
    try:
        conf = json.loads(p.stdout.decode())
    except Exception:
        print("seedverify produced no JSON:\n" + p.stdout.decode()[-2000:]); return 2
    print("confirmed=%s suite=%s demo_with=%s demo_without=%s" % (
        conf.get("confirmed"), conf.get("suite_with"), conf.get("demo_with_change", {}).get("passes"),
        conf.get("demo_without_change", {}).get("passes")))
    if not conf.get("confirmed"):
        print(json.dumps(conf, indent=1)[-3000:]); return 1
    detection = {}
    for c in [pid] + also:
        q = subprocess.run(["sh", os.path.join(V, "tools/seedcheck.sh"), c, src, tier], stdout=subprocess.PIPE,
                           stderr=subprocess.STDOUT)
        out = q.stdout.decode()
        lines = [l for l in out.splitlines() if l.strip()]
        viol = [l for l in lines if l.startswith("VIOLATION")]
        ex = [l for l in lines if l.startswith("exit=")]
        detection[c] = {"tier": tier, "detected": bool(viol), "exit": ex[-1][5:] if ex else None,
                        "first_violation_line": viol[0] if viol else None,
                        "other_output": [l for l in lines if not l.startswith(("VIOLATION", "exit=", "KNOWN-FINDING"))][:3]}
        print("%s: detected=%s %s" % (c, bool(viol), viol[0] if viol else lines[-3:]))
    dst = os.path.join(V, "seeded", pid, str(k))
    os.makedirs(dst, exist_ok=True)
    for f in os.listdir(src):
        if f in ("patch.diff", "demo_test.rs", "demo.py", "demo_delay.diff") or f.startswith("demo"):
            shutil.copy(os.path.join(src, f), os.path.join(dst, f))
    meta = json.load(open(os.path.join(src, "meta.json")))
    meta["confirmed_by_me"] = {"repo_head": conf["head"], "suite_without": conf["suite_without"],
                               "suite_with": conf["suite_with"],
                               "demo_fails_with_change": conf["demo_with_change"]["passes"] is False,
                               "demo_passes_without_change": conf["demo_without_change"]["passes"] is True,
                               "demo_output_with_change": conf["demo_with_change"]["output"][-600:],
                               "options": opts}
    meta["detection"] = detection
    json.dump(meta, open(os.path.join(dst, "meta.json"), "w"), indent=1)
    return 0


if __name__ == "__main__":
    sys.exit(main())
