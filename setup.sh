#!/bin/sh
# Build the framework from files on disk only (offline).
set -e
cd "$(dirname "$0")"
export CARGO_NET_OFFLINE=true
python3 - <<'PY'
import sys
sys.path.insert(0, '.')
from vlib import core
for (t, ok, msg) in core.run_translators():
    print("translator", t, "ok" if ok else "FAILED: " + msg)
PY
sh tools/mkcoqproject.sh
(cd coq && coq_makefile -f _CoqProject -o Makefile >/dev/null && timeout 3000 make -j16 >/dev/null 2>&1 || (make 2>&1 | tail -30; exit 1))
sh coq/extract/build.sh
(cd harness && cargo build --offline --target-dir target 2>&1 | tail -2)
cargo build --offline --manifest-path /repo/Cargo.toml --target-dir harness/target-repo 2>&1 | tail -1
echo setup done
