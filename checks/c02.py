"""C02  Answers reflect the latest text the client supplied for the document."""
import json, os, random, re, shutil, tempfile, time
from concurrent.futures import ThreadPoolExecutor
from vlib import core, diff, lsp

MANIFEST = dict(
    engine="E-bb",
    technique="Coq proof over a state-machine model of the caching layers (versions and provenance; induction over all histories with invariants; refutations by vm_compute witnesses); black-box correspondence: sequential LSP histories against the real binary, every response compared with the extracted model's predicted provenance and with a freshly started second server on the materialised logical workspace",
    text=("Theorems (Properties/C02.v) over ALL histories of didOpen/didChange/didSave(file rewritten)/didClose and requests on the model of "
          "Document/DocumentInfo/get_parsed_document/analyze_uri/annotate_doc/get_symbol_table_for_uri_def_only/the start-up class tree "
          "(Model/Cache.v): answers that read the current document object only (documentSymbol; parser and v1-analyzer diagnostics, incl. the "
          "analyzer_diagnostics cache) are those of a freshly started server after every history; a change, a save and a close reset the document "
          "itself; requests never make a cached table stale; if every cached table is the fresh chain of its document (AllFresh) then every "
          "cross-file answer (definition, completion, v2 diagnostics, prepareTypeHierarchy) is fresh, and AllFresh is preserved by save always and "
          "by change/close exactly when no OTHER document holds a table linked to the changed one. "
          "Outside two decidable classes of histories every answer equals the fresh server's (C02_holds_outside_partial); each class is REFUTED "
          "by a shortest history (vm_compute): a dependent keeps the pre-change table of its ancestor; the class tree is never rebuilt. A third "
          "class (DocumentInfo::symbol_table surviving didClose) was repaired by /repo 9bf8fa8: the model follows the fixed handler, the old one "
          "is kept as a regression theorem (C02_old_close_refuted) and its witness must now be answered fresh on every run. Tie to the code: generated sequential histories (client waits for every response) over "
          "generated 2-4 class workspaces whose member names and line offsets encode (document, version), so the provenance of every answer "
          "(which version of which document it was computed from) is read off the answer and compared with the model's prediction on EVERY "
          "response - also on the refuted classes, where both are stale in the same way - and every response is compared with a freshly "
          "started second server on the materialised logical workspace (the property's own oracle). A second stream with header edits that "
          "close inheritance cycles validates the modelled cycle refusal of the annotator (model's prediction only)."),
    note=("Partial: contents are abstracted to versions and provenance (which version of which document an answer was computed from); the "
          "oracle is the fresh server; the 'outside' theorem is stated for histories whose logical inheritance relation stays acyclic (with a "
          "cycle the fresh server's own class tree depends on HashMap order); cross-file look-ups are those through the parent class (texts "
          "have no `uses`, no references to other classes in bodies). Sequential histories only (C03 covers overlap). Trusted: Python LSP "
          "client, provenance decoding from generated names/line offsets, extraction."),
    design="6 C02",
    engines=[dict(name="E-bb", path="vlib/lsp.py + checks/c02.py + coq/extract/eng_cache.ml",
                  kind_free_text="black box: real gold-lang-lsp --stdio driven sequentially by a Python client, a second freshly started binary on the materialised logical workspace as oracle; model: extracted Cache.run_server (predicted provenance) and Cache.triggers_of (known classes)")],
)
ASSUMPTIONS = [
    "sequential histories: the client waits for each response before sending the next message; the history starts after start-up (class tree built: 'Processed n entities' logged)",
    "didChange carries the full text; didSave is sent after the client has rewritten the file with the text it last supplied; didOpen carries the logical text (the server ignores it)",
    "generated texts: one class per file named after the file, a parent class that is another file of the workspace or none, no `uses`, bodies reference members only: all cross-file look-ups go through the parent link; the inheritance relation of the logical workspace stays acyclic (initially and after every edit)",
    "contents are abstracted to (version id, parent); generated version ids are unique per document, member names F_<doc>_<version>_<k>, the unused local u_<doc>_<version> and the number of leading blank lines make the version an answer was computed from readable from the answer",
    "the files on disk change through the client's save, or are rewritten by another program right before the client closes the document (no other external change); files are neither created nor deleted during a history",
    "the oracle is a freshly started server of the SAME binary on a copy of the logical workspace: a defect shared by every start (e.g. a wrong answer that does not depend on history) is invisible to C02 (C10-C13 cover answers as such)",
]

SERVER_ENV = "GOLDVERIF_SERVER_BIN"      # mutant testing only: path of an alternative server binary

CLASSES = {   # id of the finding -> letter printed by the model engine for the situation
    "dependent-keeps-prechange-ancestor-table": "d",
    "class-tree-never-rebuilt": "t",
}
PROPOSED_FINDINGS = [
    {"property": "C02", "id": "dependent-keeps-prechange-ancestor-table",
     "class": "KnownClass_C02 / known_dep (Model/Cache.v trigger_dep): a didChange or didClose changes the logical text of p while another document holds a cached table (DocumentInfo::symbol_table or the annotated table of its visible Document) whose parent chain contains p",
     "what": "a dependent's cached annotated tree / symbol table keeps the Arc of its ancestor's PRE-change table: completion, definition, prepareTypeHierarchy in the child keep answering from the ancestor's old text until the child itself is changed or saved",
     "witness": "0:-,0:0;Rc1,C0:1:-,Rc1", "status": "open"},
    {"property": "C02", "id": "class-tree-never-rebuilt",
     "class": "KnownClass_C02 / known_tree (trigger_tree): a typeHierarchy/supertypes or subtypes request when the parent named by some document's logical header differs from the one it had at start-up",
     "what": "the class tree is built once in main_loop: after a header change (didChange, also after didSave) typeHierarchy/supertypes and subtypes keep answering with the start-up inheritance relation",
     "witness": "0:-,0:-,0:0;C2:1:1,Ru2", "status": "open"},
]

# repaired defects: their witnesses run on every build and must now be answered as a fresh server answers them
REGRESSIONS = [
    ("symbol-table-survives-close (fixed by /repo 9bf8fa8: notify_document_closed calls reset_all_data)", "0:-,0:0;C0:1:-,Rc0,X0,Rc1"),
]

# ---------------------------------------------------------------------------------------------
# texts: version `vid` of document p starts with 4*vid blank lines (base = 4*vid; at most 3 F fields).
# Everything an answer can carry identifies (p, vid):
#   base+0      class aC<p> [(aC<parent>)]        class item range            -> vid = line / 4
#   base+1      G<p> : int4                       definition / prepare of a G -> vid = (line - 1) / 4
#   base+2      fLow<p> : int4                    v2 naming diagnostic        -> vid = (line - 2) / 4
#   base+3..    F_<p>_<vid>_<k> : int4  (nf)      documentSymbol, completion labels
#   base+3+nf   proc Common / endproc             definition of Common (all tables of the chain) -> vid = (line - 3) div 4
#   then proc M<p> / var u_<p>_<vid> / self.zz / x = G<ref> / [broken statement] / endproc
# (fields come before the methods: a field declared after a method lands in that method's scope table)
# ---------------------------------------------------------------------------------------------
def cname(p):
    return "aC%d" % p


def text_of(p, ver):
    L = [""] * (4 * ver["vid"])
    L.append("class %s%s" % (cname(p), " (%s)" % cname(ver["par"]) if ver["par"] is not None else ""))
    L.append("G%d : int4" % p)
    L.append("fLow%d : int4" % p)
    for k in range(ver["nf"]):
        L.append("F_%d_%d_%d : int4" % (p, ver["vid"], k))
    L.append("proc Common")
    L.append("endproc")
    L.append("proc M%d" % p)
    L.append("  var u_%d_%d : int4" % (p, ver["vid"]))
    L.append("  self.zz")
    L.append("  x = G%d" % ver["ref"])
    if ver["broken"] == "paren":
        L.append("  ) y")
    elif ver["broken"] == "string":
        L.append("  y = 'abc")
    L.append("endproc")
    return "\n".join(L) + "\n"


def pos_class(ver):
    return {"line": 4 * ver["vid"], "character": 7}


def pos_common(ver):
    return {"line": 4 * ver["vid"] + 3 + ver["nf"], "character": 6}


def pos_self(ver):
    return {"line": 4 * ver["vid"] + 7 + ver["nf"], "character": 8}


def pos_ref(ver):
    return {"line": 4 * ver["vid"] + 8 + ver["nf"], "character": 7}


def expected_parser(ver):
    """parser diagnostics of a version as (line, message) list"""
    base = 4 * ver["vid"] + ver["nf"]
    if ver["broken"] == "paren":
        return [(base + 9, "Unexpected CBracket token found")]
    if ver["broken"] == "string":
        return [(base + 5, "proc end token not found")]
    return []


# request sub-kinds: (LSP method, variant) -> model kind letter
REQS = [
    ("textDocument/documentSymbol", "", "y"),
    ("textDocument/diagnostic", "", "d"),
    ("textDocument/definition", "common", "c"),
    ("textDocument/definition", "ref", "c"),
    ("textDocument/completion", "", "c"),
    ("textDocument/prepareTypeHierarchy", "class", "c"),
    ("textDocument/prepareTypeHierarchy", "ref", "c"),
    ("typeHierarchy/supertypes", "class", "u"),
    ("typeHierarchy/supertypes", "member", "U"),
    ("typeHierarchy/subtypes", "class", "b"),
    ("typeHierarchy/subtypes", "member", "B"),
]
REQ_BY_NAME = {"%s:%s" % (m.split("/")[1], v): (m, v, k) for (m, v, k) in REQS}


# ---------------------------------------------------------------------------------------------
# histories.  event = ("O", p) | ("C", p, ver) | ("S", p) | ("X", p) | ("R", reqname, p)
# ---------------------------------------------------------------------------------------------
def ancestors(logical, p):
    seen = []
    q = logical[p]["par"]
    while q is not None and q not in seen:
        seen.append(q)
        q = logical[q]["par"]
    return seen


def gen_history(rng, max_steps=25):
    n = rng.randint(2, 4)
    ws = []
    for p in range(n):
        par = rng.randrange(p) if (p > 0 and rng.random() < 0.75) else None
        ws.append(dict(vid=0, par=par, nf=rng.randint(1, 2), ref=rng.randrange(n), broken=None))
    disk = list(ws)
    opened = [None] * n
    nextvid = [1] * n
    evs = []

    def logical():
        return [opened[p] if opened[p] is not None else disk[p] for p in range(n)]

    steps = rng.randint(3, max_steps)
    focus = rng.randrange(n)
    while len(evs) < steps:
        k = rng.random()
        p = focus if rng.random() < 0.5 else rng.randrange(n)
        if k < 0.56:
            name = rng.choice(list(REQ_BY_NAME))
            evs.append(("R", name, p))
        elif k < 0.80:
            cur = logical()[p]
            ver = dict(cur)
            ver["vid"] = nextvid[p]
            nextvid[p] += 1
            e = rng.random()
            if rng.random() < 0.15:  # the edit is undone: exactly the text of the file on disk again (same version)
                ver = dict(disk[p])
                nextvid[p] -= 1
                e = 2.0
            if e > 1.0:
                pass
            elif e < 0.25:          # rename only: new member names
                pass
            elif e < 0.40:          # insert a declaration
                ver["nf"] = min(3, cur["nf"] + 1)
            elif e < 0.50:          # delete a declaration
                ver["nf"] = max(1, cur["nf"] - 1)
            elif e < 0.75:          # header: another parent / none, keeping the logical relation acyclic
                lg = logical()
                cands = [None] + [q for q in range(n) if q != p and p not in ancestors(lg, q)]
                ver["par"] = rng.choice(cands)
            elif e < 0.85:
                ver["ref"] = rng.randrange(n)
            else:                   # break the syntax
                ver["broken"] = rng.choice(["paren", "string"])
            if e <= 1.0 and cur["broken"] and rng.random() < 0.7:
                ver["broken"] = None    # repair
            opened[p] = ver
            evs.append(("C", p, ver))
        elif k < 0.87:
            disk[p] = logical()[p]
            opened[p] = None
            evs.append(("S", p))
        elif k < 0.89:
            # the file is rewritten by another program and the client only CLOSES the document: in the model's terms a
            # change + save + close of which the server sees the close alone (it must then answer from the file)
            cur = logical()[p]
            ver = dict(cur, vid=nextvid[p], nf=rng.randint(1, 3), broken=None)
            nextvid[p] += 1
            disk[p] = ver
            opened[p] = None
            evs += [("C", p, ver, "silent"), ("S", p, "silent"), ("X", p)]
        elif k < 0.95:
            opened[p] = None
            evs.append(("X", p))
        else:
            evs.append(("O", p))
        if rng.random() < 0.15:
            focus = rng.randrange(n)
    return ws, evs


def gen_cyclic_history(rng):
    """the same histories with header edits that may close inheritance cycles (a class naming itself, or classes
    naming each other, as parent): only the model's predicted provenance is compared (with a cycle the fresh
    server's own class tree depends on HashMap order); validates the annotator's cycle refusal in Cache.v"""
    ws, evs = gen_history(rng)
    n = len(ws)
    out = []
    for e in evs:
        if e[0] == "C" and rng.random() < 0.5:
            v = dict(e[2])
            v["par"] = rng.choice([None] + list(range(n)))
            out.append(("C", e[1], v))
        else:
            out.append(e)
    return ws, out


def par_s(x):
    return "-" if x is None else str(x)


def case_of(ws, evs):
    """the model engine's case line"""
    items = []
    for e in evs:
        if e[0] == "R":
            items.append("R%s%d" % (REQ_BY_NAME[e[1]][2], e[2]))
        elif e[0] == "C":
            items.append("C%d:%d:%s" % (e[1], e[2]["vid"], par_s(e[2]["par"])))
        else:
            items.append("%s%d" % (e[0], e[1]))
    return ",".join("%d:%s" % (v["vid"], par_s(v["par"])) for v in ws) + ";" + ",".join(items)


def show_history(ws, evs):
    out = []
    for e in evs:
        if e[0] == "R":
            out.append("%s(%s)" % (e[1], cname(e[2])))
        elif e[0] == "C":
            v = e[2]
            out.append(("[not sent] " if len(e) > 3 else "") + "didChange(%s -> version %d: parent %s, %d fields, references G%d%s)" % (
                cname(e[1]), v["vid"], cname(v["par"]) if v["par"] is not None else "none", v["nf"], v["ref"],
                ", syntax broken (%s)" % v["broken"] if v["broken"] else ""))
        else:
            out.append("%s(%s)%s" % ({"O": "didOpen", "S": "didSave", "X": "didClose"}[e[0]], cname(e[1]),
                                     " [file rewritten, no notification sent]" if len(e) > 2 and e[0] == "S" else ""))
    return {"workspace": ["%s: parent %s, %d fields, references G%d" % (cname(p), cname(v["par"]) if v["par"] is not None else "none", v["nf"], v["ref"])
                          for p, v in enumerate(ws)], "history": out}


def parse_case_versions(ws, evs):
    """all versions of every document that occur in a history: {(p, vid): ver}"""
    vs = {(p, v["vid"]): v for p, v in enumerate(ws)}
    for e in evs:
        if e[0] == "C":
            vs[(e[1], e[2]["vid"])] = e[2]
    return vs


# ---------------------------------------------------------------------------------------------
# driving a server
# ---------------------------------------------------------------------------------------------
def server_binary():
    b = os.environ.get(SERVER_ENV)
    return b if b else lsp.build_server()


def write_workspace(root, texts):
    paths = []
    for p, t in enumerate(texts):
        fp = os.path.join(root, cname(p) + ".god")
        with open(fp, "w", encoding="utf-8") as f:
            f.write(t)
        paths.append(fp)
    # a document outside the class forest: a documentSymbol on it shows that the preceding notification has been processed
    with open(os.path.join(root, "zSync.god"), "w") as f:
        f.write("class zSync\n")
    return paths


class Server:
    def __init__(self, binary, root):
        self.root = os.path.realpath(root)
        self.s = lsp.Session(binary, self.root)
        self.nid = 1
        if self.s.initialize(self.root) is None:
            self.s.kill()
            raise RuntimeError("no initialize response: " + "".join(self.s.stderr[-10:]))
        end = time.time() + 20
        while time.time() < end:        # the class tree is built by a pool job: wait for its log line
            if any("Processed" in l and "entities" in l for l in list(self.s.stderr)):
                break
            time.sleep(0.005)
        else:
            self.s.kill()
            raise RuntimeError("class tree not built within 20 s")

    def uri(self, p):
        return lsp.file_uri(os.path.join(self.root, cname(p) + ".god"))

    def request(self, method, params, timeout=30):
        i = self.nid
        self.nid += 1
        self.s.request(i, method, params)
        r = self.s.wait_response(i, timeout)
        if r is None:
            return {"noresponse": True, "panicked": self.s.panicked(), "stderr": "".join(self.s.stderr[-6:])}
        return r

    def sync(self):
        return self.request("textDocument/documentSymbol",
                            {"textDocument": {"uri": lsp.file_uri(os.path.join(self.root, "zSync.god"))}})

    def close(self):
        try:
            self.s.shutdown_exit(100000, timeout=10)
        except Exception:
            self.s.kill()


def params_for(srv, name, p, ver):
    """the request a client would send about document p whose text (as the client knows it) is `ver`"""
    method, variant, _ = REQ_BY_NAME[name]
    td = {"uri": srv.uri(p)}
    if method in ("textDocument/documentSymbol", "textDocument/diagnostic"):
        return method, {"textDocument": td}
    if method == "textDocument/completion":
        return method, {"textDocument": td, "position": pos_self(ver)}
    if method in ("textDocument/definition", "textDocument/prepareTypeHierarchy"):
        pos = {"common": pos_common, "ref": pos_ref, "class": pos_class}[variant](ver)
        return method, {"textDocument": td, "position": pos}
    z = {"start": {"line": 0, "character": 0}, "end": {"line": 0, "character": 1}}
    if variant == "class":
        item = {"name": cname(p), "kind": 5, "uri": td["uri"], "range": z, "selectionRange": z}
    else:
        item = {"name": "Common", "kind": 12, "detail": cname(p), "uri": td["uri"], "range": z, "selectionRange": z}
    return method, {"item": item}


def normalise(resp, root):
    """protocol-level canonical form: paths relative to the workspace, lists without protocol order sorted"""
    if resp.get("noresponse"):
        return "NO-RESPONSE" + (" (panicked)" if resp.get("panicked") else "")
    if "error" in resp:
        return {"error": resp["error"].get("code")}
    txt = json.dumps(resp.get("result"), sort_keys=True).replace(root, "ROOT")
    val = json.loads(txt)

    def canon(x):
        return json.dumps(x, sort_keys=True)
    if isinstance(val, dict) and isinstance(val.get("items"), list):
        val["items"] = sorted(val["items"], key=canon)
    elif isinstance(val, list):
        val = sorted(val, key=canon)
    return val


def doc_of_uri(uri):
    m = re.search(r"aC(\d+)\.god$", uri or "")
    return int(m.group(1)) if m else None


def observed_provenance(name, p, resp, versions):
    """what the answer says about the versions it was computed from, in the model engine's syntax;
    None when the answer carries no readable provenance"""
    method, variant, _ = REQ_BY_NAME[name]
    if resp.get("noresponse"):
        return "NO-RESPONSE"
    if "error" in resp:
        return "E"
    res = resp.get("result")
    if method == "textDocument/documentSymbol":
        names = []

        def walk(xs):
            for x in xs or []:
                names.append(x.get("name", ""))
                walk(x.get("children"))
        walk(res)
        vs = sorted(set((int(a), int(b)) for a, b in re.findall(r"\bF_(\d+)_(\d+)_\d+\b", " ".join(names))))
        return "L" + ",".join("%d.%d" % v for v in vs) if vs else None
    if method == "textDocument/diagnostic":
        items = (res or {}).get("items", [])
        parser = sorted((d["range"]["start"]["line"], d["message"]) for d in items if d.get("severity") == 1)
        v1 = sorted(set(re.findall(r"Unused var: u_(\d+)_(\d+)", " ".join(d["message"] for d in items))))
        v2 = sorted(set((d["range"]["start"]["line"] - 2) // 4 for d in items if d["message"].startswith("Field names should")))
        # the parser part is identified by matching the expected diagnostics of each version of p
        cands = [vid for (q, vid), ver in sorted(versions.items()) if q == p and expected_parser(ver) == parser]
        v1s = ",".join("%s" % b for a, b in v1 if int(a) == p) if v1 else "?"
        return "D%d.%s.%s.%s" % (p, "/".join(map(str, cands)) if cands else ("?%r" % (parser,)).replace(".", "_"), v1s,
                                 ",".join(map(str, v2)) if v2 else "-")
    if method == "textDocument/completion":
        labels = [c.get("label", "") for c in (res or [])]
        chain = []
        for l in labels:
            m = re.match(r"F_(\d+)_(\d+)_\d+$", l)
            if m:
                v = (int(m.group(1)), int(m.group(2)))
                if v not in chain:
                    chain.append(v)
        return "C" + ",".join("%d.%d" % v for v in chain) if chain else None
    if method == "textDocument/definition" and variant == "common":
        chain = [(doc_of_uri(l.get("targetUri")), (l["targetSelectionRange"]["start"]["line"] - 3) // 4) for l in (res or [])]
        return "C" + ",".join("%s.%d" % v for v in chain) if chain else None
    if method == "textDocument/definition" and variant == "ref":
        return "G" + ",".join("%s.%d" % (doc_of_uri(l.get("targetUri")), (l["targetSelectionRange"]["start"]["line"] - 1) // 4) for l in (res or []))
    if method == "textDocument/prepareTypeHierarchy" and variant == "class":
        return "H" + ",".join("%s.%d" % (doc_of_uri(i.get("uri")), i["range"]["start"]["line"] // 4) for i in (res or []))
    if method == "textDocument/prepareTypeHierarchy" and variant == "ref":
        return "G" + ",".join("%s.%d" % (doc_of_uri(i.get("uri")), (i["selectionRange"]["start"]["line"] - 1) // 4) for i in (res or []))
    off = 0 if variant == "class" else 3
    return "T" + ",".join(sorted("%s.%d" % (doc_of_uri(i.get("uri")), (i["selectionRange"]["start"]["line"] - off) // 4) for i in (res or [])))


def predicted_view(name, p, pred, versions):
    """the model's predicted provenance, projected on what this request variant shows of it.
    None: nothing readable is expected (the body of a version broken by an unterminated string is not analysed)"""
    method, variant, _ = REQ_BY_NAME[name]
    if pred == "E" or method == "textDocument/documentSymbol":
        return pred
    if method == "textDocument/diagnostic":
        return pred
    if pred[0] == "T":
        return pred
    chain = [tuple(map(int, x.split("."))) for x in pred[1:].split(",")] if len(pred) > 1 else []
    head = versions.get(chain[0]) if chain else None
    body_lost = head is not None and head["broken"] == "string"
    if method == "textDocument/completion":
        if body_lost:
            return None
        seen = []               # the proposals are unique by name: a (document, version) linked twice shows once
        for c in chain:
            if c not in seen:
                seen.append(c)
        return "C" + ",".join("%d.%d" % c for c in seen)
    if variant == "common":
        return pred
    if variant == "class":
        return "H%d.%d" % chain[0]
    # a reference to G<ref>: found in the first table of the chain that belongs to document ref
    if body_lost:
        return "G"          # the statement is swallowed by the unterminated string: nothing to resolve
    ref = head["ref"]
    hit = [c for c in chain if c[0] == ref][:1]
    return "G" + ",".join("%d.%d" % c for c in hit)


def run_history(binary, ws, evs, scratch, with_fresh=True):
    """runs the history against one long-lived server; for every request also asks a freshly started server
    on the materialised logical workspace.  Returns one record per event."""
    n = len(ws)
    root = tempfile.mkdtemp(prefix="ws-", dir=scratch)
    disk = list(ws)
    opened = [None] * n
    paths = write_workspace(root, [text_of(p, v) for p, v in enumerate(ws)])
    srv = Server(binary, root)
    recs = []
    try:
        for e in evs:
            logical = [opened[p] if opened[p] is not None else disk[p] for p in range(n)]
            if e[0] == "R":
                name, p = e[1], e[2]
                method, params = params_for(srv, name, p, logical[p])
                resp = srv.request(method, params)
                rec = dict(event=e, resp=resp, norm=normalise(resp, srv.root))
                if with_fresh:
                    froot = tempfile.mkdtemp(prefix="fresh-", dir=scratch)
                    write_workspace(froot, [text_of(q, v) for q, v in enumerate(logical)])
                    f = Server(binary, froot)
                    try:
                        fm, fp = params_for(f, name, p, logical[p])
                        fresp = f.request(fm, fp)
                    finally:
                        f.close()
                    rec["fresh"] = fresp
                    rec["fresh_norm"] = normalise(fresp, f.root)
                    shutil.rmtree(froot, ignore_errors=True)
                recs.append(rec)
                if resp.get("noresponse"):
                    break
                continue
            p = e[1]
            td = {"uri": srv.uri(p)}
            if e[0] == "O":
                srv.s.notify("textDocument/didOpen", {"textDocument": dict(td, languageId="gold", version=1, text=text_of(p, logical[p]))})
            elif e[0] == "C" and len(e) > 3:
                opened[p] = e[2]            # silent: part of an external rewrite (see gen_history), the server is not told
            elif e[0] == "C":
                opened[p] = e[2]
                # full-text sync: the LAST event of a notification is the document; every third change carries an
                # earlier full text (and a ranged edit, which full-text sync ignores) in front of it
                changes = [{"text": text_of(p, e[2])}]
                if e[2]["vid"] % 3 == 1:
                    changes = [{"text": text_of(p, logical[p])},
                               {"range": {"start": {"line": 0, "character": 0}, "end": {"line": 0, "character": 1}}, "text": "x"}] + changes
                srv.s.notify("textDocument/didChange", {"textDocument": dict(td, version=e[2]["vid"] + 1),
                                                        "contentChanges": changes})
            elif e[0] == "S":
                disk[p] = logical[p]
                opened[p] = None
                with open(paths[p], "w", encoding="utf-8") as f:
                    f.write(text_of(p, disk[p]))
                if len(e) == 2:             # (a silent save only rewrites the file)
                    srv.s.notify("textDocument/didSave", {"textDocument": td})
            elif e[0] == "X":
                opened[p] = None
                srv.s.notify("textDocument/didClose", {"textDocument": td})
            r = srv.sync()
            recs.append(dict(event=e, resp=None, sync_lost=bool(r.get("noresponse"))))
            if r.get("noresponse"):
                break
    finally:
        panicked = srv.s.panicked()
        srv.close()
        shutil.rmtree(root, ignore_errors=True)
    return recs, panicked


def known(fired, listed, agree):
    """a stale answer belongs to a known finding iff the model predicted exactly this (stale) provenance and the
    history so far is in one of the LISTED classes (situations d/t computed by the extracted KnownClass predicates)"""
    return sorted(c for c in fired if c in listed) if agree else []


def judge(ws, evs, recs, panicked, pred, trig, listed):
    """-> list of problems [(step, kind, text)], counts.  kind: 'violation' (answer differs from the fresh server's and the
    history is in no listed class, or the server died), 'disagreement' (model and implementation differ on provenance)"""
    versions = parse_case_versions(ws, evs)
    problems = []
    stats = dict(responses=0, provenance_compared=0, unreadable=0, stale_known=0, fresh_compared=0)
    fired = set()
    for k, rec in enumerate(recs):
        fired |= set(c for c in (trig[k] if k < len(trig) else "-") if c != "-")
        e = rec["event"]
        if e[0] != "R":
            if rec.get("sync_lost"):
                problems.append((k, "violation", "the server stopped answering after %s" % (e[0],)))
            continue
        stats["responses"] += 1
        name, p = e[1], e[2]
        if rec["resp"].get("noresponse"):
            problems.append((k, "violation", "no response to %s%s" % (name, " (a thread panicked)" if rec["resp"].get("panicked") else "")))
            continue
        obs = observed_provenance(name, p, rec["resp"], versions)
        exp = predicted_view(name, p, pred[k], versions) if k < len(pred) else "?"
        agree = True
        if obs is None or exp is None:
            stats["unreadable"] += 1
            agree = (obs is None) == (exp is None)
        else:
            stats["provenance_compared"] += 1
            if name.startswith("diagnostic"):
                o = obs.split(".")
                x = exp.split(".")
                agree = (o[0] == x[0] and x[1] in o[1].split("/") and o[2] == x[2] and o[3] == x[3])
            else:
                agree = (obs == exp)
        if "fresh_norm" in rec:
            stats["fresh_compared"] += 1
            same = rec["norm"] == rec["fresh_norm"]
            if not same:
                cls = known(fired, listed, agree)
                if cls:
                    stats["stale_known"] += 1
                    rec["known"] = cls
                else:
                    why = ("the history is in none of the listed classes (situations met so far: %s)" % ("".join(sorted(fired)) or "none")) if agree else \
                          "and the provenance differs from the model's prediction"
                    problems.append((k, "violation", "%s about %s is answered differently from a freshly started server on the logical workspace; %s" % (name, cname(p), why)))
        if not agree:
            problems.append((k, "disagreement", "%s about %s: provenance read off the answer %r, model predicts %r" % (name, cname(p), obs, exp)))
    if panicked:
        problems.append((len(recs) - 1, "violation", "a thread of the server panicked"))
    return problems, stats


def model_outputs(cases):
    mb = diff.Engines.model()
    outs = core.run_lines(mb, "cache", [c + ";K" for c in cases])
    res = []
    for o in outs:
        if "#" not in o:
            res.append(([], [], o))
            continue
        a, b = o.split("#", 1)
        res.append((a.split("|"), b.split("|"), None))
    return res


def listed_classes(ctx):
    return {CLASSES[f["id"]]: f for f in ctx.open_findings() if f.get("id") in CLASSES}


def check_one(binary, ws, evs, scratch, listed, with_fresh=True):
    recs, panicked = run_history(binary, ws, evs, scratch, with_fresh=with_fresh)
    (pred, trig, err), = model_outputs([case_of(ws, evs)])
    if err is not None:
        return [(0, "disagreement", "model engine: " + err)], {}, recs, pred, trig
    problems, stats = judge(ws, evs, recs, panicked, pred, trig, listed)
    return problems, stats, recs, pred, trig


def silent_ok(evs):
    """an external rewrite is three events that only make sense together: silent change, silent save, close"""
    for i, e in enumerate(evs):
        if e[0] == "C" and len(e) > 3:
            if not (i + 2 < len(evs) and evs[i + 1][0] == "S" and len(evs[i + 1]) > 2 and evs[i + 1][1] == e[1]
                    and tuple(evs[i + 2]) == ("X", e[1])):
                return False
        if e[0] == "S" and len(e) > 2 and not (i > 0 and evs[i - 1][0] == "C" and len(evs[i - 1]) > 3):
            return False
    return True


def shrink(binary, ws, evs, scratch, listed, kind, budget=60):
    """delete events while a problem of the same kind remains"""
    def fails(cand):
        try:
            probs, _, _, _, _ = check_one(binary, ws, cand, scratch, listed)
        except Exception:
            return None
        ps = [x for x in probs if x[1] == kind]
        return ps[0] if ps else None
    cur = list(evs)
    first = fails(cur)
    if first is None:
        return cur, None
    cur = cur[: first[0] + 1]
    while not silent_ok(cur) and len(cur) < len(evs):
        cur = list(evs[: len(cur) + 1])
    improved = True
    while improved and budget > 0:
        improved = False
        for i in range(len(cur) - 1, -1, -1):
            cand = cur[:i] + cur[i + 1:]
            if not cand or not silent_ok(cand):
                continue
            budget -= 1
            f = fails(cand)
            if f is not None:
                cur = cand[: f[0] + 1]
                first = f
                improved = True
                break
            if budget <= 0:
                break
    return cur, first


def parse_witness(w):
    """a finding's witness in the model engine's case syntax -> (ws, evs) with default shapes"""
    wss, hs = w.split(";")[:2]
    ws = []
    n = len(wss.split(","))
    for p, x in enumerate(wss.split(",")):
        vid, par = x.split(":")
        ws.append(dict(vid=int(vid), par=None if par == "-" else int(par), nf=1, ref=0, broken=None))
    evs = []
    names = {}
    for (m, v, k) in REQS:
        names.setdefault(k, "%s:%s" % (m.split("/")[1], v))
    names["c"] = "completion:"
    for it in hs.split(","):
        if it[0] == "R":
            evs.append(("R", names[it[1]], int(it[2:])))
        elif it[0] == "C":
            p, vid, par = it[1:].split(":")
            evs.append(("C", int(p), dict(vid=int(vid), par=None if par == "-" else int(par), nf=1, ref=0, broken=None)))
        else:
            evs.append((it[0], int(it[1:])))
    return ws, evs


def replay_payload(ws, evs, recs, pred, trig, problem, extra=None):
    k = problem[0]
    rec = recs[k] if 0 <= k < len(recs) else {}
    d = {"engine": "E-bb", "case": {"workspace": ws, "events": [list(e) for e in evs]}, "case_line": case_of(ws, evs),
         "case_readable": show_history(ws, evs), "failing_step": k,
         "observed": rec.get("norm"), "expected": {"fresh_server_answer": rec.get("fresh_norm"), "clause": problem[2]},
         "model": {"predicted_provenance": pred, "situations": trig}}
    if problem[1] == "disagreement":
        d["broken"] = "correspondence E-bb/cache: model and implementation disagree on the provenance of a response"
    d.update(extra or {})
    return d


def correspondence(ctx, broken_obligations=()):
    binary = server_binary()
    diff.Engines.model()        # build the model runner once, before the worker threads use it
    listed = listed_classes(ctx)
    scratch = tempfile.mkdtemp(prefix="goldverif-c02-")
    t0 = time.time()
    try:
        n = 150 if ctx.quick else 2000
        hists = []
        # the witnesses of the refuted classes always run first (proposed or listed), then the regression cases
        wit = [(f["id"], parse_witness(f["witness"])) for f in PROPOSED_FINDINGS]
        for f in ctx.open_findings():
            if f.get("id") in CLASSES and f.get("witness"):
                wit.append((f["id"], parse_witness(f["witness"])))
        for i in range(n):
            rng = random.Random(ctx.seed * 1000003 + i)
            hists.append(gen_history(rng))
        regs = [parse_witness(w) for (_, w) in REGRESSIONS]
        allh = [w for (_, w) in wit] + regs + hists

        def work(h):
            try:
                return check_one(binary, h[0], h[1], scratch, listed)
            except Exception as ex:
                return [(0, "violation", "check machinery: %r" % (ex,))], {}, [], [], []

        def work_cyclic(h):
            try:
                probs, stats, recs, pred, trig = check_one(binary, h[0], h[1], scratch, set("dt"), with_fresh=False)
                return probs, stats, recs, pred, trig
            except Exception as ex:
                return [(0, "violation", "check machinery: %r" % (ex,))], {}, [], [], []
        cyc = [gen_cyclic_history(random.Random(ctx.seed * 7000003 + i)) for i in range(n // 5)]
        with ThreadPoolExecutor(max_workers=max(2, core.NCPU // 2)) as ex:
            results = list(ex.map(work, allh))
            cyc_results = list(ex.map(work_cyclic, cyc))

        totals = dict(responses=0, provenance_compared=0, unreadable=0, stale_known=0, fresh_compared=0)
        ev_hist, req_hist, cls_hist = {}, {}, {}
        for h, (probs, stats, recs, pred, trig) in zip(allh, results):
            for k in totals:
                totals[k] += stats.get(k, 0)
            for e in h[1]:
                ev_hist[e[0]] = ev_hist.get(e[0], 0) + 1
                if e[0] == "R":
                    req_hist[e[1]] = req_hist.get(e[1], 0) + 1
            for t in trig:
                for c in t:
                    if c != "-":
                        cls_hist[c] = cls_hist.get(c, 0) + 1
        cov = dict(programs=len(allh), evaluations=totals["responses"],
                   distinct_nontrivial=len(set(case_of(*h) for h in allh if sum(1 for e in h[1] if e[0] == "R") >= 2 and any(e[0] in "CSX" for e in h[1]))),
                   disagreements_checked=sum(1 for r in results for p in r[0] if p[1] == "disagreement"),
                   responses_compared_with_fresh_server=totals["fresh_compared"], provenance_compared_with_model=totals["provenance_compared"],
                   answers_without_readable_provenance=totals["unreadable"], stale_answers_in_listed_classes=totals["stale_known"],
                   event_histogram=ev_hist, request_histogram=req_hist, known_situations_met=cls_hist,
                   rule="generated sequential histories of 3..25 events (didOpen/didChange/didSave with the file rewritten/didClose and 11 variants of the 7 request "
                        "kinds) over generated workspaces of 2-4 classes in a forest; edits = new version with members renamed, a declaration inserted or deleted, "
                        "the parent class changed (acyclic), the referenced ancestor member changed, syntax broken (stray bracket / unterminated string) and repaired; "
                        "every response compared with the model's predicted provenance and with a freshly started server on the logical workspace; "
                        "non-trivial = at least 2 requests and at least one change/save/close; the refutation witnesses and the regression witnesses run first",
                   samples=[case_of(*allh[0]), case_of(*hists[0]), json.dumps(show_history(*hists[-1]))[:600]],
                   cyclic_stream=dict(histories=len(cyc), provenance_compared_with_model=sum(r[1].get("provenance_compared", 0) for r in cyc_results),
                                      note="header edits that close inheritance cycles; model's predicted provenance only (no fresh-server oracle)"),
                   bb_wall_s=round(time.time() - t0, 1), server_binary=("mutant:" + binary) if os.environ.get(SERVER_ENV) else "lsp.build_server()")

        # the listed / proposed witnesses must reproduce: stale in the way the model says
        for (fid, w), (probs, stats, recs, pred, trig) in zip(wit, results[: len(wit)]):
            letter = CLASSES[fid]
            stale = [k for k, r in enumerate(recs) if r.get("fresh_norm") is not None and r["norm"] != r["fresh_norm"]]
            dis = [p for p in probs if p[1] == "disagreement"]
            if letter in listed:
                if not stale or dis:
                    path = core.write_replay(ctx.pid, ctx.seed, replay_payload(w[0], w[1], recs, pred, trig, (dis or [(len(recs) - 1, "disagreement", "")])[0], {
                        "broken": "known finding %s no longer reproduces as the model predicts (the model must follow the code)" % fid}))
                    v = core.Violation("listed finding does not reproduce", path, False)
                    v.coverage = cov
                    raise v
                ctx.known("%s: %s" % (fid, listed[letter].get("what", listed[letter].get("class", ""))[:200]))

        # repaired defects must stay repaired: every answer of a regression witness is the fresh server's
        for (what, _), w, (probs, stats, recs, pred, trig) in zip(REGRESSIONS, regs, results[len(wit): len(wit) + len(regs)]):
            stale = [k for k, r in enumerate(recs) if r.get("fresh_norm") is not None and r["norm"] != r["fresh_norm"]]
            if stale or probs:
                p0 = probs[0] if probs else (stale[0], "violation", "regression: " + what)
                path = core.write_replay(ctx.pid, ctx.seed, replay_payload(w[0], w[1], recs, pred, trig, p0, {"regression_of": what}))
                v = core.Violation("regression of a repaired defect: " + what, path, True)
                v.coverage = cov
                raise v
        cov["regressions_replayed"] = [what for (what, _) in REGRESSIONS]

        # anything else
        worst = None
        for h, (probs, stats, recs, pred, trig) in list(zip(allh, results)) + list(zip(cyc, cyc_results)):
            for p in probs:
                rank = (0 if p[1] == "violation" else 1, len(h[1]))
                if worst is None or rank < worst[0]:
                    worst = (rank, h, p)
        if worst is not None:
            _, h, p = worst
            evs2, p2 = shrink(binary, h[0], h[1], scratch, listed, p[1])
            if p2 is None:
                evs2, p2 = h[1], p
            probs, stats, recs, pred, trig = check_one(binary, h[0], evs2, scratch, listed)
            pp = [x for x in probs if x[1] == p[1]]
            p2 = pp[0] if pp else p2
            path = core.write_replay(ctx.pid, ctx.seed, replay_payload(h[0], evs2, recs, pred, trig, p2, {
                "minimised_from": case_of(h[0], h[1]),
                "n_failing_histories": sum(1 for r in results if any(x[1] == p[1] for x in r[0]))}))
            v = core.Violation(p2[2], path, p[1] == "violation")
            v.coverage = cov
            raise v
        for letter, f in listed.items():
            if cls_hist.get(letter):
                ctx.known("%s: met %d times in generated histories, every stale answer as the model predicts" % (f["id"], cls_hist[letter]))
        return cov
    finally:
        shutil.rmtree(scratch, ignore_errors=True)


def replay(ctx, rep):
    binary = server_binary()
    diff.Engines.model()
    listed = listed_classes(ctx)
    scratch = tempfile.mkdtemp(prefix="goldverif-c02-")
    try:
        ws = rep["case"]["workspace"]
        evs = [tuple(e) for e in rep["case"]["events"]]
        probs, stats, recs, pred, trig = check_one(binary, ws, evs, scratch, listed)
        print("history:", json.dumps(show_history(ws, evs), indent=1))
        print("model  :", case_of(ws, evs), "->", "|".join(pred), "#", "|".join(trig))
        for k, r in enumerate(recs):
            if r["event"][0] == "R":
                print("step %d %s: %s%s" % (k, r["event"][1], "same as the fresh server" if r["norm"] == r.get("fresh_norm") else
                                            "DIFFERS from the fresh server:\n   server: %s\n   fresh : %s" % (json.dumps(r["norm"])[:700], json.dumps(r.get("fresh_norm"))[:700]),
                                            " [listed class %s]" % "".join(r["known"]) if r.get("known") else ""))
        for p in probs:
            print("%s at step %d: %s" % (p[1], p[0], p[2]))
        if probs:
            print("VIOLATION property=C02 replay=%s" % rep.get("how_to_rerun", "?").split()[-1])
            return 1
        print("oracle: property holds on this history" + (" (stale answers only in listed classes)" if stats.get("stale_known") else ""))
        return 0
    finally:
        shutil.rmtree(scratch, ignore_errors=True)
