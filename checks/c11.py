"""C11  Completion offers exactly the visible names."""
from vlib import core, diff
from checks import sem_common as S

PID = "C11"
KINDS = "C"

MANIFEST = dict(
    engine="E-sem",
    technique="Coq proof: the listings the completion service computes (collect_unique_symbols_w_parents on the class's / the method's table chain, filtered by symbol type) are C18's merged listing and equal the declarative visible-name sets, for all abstract workspaces; tied to the code by a differential run of the extracted model against ProjectManager::generate_completion_proposals on rendered workspaces",
    text=("PARTIAL. Theorems over the Gallina model Model/Scoping.v, for ALL workspaces: after `x.` the labels are exactly the "
          "names whose nearest declaration in the class/module of x and its ancestors is a field, procedure or function, each "
          "name once ignoring case, with the spelling of that declaration (C11_after_dot, from C18's collect = merged, "
          "merged_each_name_once, merged_nearest, merged_complete); from inside any class, the enclosing one included, "
          "the same listing (C11_after_dot_in_context); elsewhere in "
          "a method body exactly the method's parameters and locals plus the names whose nearest declaration in the class "
          "chain is a constant (C11_plain); an operand of unknown or non-indexed type yields no proposals "
          "(C11_unknown_type_empty, C11_unindexed_type_empty); re-casing the references stored in the workspace changes no "
          "proposal (C11_workspace_recase). One *_refuted theorem states where /repo departs from the "
          "wording (forward reference in the operand), one the defect of the step repaired by 945552f. The model is tied to /repo by rendering generated workspaces to Gold files and comparing, at every dot "
          "position (complete name, partial name, dangling `x.` on the line being typed) and every statement start, the sorted "
          "labels of generate_completion_proposals (twice, 10 s watchdog) with the extracted model's; an independent oracle "
          "evaluates the property's wording on the implementation's answers. Metamorphic stage as in C10 (re-cased stored "
          "references, both variants through both engines)."),
    note=("partial: proved for the scoping core on abstract workspaces; the rendering of a workspace to files, the parser (the "
          "AstEmpty operand of a dangling dot), the annotated tree, the position -> node step and the eval-type annotation of "
          "expressions are validated by the differential run only. Filtering by the partial name is left to the client (the "
          "code never filters); labels keep the declared spelling. Trusted: Coq kernel, extraction, harness, renderer in "
          "checks/sem_common.py. Same assumptions as C10."),
    design="6 C11",
    engines=[dict(name="E-sem", path="harness/src/eng_sem.rs + coq/extract/eng_sem.ml",
                  kind_free_text="differential: ProjectManager::generate_goto_definitions / generate_completion_proposals on a rendered temp workspace (positional queries) vs the extracted Coq scoping model (abstract queries); answers = ordered (target stem, selection range) lists / sorted label lists")],
)

from checks.c10 import ASSUMPTIONS  # the same workspaces are used


def nontrivial(line):
    """some completion request is expected to offer an inherited name"""
    case = S.Case.parse(line)
    sem = S.Sem(case.ws)
    for (k, stem, l, c, qu) in case.queries:
        if k != "C" or qu[0] != "X":
            continue
        f = qu.split("~")
        st = sem.static_class(f[1], None if f[2] == "-" else f[2], S.parse_items(f[3]))
        if st and len(sem.ancestors(st[1])) > 1 and sem.complete_member(f[1], f[2], st[1]):
            return True
    return False


def correspondence(ctx, broken_obligations=()):
    S.replay_witnesses(ctx, PID, KINDS)
    S.replay_regressions(ctx, PID, KINDS)
    cases, hist = S.gen_cases(ctx, KINDS)
    meta = coverage_meta(cases, hist)
    try:
        cov = diff.differential(ctx, "sem", cases, oracle=S.oracle, known=S.make_known(ctx), shrinker=S.shrinker,
                                nontrivial=nontrivial, describe=S.describe, canon=S.canon)
    except core.Violation as v:
        v.coverage = dict(getattr(v, "coverage", {}) or {}, **meta)
        raise
    cov.update(meta)
    cov.update(S.recase_stage(ctx, PID, KINDS))
    # the tree-level workspace model's completion half (Model/WsTree.v: wcompletion vs the real completion service at every
    # identifier position of every file), with the text-level clause "in a method body, not after a dot, every proposal
    # is a parameter / local of that method or a constant" as oracle on the implementation's answers
    from checks import c10 as _c10
    ws = _c10.wstree_stage(ctx)
    cov["wstree"] = {k: ws[k] for k in ws if k in ("programs", "disagreements_checked", "oracle_failures", "positions", "files", "requests")} or ws
    return cov


def coverage_meta(cases, hist):
    cov = {}
    nq = sum(hist.values())
    cov["requests"] = nq
    cov["rule"] = ("%d generated workspaces (the generator of C10: inheritance forests up to depth 4, modules, overriding in other "
                   "letter case, members of another kind under the same name, parameters/locals named like members, chains "
                   "through fields / functions / self / class and module qualifiers / aliases, unknown and non-indexed types) "
                   "rendered to one Gold file per entity; one completion request (repeated once) right after EVERY dot (before "
                   "a complete name, at the end of a partial name, after a dangling `x.` at the end of the line being typed) "
                   "and at every statement start, some right-hand-side identifiers and blank body lines; %d requests in all; "
                   "first the %d witness workspaces of the refuted clauses and of the repaired defects (regression cases); non-trivial = some request after a dot whose "
                   "operand's class has ancestors and members" % (len(cases) - len(S.DEVS_OF[PID]) - len(S.REGRESSIONS[PID]), nq, len(S.DEVS_OF[PID]) + len(S.REGRESSIONS[PID])))
    cov["input_histogram"] = {"X after a dot": hist.get("X", 0), "L elsewhere in a method body": hist.get("L", 0)}
    cov["samples"] = [S.describe(cases[0]), S.describe(cases[len(cases) // 2])]
    cov["refuted_or_partial"] = [
        "partial: scoping core proved on abstract workspaces; rendering, parser, annotated tree, position -> node validated by the differential run",
        "class %s reaches completion through declared type names found via `uses` (C10_plain_refuted_uses)" % S.DEV_USES,
        "C11_operand_type_refuted_forward (class %s)" % S.DEV_FWD,
        "C11_old_after_dot_refuted_local (the step before fix 945552f; regression case %s)" % S.FIX_OWN,
    ]
    return cov


def replay(ctx, rep):
    return S.replay(ctx, rep, PID)
