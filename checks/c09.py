"""C09  A syntax error stays inside the method that contains it.

Correspondence part: engine `locality` (harness/src/eng_locality.rs, coq/extract/eng_locality.ml) parses two
texts on both sides and prints, for each, remaining length | tree dump | diagnostics | outline.  A case is a
pair (program, program with ONE method's body replaced) or (program, program truncated just before the last
method's end keyword); the annotation after '@' tells the oracle which lines the edited method occupies:

    <text1 code points>#<text2 code points>@<kind>:<first_line>:<n_lines_old>:<n_lines_new>:<n_decls>

kind  R regression witnesses of the repaired finding eof-diagnostic-at-origin (an error at the very END of the body),
      X exhaustive short token garbage, S random token soup, M token-level mutation of the original body,
      D double edit (text1 already has a garbled method, another one is edited), G edit of a method of a program with stray
      tokens between its declarations, T truncation.
first_line   0-based line of the edited method's header (the same in both texts),
n_lines_*    header line + body lines + end-keyword line of that method in text1 / text2,
n_decls      number of top-level declarations of text1 (only used to count non-trivial cases).
"""
import random, re, itertools, time
from collections import Counter
from vlib import core, diff
from checks import parser_common as pc

MANIFEST = dict(
    engine="E-parse",
    technique=("Coq proofs over the parser model for ALL token lists: (1) structural -- take_until cuts `body ++ end :: rest` at the first "
               "terminator independently of rest and the body is parsed on its own slice, so a method span is a closed unit of the top-level "
               "loop and the loop is compositional at such units; (2) a relation-generic pass over the grammar (GrammarRel.v: ANY predicate "
               "closed under the 22 combinators of parser/utils.rs holds of all ~80 parse_* functions at every fuel level), instantiated three "
               "times: context framing (a parser never reads the diagnostics / cache contents left behind; cache-insensitive for types, "
               "declarations, methods -- a body starts with clear_cache -- and the top-level loop), provenance of diagnostic ranges (a diagnostic "
               "emitted while parsing a slice starts where a token of the slice starts and ends where one ends -- no exception), constancy of the memo switch; (3) symbolic evaluation "
               "of the header parsers on a syntactic class of headers.  Differential run of the extracted lexer/parser/outline models against "
               "lex + parse_gold + DocumentSymbolGeneratorFromAst on PAIRS of programs that differ in one method body, with the property's own "
               "statement evaluated on the implementation's output alone"),
    text=("Theorems (Properties/C09.v, all closed under the global context). C09_method_span_proc/_func: for EVERY grammar record, header hdr "
          "(is_header: the header parsers consume exactly hdr whatever non-extending tokens follow), terminator-free body whose first NON-COMMENT "
          "token is not `(`, `#` or a modifier keyword (extends_header: exp_token skips comments, so `;c / private` after a header is still a "
          "modifier), end token, ANY rest: the method parser returns at rest with the node built from parse_method_body of the slice `body` and "
          "leaves exactly the context that parse leaves.  C09_body_in_isolation: that node and the diagnostics it adds are those of the body "
          "parsed from the empty context.  C09_proc/func_header_class_partial: proc|func Name[#Event] [( [const|var|inout] Name [: TypeName] ,... )] "
          "[return TypeName] {private|protected|final|override} are headers (PARTIAL: other parameter types, comments inside a header are "
          "covered by the check only).  C09_toplevel_concat: for pre a concatenation of closed units (complete methods: C09_span_is_unit) and "
          "ANY post, nodes(pre++post) = nodes(pre alone) ++ nodes(loop on post from pre's context), diagnostics likewise.  C09_local: "
          "pre ++ hdr ++ body ++ [end] ++ post versus the same with body': identical nodes for pre and post, diagnostics = diags(pre) ; header "
          "diags ; diags(body in isolation) ; Dpost with the SAME Dpost -- only the two bodies' own diagnostics differ; "
          "C09_new_diags_at_body_tokens: EVERY one of those starts where a token of the body starts and ends where a token of the body ends, "
          "hence C09_new_diags_in_method_lines / C09_new_diags_end_in_method_lines: it starts and ends on lines of the body -- unconditionally "
          "(the former exception `unless its range is 0:0-0:0` is gone; C09_no_diag_at_origin: the formerly excluded class is empty; nothing "
          "remains excluded: an empty body has no diagnostics, the top-level loop reports at first-token..last-token of the file and its "
          "diagnostics are the shared Dpost).  An error at the very end of the body slice (`foo(y`) is reported at the last token the failing "
          "parser was given (err_range), a list item missing at the very end (`foo(y,`) at the separator in front of it (repair of finding "
          "eof-diagnostic-at-origin, tools/c09_proposed_fix.diff).  C09_eof_diag_regression(_iso,_seplist): the finding's witnesses now "
          "satisfy the clause (diagnostic on `y` 4:5-4:6 resp. on `,` 4:6-4:7); C09_eof_diag_old_refuted(_seplist): the recovery as it WAS "
          "(PComb.repeat_w_ctx_old / until_w_ctx_old / sep_list_old) reports them at Range::default() 0:0-0:0, on a line of another "
          "method.  C09_missing_end: last method without end "
          "token: open node with parse_method_body of ALL remaining tokens, `proc/func end token not found` on the header's first token as the "
          "last diagnostic, pre's nodes and diagnostics as when parsed alone.  Examples: guard satisfiable and necessary, hypotheses "
          "satisfiable, a header with parameters, two methods with a garbage body, a truncated file.  Correspondence: engine `locality` runs "
          "both sides on pairs (program, edited program) and compares the complete observation of both texts: remaining token count, full tree "
          "dump, ordered diagnostics with messages, outline.  Pairs: (R) the witnesses of the repaired finding and their variants (an error at the very end of a body, of a nested "
          "block, of an argument / array list) as REGRESSION cases that must satisfy the property; every method with a body of hand-written and generated programs with its body replaced "
          "by (X) every token sequence of length <= 2 (quick) / <= 3 (thorough) over a 16-kind body alphabet, (S) random soups of 1..40 tokens "
          "over all keywords except endproc/endfunc/end, operators, identifiers, literals and end-of-line comments, on one or several lines, "
          "(M) the original body after 1..3 token-level mutations, (D) the same edits applied to a program in which ANOTHER method is already "
          "garbled (so the unchanged declarations carry diagnostics of their own), (G) the same edits applied to a program with stray tokens between its declarations (top-level re-synchronisation), and (T) every program truncated just before the last "
          "method's end keyword.  The oracle states the property on the implementation's output: same number of top-level declarations; every "
          "declaration before the edited method byte-identical, every one after it identical after shifting character offsets and line numbers "
          "by the size of the edit; outline entries likewise; the diagnostics outside the method's old lines all survive (shifted); every new "
          "diagnostic starts and ends inside the method's new lines (a 0:0-0:0 diagnostic outside the method is a plain violation: the known "
          "class eof-diagnostic-at-origin no longer exists); (T) `proc/func end token not found` is reported on the header line, the "
          "method is the last declaration, its AstMethodBody is byte-identical to the untruncated one, its end token is absent, earlier "
          "declarations and outline entries are untouched."),
    note=("Partial: is_header is proved for a syntactic class of headers only (simple parameters typed by a plain type name); pre must be a "
          "concatenation of closed units (complete methods) -- declarations that look ahead (class header, constant, field) before the edited "
          "method are covered by the check, not by the theorem; theorems are stated for parse_gold_with memo fuel with one fuel above both file "
          "lengths (the entry point's own default fuel is length+2).  No refuted clause is left: the finding eof-diagnostic-at-origin (0:0 "
          "diagnostics for an error at the end of a body slice) is repaired by tools/c09_proposed_fix.diff and the model follows the repaired "
          "code; against a tree WITHOUT that repair the check reports a VIOLATION on the regression pairs (kind R).  Trusted: Coq kernel, translators, extraction, harness; the hand-written model Model/PComb.v + "
          "Model/Grammar.v + Model/Outline.v (validated by this differential run and by C04/C12).  The garbage never contains a method "
          "terminator, an unterminated literal or a header-extending first token ( '(' '#' private protected final override external forward ): "
          "the property is about tokens inside the body."),
    design="6 C09",
    engines=[dict(name="E-parse", path="harness/src/eng_locality.rs + coq/extract/eng_locality.ml",
                  kind_free_text=("differential on pairs of texts: lex+parse_gold+outline vs extracted Coq lexer+parser+outline models; per text "
                                  "remaining length, complete tree dump, ordered diagnostics with messages, outline; relational oracle "
                                  "(locality of an edit / of a missing end keyword) on the implementation's output alone"))],
)
MANIFEST["text"] += " Fourth session: C09_response_local and C09_outline_local compose C09_local with the assembled diagnostics response (Model/Report.v) and with the outline characterisation: replacing the body of one method changes the response only by `contrib` of that method node and the outline only in that method's own entry; the analysers' items and the outline entries of every other declaration are the same before and after."

ASSUMPTIONS = [
    "the replaced body is a sequence of well-formed tokens none of which is endproc/endfunc/end; its first non-comment token does not extend the method header",
    "base programs are produced by vlib/goldgen.py (they parse without diagnostics; programs that do not are dropped and counted) plus hand-written ones",
    "token type, keyword and node-kind tables are regenerated from /repo/src on every run (translators T1, T2, T5)",
]

ENGINE = "locality"
TERMINATORS = ("endproc", "endfunc", "end")
HEADER_EXT = ("(", "#", "private", "protected", "final", "override", "external", "forward")
# stray top-level tokens: none of them starts a declaration, none is an identifier (each costs one error + one skipped token)
JUNK = [")", "] )", "endif", ", ,", "=", "+ )", "endwhile", "else", ".", ") ] endfor", "* /", "until"]
HEADER_SHAPED = ["( a : record", "( a : record\nb : int4", "( a : record ( tP )", "( a : refto", "( a : listof", "( a : sequence [ 1 .. 3 ] of",
                 "( a : sequence [", "( a : proc (", "( a : func ( b : int4 ) return", "( a : ( cA , cB", "( a : [ 1 ..", "( a : int4 , b :",
                 "( var a : int4 ; x", "( a : int4 ) return", "( a : int4 ) return record", "( a : int4 ) private x = 1", "( ) external 'a.dll' x",
                 "# Evt ( a : record", "# Evt x = 1", "private final x = 1", "override ( a", "external", "external 'x.dll' forward y = 2",
                 "forward [", "forward [ Transient", "forward type t : record", "forward const c =", "( a : record endrecord ) x = ["]
# finding eof-diagnostic-at-origin (a statement/list error at the very end of a method body was reported with Range::default(),
# 0:0-0:0, i.e. on line 0 and not inside the method) is REPAIRED (tools/c09_proposed_fix.diff): it is no longer a known class --
# a 0:0 diagnostic outside the method is a plain violation -- and its witnesses are regression cases (kind R).
RETIRED_FINDINGS = ("eof-diagnostic-at-origin",)
# (intact body, body whose LAST statement / list item fails at the very end of the body slice)
REGRESSION_BODIES = [
    (" foo(y)", " foo(y"),                         # the finding's witness: parse_repeat_w_context at the end of the body
    (" foo(y)", " foo(y,"),                        # _parse_seperated_list_recursive_w_context on an empty rest
    (" x = (1)", " x = ("),
    (" x = 1", " x ="),
    (" x = [1]", " x = [1,"),
    (" foo(y, z)", " foo(y, z,"),
    (" foo(bar(y))", " foo(bar(y,"),
    (" while a\n  x = (1)\n endwhile", " while a\n  x = ("),          # parse_until_w_context inside a block that runs to the end
    (" if a\n  foo(y)\n endif", " if a\n  foo(y,"),
    (" if a\n  foo(y)\n else\n  x = 1\n endif", " if a\n  foo(y)\n else\n  x = ("),
    (" loop\n  x = 1\n endloop", " loop\n  x = 1 +"),
    (" a.b(1)", " a.b(1,"),
    (" x = y", " x = y."),
]

# ---------------------------------------------------------------------------------------------
# small helpers on texts
# ---------------------------------------------------------------------------------------------
enc, dec = pc.enc, pc.dec


def nl_of(text):
    return "\r\n" if "\r\n" in text else "\n"


def split_lines(text):
    """lines as the lexer counts them (split at '\n'; in a CRLF program every line keeps its trailing '\r', and a generated
    multi-line record declaration may contain bare '\n's); a text always ends with a newline.  Also returns the program's
    newline style."""
    ls = text.split("\n")
    if ls and ls[-1] == "":
        ls.pop()
    return ls, nl_of(text)


def join_lines(ls, nl=None):
    return "\n".join(ls) + "\n" if ls else ""


def first_word(line):
    m = re.match(r"\s*([A-Za-z_][A-Za-z0-9_]*)", line)
    return m.group(1).lower() if m else ""


def code_words(line):
    """lower-cased word tokens of a line outside literals and comments"""
    return [t.lower() for t in pc.TOKEN_RE.findall(line) if t[0].isalpha() or t[0] == "_"]


def garbage_ok(text, extending=False):
    """the replaced body is made of well-formed tokens, none a method terminator, and its first non-comment token does not
    extend the header"""
    first = None
    for t in pc.TOKEN_RE.findall(text):
        c = t[0]
        if c in " \t\r\n":
            continue
        if c == ";":
            continue
        if c.isalpha() or c == "_":
            if t.lower() in TERMINATORS:
                return False
        elif c in "'\"":
            if len(t) < 2 or t[-1] != c or "\n" in t or "\r" in t:
                return False
        elif c == "$" or ord(c) > 126 or ord(c) < 32:
            return False
        if first is None:
            first = t.lower()
    if any(ord(ch) > 126 for ch in text):
        return False
    if extending:
        # a header-continuing body is parsed at declaration level: a `proc` / `func` keyword in it STARTS a method there, and a
        # method without end keyword runs to the end of the file (the property's second sentence, checked by kind T)
        if any(t.lower() in ("proc", "procedure", "func", "function") for t in pc.TOKEN_RE.findall(text)):
            return False
        return first in HEADER_EXT
    return first not in HEADER_EXT


def spans_of(lines):
    """top-level declarations of a generated (possibly garbled) program as (first, last) line spans; blank lines are spans of
    their own (kind 'blank')"""
    out = []
    i, n = 0, len(lines)
    while i < n:
        l = lines[i]
        w = first_word(l)
        if l.strip() == "":
            out.append((i, i, "blank")); i += 1
        elif w in ("proc", "procedure", "func", "function"):
            ws = code_words(l)
            if "forward" in ws or "external" in ws:
                out.append((i, i, "decl")); i += 1
                continue
            j = i + 1
            while j < n and first_word(lines[j]) not in TERMINATORS:
                j += 1
            j = min(j, n - 1)
            out.append((i, j, "method")); i = j + 1
        else:
            bal = 0
            j = i
            while j < n:
                ws = code_words(lines[j])
                bal += ws.count("record") - ws.count("endrecord")
                if bal <= 0:
                    break
                j += 1
            j = min(j, n - 1)
            out.append((i, j, "decl")); i = j + 1
    return out


def n_decls(lines):
    return sum(1 for s in spans_of(lines) if s[2] != "blank")


# ---------------------------------------------------------------------------------------------
# cases
# ---------------------------------------------------------------------------------------------

def mk_case(t1, t2, kind, fl, n_old, n_new, nd):
    return "%s#%s@%s:%d:%d:%d:%d" % (enc(t1), enc(t2), kind, fl, n_old, n_new, nd)


def parse_case(case):
    body, _, ann = case.partition("@")
    a, _, b = body.partition("#")
    f = ann.split(":")
    return a, b, f[0], int(f[1]), int(f[2]), int(f[3]), (int(f[4]) if len(f) > 4 else 0)


def ncp(cps):
    return cps.count(".") + 1 if cps else 0


def describe(case):
    a, b, kind, fl, n_old, n_new, nd = parse_case(case)
    return ("kind=%s edited method: header on line %d, %d lines before / %d lines after the edit\n--- text 1 ---\n%s--- text 2 ---\n%s"
            % (kind, fl, n_old, n_new, dec(a), dec(b)))


def hand_bases():
    """small hand-written programs: class header + const + 3 methods (func with parameters, Name#Event proc)"""
    progs = []
    progs.append([
        ["class aHand (aBase)"], ["const cMax = 10"],
        ("proc Init", ["  x = 1", "  if x > 0", "    Foo(x, 2)", "  endif"], "endproc"),
        [""],
        ("func Compute(A : int4, var B : cstring) return int4", ["  var i : int4", "  for i = 1 to A", "    B = B & 'x'", "  endfor", "  return A + 1"], "endfunc"),
        ("proc Button#Clicked private", ["  self.Purge(1)", "  Foo()"], "endproc"),
        ["Field1 : int4"],
    ])
    progs.append([
        ["class aSmall"], ["const cName = 'txt'"],
        ("proc A", [], "endproc"),
        ("func F(pX : int4) return Boolean", ["  return pX > 0"], "end"),
        ["type tKind : (cA, cB)"],
        ("proc List#Selected(Row : int4)", ["  cnt = cnt + Row"], "endproc"),
    ])
    progs.append([
        ["module aMod"], ["uses aBase, aUtil"], ["const cK = 3"],
        ("PROC Run(Count : int4) override", ["  while Count > 0", "    Count--", "    DoIt(Count, 'a')", "  endwhile"], "ENDPROC"),
        ("Func GetX return int4", ["  ;note", "  return self.x"], "EndFunc"),
        ["Owner : refto aBar"],
        ("proc Grid#Changed", ["  foreach cur in aList", "    cur.Foo(1)", "  endfor", "  x = [1, 2]"], "endproc"),
    ])
    progs.append([
        ("proc First", ["  a = b"], "endproc"),
        ["const cLimit = 42"],
        ("func Second(A : int4, B : int4) return int4", ["  if A > B", "    return A", "  else", "    return B", "  endif"], "endfunc"),
        ["type tRec : record", "    f0 : int4", "  endrecord"],
        ("proc Third#Clicked", ["  switch a", "   when 1, 2", "    Foo()", "   endwhen", "  endswitch"], "endproc"),
    ])
    out = []
    for k, items in enumerate(progs):
        lines, methods = [], []
        for it in items:
            if isinstance(it, tuple):
                head, body, endkw = it
                methods.append(dict(first_line=len(lines), n_lines=len(body) + 2, nobody=False,
                                    is_func=first_word(head) == "func", header=head, name=head.split()[1].split("(")[0]))
                lines += [head] + body + [endkw]
            else:
                lines += it
        if k == 2:
            lines = [l + "\r" for l in lines]
        out.append((join_lines(lines), methods))
    return out


class CaseGen:
    def __init__(self, rng):
        self.rng = rng
        kws = [k for k in pc.keywords() if k not in TERMINATORS]
        self.kws = kws
        self.ops = list("()[]{}*/%@.=,<>+-:&#") + ["<<", "<=", "<>", ">>", ">=", "&&", "++", "+=", "--", "-=", ":="]
        self.ids = ["a", "Foo", "x1", "self", "tT", "cC", "cur", "Init"]
        self.lits = ["1", "2.5", "0", "42", "'s'", "\"d\"", "'it''s'", "''", "#13", "true", "nil"]
        self.pool = kws + self.ops + self.ids + self.lits

    def kwcase(self, w):
        k = self.rng.random()
        if k < 0.5:
            return w
        if k < 0.7:
            return w.upper()
        if k < 0.85:
            return w.capitalize()
        return "".join(c.upper() if self.rng.random() < 0.5 else c for c in w)

    def piece(self):
        r = self.rng
        k = r.random()
        if k < 0.45:
            return self.kwcase(r.choice(self.kws))
        if k < 0.70:
            return r.choice(self.ops)
        if k < 0.84:
            return r.choice(self.ids)
        if k < 0.95:
            return r.choice(self.lits)
        return r.choice([";c", ";", ";endproc x", ";note 'q"])

    def soup_lines(self, n_body_old, extending=False):
        """garbage body: 1..40 tokens on one or several lines (comments only at the end of a line); extending: the first
        token is one that continues a method header"""
        r = self.rng
        while True:
            n = r.choice([1, 2, 3, 4, 5, 6, 8, 10, 15, 25, 40]) if r.random() < 0.6 else r.randint(1, 40)
            multi = r.random() < 0.5
            lines, cur = [], ""
            for _ in range(n):
                t = self.piece()
                cur += ("" if (cur == "" or r.random() < 0.12) else " ") + t
                if t.startswith(";") or (multi and r.random() < 0.2):
                    lines.append(" " + cur); cur = ""
            if cur:
                lines.append(" " + cur)
            if len(lines) < n_body_old and r.random() < 0.5:
                # same number of lines as before: pad with empty lines (before or after)
                pad = [""] * (n_body_old - len(lines))
                lines = lines + pad if r.random() < 0.7 else pad + lines
            if extending:
                first = r.choice(["(", "(", "(", "#", "private", "override", "final", "forward", "external", "protected"])
                k0 = next((i for i, l in enumerate(lines) if l.strip()), 0)
                lines[k0] = " " + self.kwcase(first) + " " + lines[k0].strip()
                if garbage_ok("\n".join(lines), extending=True):
                    return lines
                continue
            if garbage_ok("\n".join(lines)):
                return lines

    def mutate_body(self, body_lines, nl):
        """1..3 token-level mutations of the original body; None when no acceptable mutant was found"""
        r = self.rng
        text = "\n".join(l.rstrip("\r") for l in body_lines)       # line ends normalised: a comment token must not carry a '\r' around
        for _ in range(12):
            toks = pc.TOKEN_RE.findall(text)
            solid = [i for i, t in enumerate(toks) if not t.isspace()]
            if not solid:
                return None
            for _ in range(r.randint(1, 3)):
                if not toks:
                    break
                solid = [i for i, t in enumerate(toks) if not t.isspace()]
                i = r.choice(solid) if solid and r.random() < 0.85 else r.randrange(len(toks))
                op = r.randrange(5)
                if op == 0:
                    del toks[i]
                elif op == 1:
                    toks.insert(i, self.kwcase(r.choice(self.pool)) + " ")
                elif op == 2:
                    toks[i] = self.kwcase(r.choice(self.pool))
                elif op == 3:
                    j = r.choice(solid) if solid else r.randrange(len(toks))
                    toks[i], toks[j] = toks[j], toks[i]
                else:
                    j = min(len(toks), i + r.randint(1, 6))
                    toks[i:j] = toks[i:j] * 2
            m = "".join(toks)
            if m != text and garbage_ok(m) and "\r" not in m:
                return m.split("\n")
        return None


def apply_edit(lines, m, new_body, nl="\n"):
    fl, n = m["first_line"], m["n_lines"]
    cr = "\r" if nl == "\r\n" else ""
    return lines[:fl + 1] + [l + cr for l in new_body] + lines[fl + n - 1:]


def regression_cases():
    """cases `proc A / x = 1 / endproc / proc P / <body> / endproc [/ proc Z / y = 2 / endproc]` with the body of P replaced
    by one whose last statement fails at the very end of the body slice; the first one is the listed witness of the finding"""
    out = []
    for tail in ([], ["proc Z", " y = 2", "endproc"]):
        for (good, bad) in REGRESSION_BODIES:
            pre = ["proc A", " x = 1", "endproc"]
            g, b = good.split("\n"), bad.split("\n")
            l1 = pre + ["proc P"] + g + ["endproc"] + tail
            l2 = pre + ["proc P"] + b + ["endproc"] + tail
            out.append(mk_case(join_lines(l1), join_lines(l2), "R", len(pre), len(g) + 2, len(b) + 2, n_decls(l1)))
    return out


def exhaustive_bodies(maxlen):
    for l in range(maxlen + 1):
        for t in itertools.product(pc.TOK_BODY, repeat=l):
            if t and t[0] == "(":
                continue
            yield " ".join(t)


def gen_cases(ctx, hb=None):
    """returns (cases, histogram, info)"""
    rng = random.Random(ctx.seed)
    q = ctx.quick
    hb = hb or diff.Engines.harness()
    g = CaseGen(rng)
    hand = hand_bases()
    gen = [(t, ms) for (t, _k, ms) in pc.generated_programs(rng, 150 if q else 1500)]
    # base programs must parse without diagnostics on the implementation
    outs = core.run_lines(hb, "parse", [enc(t) for (t, _m) in hand + gen])
    bases, dropped = [], 0
    for (t, ms), o in zip(hand + gen, outs):
        p = o.split("|")
        lines, nl = split_lines(t)
        ok = len(p) == 3 and p[0] == "0" and p[2] == ""
        # goldgen's first_line counts a multi-line record declaration as one line: locate every header in the text instead
        located, at = [], 0
        for m in ms:
            if m.get("nobody"):
                continue
            while at < len(lines) and lines[at].rstrip("\r") != m["header"]:
                at += 1
            last = at + m["n_lines"] - 1
            if last >= len(lines) or first_word(lines[last]) not in TERMINATORS or \
                    any(first_word(l) in TERMINATORS for l in lines[at + 1:last]):
                ok = False
                break
            located.append(dict(m, first_line=at))
            at = last + 1
        if ok:
            bases.append((t, lines, nl, located))
        else:
            dropped += 1
    cases, hist = [], Counter()

    def add(kind, lines1, lines2, nl, fl, n_old, n_new):
        cases.append(mk_case(join_lines(lines1, nl), join_lines(lines2, nl), kind, fl, n_old, n_new, n_decls(lines1)))
        hist[kind] += 1

    # (R) regression: the witnesses of the repaired finding eof-diagnostic-at-origin must satisfy the property
    for c in regression_cases():
        cases.append(c)
        hist["R"] += 1

    def body_of(lines, m):
        return lines[m["first_line"] + 1: m["first_line"] + m["n_lines"] - 1]

    def random_edit(lines, nl, m, allow_mut=True):
        """(ii) or (iii): new body lines"""
        old = body_of(lines, m)
        if allow_mut and old and rng.random() < 0.5:
            nb = g.mutate_body(old, nl)
            if nb is not None:
                return "M", nb
        return "S", g.soup_lines(len(old))

    # (i) exhaustive short garbage on the hand-written bases and the first generated programs
    maxlen = 2 if q else 3
    per_method = sum(1 for _ in exhaustive_bodies(maxlen))
    budget = 4000 if q else 60000
    xmethods = 0
    for (t, lines, nl, ms) in bases:
        for m in ms:
            if (xmethods + 1) * per_method > budget or len(lines) > 40:
                continue
            xmethods += 1
            old = body_of(lines, m)
            for gb in exhaustive_bodies(maxlen):
                nb = [" " + gb] + [""] * (len(old) - 1)
                add("X", lines, apply_edit(lines, m, nb, nl), nl, m["first_line"], m["n_lines"], len(nb) + 2)
    # (ii) (iii) (iv) (T) on every base
    n_s, n_m, n_d, n_g = (8, 8, 4, 3) if q else (20, 20, 8, 6)
    for bi, (t, lines, nl, ms) in enumerate(bases):
        reps = 4 if bi < len(hand) else 1
        for m in ms:
            old = body_of(lines, m)
            for _ in range(n_s * reps):
                nb = g.soup_lines(len(old))
                add("S", lines, apply_edit(lines, m, nb, nl), nl, m["first_line"], m["n_lines"], len(nb) + 2)
            if old:
                for _ in range(n_m * reps):
                    nb = g.mutate_body(old, nl)
                    if nb is not None:
                        add("M", lines, apply_edit(lines, m, nb, nl), nl, m["first_line"], m["n_lines"], len(nb) + 2)
        if len(ms) >= 2:
            for _ in range(n_d * reps * len(ms)):
                m1, m2 = rng.sample(ms, 2)
                _k, nb1 = random_edit(lines, nl, m1)
                l1 = apply_edit(lines, m1, nb1, nl)
                d1 = len(nb1) + 2 - m1["n_lines"]
                m2b = dict(m2, first_line=m2["first_line"] + (d1 if m2["first_line"] > m1["first_line"] else 0))
                assert l1[m2b["first_line"]].rstrip("\r") == m2["header"]
                if rng.random() < 0.2:
                    nb2 = [" " + rng.choice(["a (", "foo ( 1 ,", "if a", "x = ", "a . ", "[ 1", "else", ")"])]
                else:
                    _k, nb2 = random_edit(l1, nl, m2b)
                add("D", l1, apply_edit(l1, m2b, nb2, nl), nl, m2b["first_line"], m2b["n_lines"], len(nb2) + 2)
        # (G) the same edits on a program with stray tokens BETWEEN its declarations (top-level re-synchronisation at work)
        if ms:
            starts = [x for (x, _y, _k) in spans_of(lines)] + [len(lines)]
            for _ in range(n_g * reps):
                at = sorted(rng.sample(starts, min(len(starts), rng.randint(1, 2))))
                lj, shift_at = [], []
                for i, l in enumerate(lines + [None]):
                    if i in at:
                        lj.append(rng.choice(JUNK) + ("\r" if nl == "\r\n" else "")); shift_at.append(i)
                    if l is not None:
                        lj.append(l)
                m = rng.choice(ms)
                mj = dict(m, first_line=m["first_line"] + sum(1 for x in shift_at if x <= m["first_line"]))
                assert lj[mj["first_line"]].rstrip("\r") == m["header"]
                _k, nb = random_edit(lj, nl, mj)
                add("G", lj, apply_edit(lj, mj, nb, nl), nl, mj["first_line"], mj["n_lines"], len(nb) + 2)
        # (H) garbage whose first token continues the HEADER (`(` after a header without parameter list, `#`, a modifier):
        #     the method itself may then come out differently or not at all, but everything else must stay as it was
        for m in ms:
            old = body_of(lines, m)
            for _ in range((3 if q else 8) * reps):
                nb = g.soup_lines(len(old), extending=True)
                add("H", lines, apply_edit(lines, m, nb, nl), nl, m["first_line"], m["n_lines"], len(nb) + 2)
            if bi < len(hand) + (5 if q else 60):
                # parameter lists left open inside each type form (the type parsers run on the UNSLICED token stream there)
                for gb in HEADER_SHAPED:
                    if garbage_ok(gb, extending=True):
                        nb = [" " + l for l in gb.split("\n")]
                        add("H", lines, apply_edit(lines, m, nb, nl), nl, m["first_line"], m["n_lines"], len(nb) + 2)
        if ms:
            m = max(ms, key=lambda x: x["first_line"])
            cut = m["first_line"] + m["n_lines"] - 1
            add("T", lines, lines[:cut], nl, m["first_line"], m["n_lines"], m["n_lines"] - 1)
    info = dict(base_programs=len(bases), base_programs_hand_written=len(hand), base_programs_dropped=dropped,
                methods_swept_exhaustively=xmethods, exhaustive_bodies_per_method=per_method,
                crlf_bases=sum(1 for b in bases if b[2] == "\r\n"))
    return cases, dict(hist), info


# ---------------------------------------------------------------------------------------------
# observations
# ---------------------------------------------------------------------------------------------
PAREN = re.compile(r"[()]")
NODE_RE = re.compile(r"\((-?\d+) (\S+) (\d+) (\d+) (\d+) (\d+) (\d+) \{")
TOK_RE = re.compile(r"(?<=[tl,])(\d+):(\d+):(\d+):(\d+):(\d+):(\d+):")
_KINDS = {}


def kinds():
    if not _KINDS:
        names = pc.kind_names()
        _KINDS.update({n: i for i, n in enumerate(names)})
    return _KINDS


def parse_obs(obs):
    p = obs.split("|", 3)
    if len(p) != 4 or not p[1].startswith("("):
        return None
    return dict(rest=p[0], dump=p[1], diags=[d for d in p[2].split(";") if d], outline=p[3])


def split_children(dump):
    """raw substrings of the children of the node whose dump this is"""
    j = dump.index("}")
    kids, depth, start = [], 0, None
    for m in PAREN.finditer(dump, j + 1):
        if m.group(0) == "(":
            if depth == 0:
                start = m.start()
            depth += 1
        else:
            depth -= 1
            if depth == 0:
                kids.append(dump[start:m.end()])
            elif depth < 0:
                break
    return kids


def head_of(child):
    m = NODE_RE.match(child)
    k, idn, raw, sl, sc, el, ec = m.groups()
    attrs = child[m.end(): child.index("}", m.end())]
    return dict(kind=int(k), ident=idn, raw=int(raw), sl=int(sl), sc=int(sc), el=int(el), ec=int(ec), attrs=attrs)


def shift_dump(s, dc, dl):
    if dc == 0 and dl == 0:
        return s

    def node(m):
        k, idn, raw, sl, sc, el, ec = m.groups()
        if raw == "0" and sl == "0" and sc == "0" and el == "0" and ec == "0":
            return m.group(0)
        return "(%s %s %d %d %s %d %s {" % (k, idn, int(raw) + dc, int(sl) + dl, sc, int(el) + dl, ec)

    def tok(m):
        tt, raw, sl, sc, el, ec = m.groups()
        if raw == "0" and sl == "0" and sc == "0" and el == "0" and ec == "0":
            return m.group(0)
        return "%s:%d:%d:%s:%d:%s:" % (tt, int(raw) + dc, int(sl) + dl, sc, int(el) + dl, ec)

    return TOK_RE.sub(tok, NODE_RE.sub(node, s))


def parse_outline(s):
    """[sym,...] -> list of (fields[5], children or None)"""
    pos = 0

    def plist():
        nonlocal pos
        if s[pos] != "[":
            raise ValueError("outline")
        pos += 1
        out = []
        if s[pos] == "]":
            pos += 1
            return out
        while True:
            out.append(psym())
            if s[pos] == ",":
                pos += 1
                continue
            if s[pos] != "]":
                raise ValueError("outline")
            pos += 1
            return out

    def psym():
        nonlocal pos
        fields = []
        for _ in range(5):
            j = s.index("|", pos)
            fields.append(s[pos:j])
            pos = j + 1
        if s[pos] == "~":
            pos += 1
            return (fields, None)
        return (fields, plist())

    r = plist()
    if pos != len(s):
        raise ValueError("outline")
    return r


def flat_outline(s):
    """(container fields or None, [entry fields])"""
    syms = parse_outline(s)
    if len(syms) == 1 and syms[0][1] is not None:
        return syms[0][0], [f for (f, _k) in syms[0][1]]
    return None, [f for (f, _k) in syms]


def shift_rng(r, dl):
    a = r.split(":")
    return "%d:%s:%d:%s" % (int(a[0]) + dl, a[1], int(a[2]) + dl, a[3])


def shift_entry(f, dl):
    return f[:3] + [shift_rng(f[3], dl), shift_rng(f[4], dl)]


def diag_fields(d):
    a = d.split(":", 4)
    return int(a[0]), int(a[1]), int(a[2]), int(a[3]), a[4]


def show_diag(d):
    sl, sc, el, ec, msg = diag_fields(d)
    return "%d:%d-%d:%d `%s`" % (sl, sc, el, ec, dec(msg) if msg != "-" else "")


# ---------------------------------------------------------------------------------------------
# the property, on the implementation's output alone
# ---------------------------------------------------------------------------------------------

def oracle(case, impl_out, stats=None):
    try:
        return _oracle(case, impl_out, stats)
    except (ValueError, IndexError, AttributeError) as e:
        return "[unparsable] the observation cannot be read: %r" % (e,)


def _oracle(case, out, stats=None):
    if out.startswith("PANIC") or out in ("CRASH", "HANG") or out.startswith("MODEL-"):
        return "[abnormal] the implementation did not return normally: " + out[:200]
    a, b, kind, fl, n_old, n_new, _nd = parse_case(case)
    two = out.split("#")
    if len(two) != 2:
        return "[unparsable] expected two observations"
    o1, o2 = parse_obs(two[0]), parse_obs(two[1])
    if o1 is None or o2 is None:
        return "[unparsable] observation"
    if o1["rest"] != "0" or o2["rest"] != "0":
        return "[rest] the parser left tokens unconsumed (%s / %s)" % (o1["rest"], o2["rest"])
    K = kinds()
    mkinds = (K["AstProcedure"], K["AstFunction"])
    kids1, kids2 = split_children(o1["dump"]), split_children(o2["dump"])
    h1 = [head_of(c) for c in kids1]
    k = next((i for i, h in enumerate(h1) if h["kind"] in mkinds and h["sl"] == fl), None)
    if k is None:
        return "[method-not-found] no top-level method starts on line %d of the first text" % fl
    entry_kinds = (K["AstConstantDeclaration"], K["AstTypeDeclaration"], K["AstGlobalVariableDeclaration"]) + mkinds
    cont_kinds = (K["AstClass"], K["AstModule"])
    c1, e1 = flat_outline(o1["outline"])
    c2, e2 = flat_outline(o2["outline"])
    idx1 = [i for i, h in enumerate(h1) if h["kind"] in entry_kinds]
    if len(idx1) != len(e1):
        return "[outline-entry-count] %d outline entries for %d declarations in the first text" % (len(e1), len(idx1))
    last_old = fl + n_old - 1
    if h1[k]["el"] != last_old or not re.search(r"(^|;)5=l\d+:\d+:%d:" % last_old, h1[k]["attrs"]):
        return ("[method-extent] before the edit the method does not extend to its end keyword on line %d: range %d:%d-%d:%d, attributes {%s}"
                % (last_old, h1[k]["sl"], h1[k]["sc"], h1[k]["el"], h1[k]["ec"], h1[k]["attrs"][:120]))
    if kind == "T":
        return _oracle_trunc(fl, n_old, o1, o2, kids1, kids2, h1, k, e1, e2, c1, c2, idx1)
    dl = n_new - n_old
    dc = ncp(b) - ncp(a)
    if kind == "H":
        return _oracle_ext(fl, n_old, n_new, dl, dc, o1, o2, kids1, kids2, h1, k, e1, e2, c1, c2, idx1, cont_kinds)
    # 1. same number of declarations
    if len(kids1) != len(kids2):
        return "[child-count] %d top-level declarations before the edit, %d after" % (len(kids1), len(kids2))
    # 2. every other declaration's subtree
    for j in range(len(kids1)):
        if j == k:
            continue
        exp = kids1[j] if j < k else shift_dump(kids1[j], dc, dl)
        if exp != kids2[j]:
            return ("[other-declaration-changed] the subtree of top-level declaration %d (%s the edited method, which is declaration %d) differs: "
                    "expected %s got %s" % (j, "before" if j < k else "after", k, exp[:300], kids2[j][:300]))
    h2k = head_of(kids2[k])
    if h2k["kind"] != h1[k]["kind"] or h2k["sl"] != fl or h2k["ident"] != h1[k]["ident"]:
        return "[other-declaration-changed] the edited method's own node changed kind, name or start line: %s" % kids2[k][:200]
    last_new = fl + n_new - 1
    if h2k["el"] != last_new or not re.search(r"(^|;)5=l\d+:\d+:%d:" % last_new, h2k["attrs"]):
        return ("[method-extent] the edited method no longer extends to its end keyword on line %d: range %d:%d-%d:%d, attributes {%s}"
                % (last_new, h2k["sl"], h2k["sc"], h2k["el"], h2k["ec"], h2k["attrs"][:120]))
    # 3. outline
    if len(e1) != len(e2):
        return "[outline-entry-changed] %d outline entries before the edit, %d after" % (len(e1), len(e2))
    if (c1 is None) != (c2 is None):
        return "[outline-entry-changed] the container symbol appears/disappears"
    if c1 is not None:
        ci = next((i for i, h in enumerate(h1) if h["kind"] in cont_kinds), None)
        expc = c1 if (ci is None or ci < k) else shift_entry(c1, dl)
        if expc != c2:
            return "[outline-entry-changed] the class/module symbol changed: %s -> %s" % ("|".join(c1), "|".join(c2))
    for pos, j in enumerate(idx1):
        if j == k:
            if e1[pos][0] != e2[pos][0] or e1[pos][2] != e2[pos][2]:
                return "[outline-entry-changed] the edited method's own entry changed name or kind"
            r = e2[pos][3].split(":")
            if int(r[0]) != fl or int(r[2]) != last_new:
                return "[method-extent] the edited method's outline entry does not span lines %d..%d: %s" % (fl, last_new, e2[pos][3])
            continue
        exp = e1[pos] if j < k else shift_entry(e1[pos], dl)
        if exp != e2[pos]:
            return "[outline-entry-changed] outline entry %d (declaration %d): expected %s got %s" % (pos, j, "|".join(exp), "|".join(e2[pos]))
    # 4. diagnostics
    lo, hi_old, hi_new = fl, fl + n_old - 1, fl + n_new - 1
    if stats is not None:
        foreign = [diag_fields(d)[0] for d in o1["diags"] if not lo <= diag_fields(d)[0] <= hi_old]
        stats["pairs_whose_other_declarations_carry_diagnostics"] += bool(foreign)
        stats["pairs_with_such_diagnostics_after_the_method_and_a_line_shift"] += bool(dl and any(x > hi_old for x in foreign))
        stats["pairs_with_line_shift"] += bool(dl)
        stats["pairs_with_declarations_after_the_method"] += k < len(kids1) - 1
        stats["pairs_with_new_diagnostics"] += len(o2["diags"]) > len(o1["diags"])
    need = Counter()
    for d in o1["diags"]:
        sl, sc, el, ec, msg = diag_fields(d)
        if lo <= sl <= hi_old:
            continue
        if sl > hi_old:
            need["%d:%d:%d:%d:%s" % (sl + dl, sc, el + dl, ec, msg)] += 1
        else:
            need[d] += 1
    have = Counter(o2["diags"])
    lost = need - have
    if lost:
        d = sorted(lost)[0]
        return "[diagnostic-lost] a diagnostic of another declaration disappears or moves: %s (expected after the edit: %s)" % (show_diag(d), d)
    new = have - need
    bad = []
    for d in new.elements():
        sl, sc, el, ec, msg = diag_fields(d)
        if not (lo <= sl <= hi_new and lo <= el <= hi_new):
            bad.append(d)
    if bad:
        d = bad[0]
        return "[diagnostic-outside-method] a new diagnostic lies outside the edited method (lines %d..%d): %s" % (lo, hi_new, show_diag(d))
    return None


def _oracle_ext(fl, n_old, n_new, dl, dc, o1, o2, kids1, kids2, h1, k, e1, e2, c1, c2, idx1, cont_kinds):
    """the garbage continues the header: nothing is required of the edited method itself (it may parse differently, or
    not at all and leave pieces behind), but every OTHER declaration keeps its subtree and outline entry, in order, whatever
    else appears must lie on the method's lines, and so must every new diagnostic"""
    last_new = fl + n_new - 1
    want = [(j, kids1[j] if j < k else shift_dump(kids1[j], dc, dl)) for j in range(len(kids1)) if j != k]
    wi = 0
    for c in kids2:
        if wi < len(want) and c == want[wi][1]:
            wi += 1
            continue
        h = head_of(c)
        if h["kind"] in (kinds()["AstComment"], kinds()["AstEmpty"]):
            continue      # a comment in front of a method is layout (a node of its own only when the method does not parse);
                          # an annotation `[ ... ]` parses to an empty node without a position
        if not (fl <= h["sl"] and h["el"] <= last_new):
            if wi < len(want):
                return ("[other-declaration-changed] top-level declaration %d (%s the edited method) is missing or changed: expected %s, found %s"
                        % (want[wi][0], "before" if want[wi][0] < k else "after", want[wi][1][:300], c[:300]))
            return "[other-declaration-changed] an unexpected top-level node outside the edited method's lines %d..%d: %s" % (fl, last_new, c[:300])
    if wi < len(want):
        return ("[other-declaration-changed] top-level declaration %d (%s the edited method) disappeared: %s"
                % (want[wi][0], "before" if want[wi][0] < k else "after", want[wi][1][:300]))
    if c1 is None and c2 is not None:
        # the garbage itself contains a class / module header (`... class cC ...`), now at declaration level: a header written
        # on the method's lines may appear; the entries of the other declarations are compared below whatever they hang under
        r = c2[3].split(":")
        if not (fl <= int(r[0]) <= last_new):
            return "[outline-entry-changed] a class/module symbol appears outside the edited method's lines: %s" % "|".join(c2)
    elif c1 is not None and c2 is None:
        return "[outline-entry-changed] the class/module symbol disappears"
    elif c1 is not None:
        ci = next((i for i, h in enumerate(h1) if h["kind"] in cont_kinds), None)
        expc = c1 if (ci is None or ci < k) else shift_entry(c1, dl)
        if expc != c2:
            return "[outline-entry-changed] the class/module symbol changed: %s -> %s" % ("|".join(c1), "|".join(c2))
    wante = [(j, e1[pos] if j < k else shift_entry(e1[pos], dl)) for pos, j in enumerate(idx1) if j != k]
    wi = 0
    for e in e2:
        if wi < len(wante) and e == wante[wi][1]:
            wi += 1
            continue
        r = e[3].split(":")
        if not (fl <= int(r[0]) and int(r[2]) <= last_new):
            return "[outline-entry-changed] outline entry %s is neither an unchanged entry of another declaration nor inside the edited method" % "|".join(e)
    if wi < len(wante):
        return "[outline-entry-changed] the outline entry of declaration %d disappeared or changed: %s" % (wante[wi][0], "|".join(wante[wi][1]))
    lo, hi_old, hi_new = fl, fl + n_old - 1, last_new
    need = Counter()
    for d in o1["diags"]:
        sl, sc, el, ec, msg = diag_fields(d)
        if lo <= sl <= hi_old:
            continue
        if sl > hi_old:
            need["%d:%d:%d:%d:%s" % (sl + dl, sc, el + dl, ec, msg)] += 1
        else:
            need[d] += 1
    have = Counter(o2["diags"])
    lost = need - have
    if lost:
        d = sorted(lost)[0]
        return "[diagnostic-lost] a diagnostic of another declaration disappears or moves: %s" % show_diag(d)
    bad = [d for d in (have - need).elements() if not (lo <= diag_fields(d)[0] <= hi_new and lo <= diag_fields(d)[2] <= hi_new)]
    if bad:
        d = bad[0]
        return "[diagnostic-outside-method] a new diagnostic lies outside the edited method (lines %d..%d): %s" % (lo, hi_new, show_diag(d))
    return None


def _oracle_trunc(fl, n_old, o1, o2, kids1, kids2, h1, k, e1, e2, c1, c2, idx1):
    K = kinds()
    is_func = h1[k]["kind"] == K["AstFunction"]
    want = enc("%s end token not found" % ("func" if is_func else "proc"))
    # reported as such, on the header line
    hits = [d for d in o2["diags"] if diag_fields(d)[4] == want and diag_fields(d)[0] == fl]
    if not hits:
        return ("[missing-end-not-reported] no `%s` diagnostic on the header line %d; diagnostics: %s"
                % (dec(want), fl, "; ".join(show_diag(d) for d in o2["diags"]) or "none"))
    # the declarations before it are untouched
    if len(kids2) != k + 1:
        return "[missing-end-earlier-decl-changed] the truncated text has %d top-level declarations, expected %d (the method last)" % (len(kids2), k + 1)
    for j in range(k):
        if kids1[j] != kids2[j]:
            return "[missing-end-earlier-decl-changed] the subtree of declaration %d changed: %s -> %s" % (j, kids1[j][:300], kids2[j][:300])
    h2 = head_of(kids2[k])
    if h2["kind"] != h1[k]["kind"] or h2["sl"] != fl or h2["ident"] != h1[k]["ident"]:
        return "[missing-end-earlier-decl-changed] the last declaration is not the truncated method: %s" % kids2[k][:200]
    # keeps all of its statements
    mb = K["AstMethodBody"]
    b1 = [c for c in split_children(kids1[k]) if head_of(c)["kind"] == mb]
    b2 = [c for c in split_children(kids2[k]) if head_of(c)["kind"] == mb]
    if len(b1) != 1 or len(b2) != 1:
        return "[missing-end-statements-lost] the method has %d / %d body nodes" % (len(b1), len(b2))
    if b1[0] != b2[0]:
        return "[missing-end-statements-lost] the body of the method without its end keyword differs from the complete one: %s -> %s" % (b1[0][:400], b2[0][:400])
    if not re.search(r"(^|;)5=l(;|$)", h2["attrs"]):
        return "[missing-end-not-reported] the method node still carries an end token: {%s}" % h2["attrs"][:200]
    # nothing else is reported
    last = fl + n_old - 1
    exp = Counter(d for d in o1["diags"] if diag_fields(d)[0] < last)
    exp[hits[0]] += 1
    have = Counter(o2["diags"])
    if have != exp:
        extra = sorted((have - exp).elements()) + sorted((exp - have).elements())
        d = extra[0]
        return "[missing-end-extra-diagnostic] the diagnostics of the truncated text are not those of the original plus the end-token one: %s" % show_diag(d)
    # outline entries before the method
    pos_k = idx1.index(k)
    if e1[:pos_k] != e2[:pos_k] or len(e2) != pos_k + 1:
        return "[missing-end-earlier-decl-changed] the outline entries before the method changed"
    if (c1 is None) != (c2 is None) or (c1 is not None and c1 != c2):
        return "[missing-end-earlier-decl-changed] the class/module symbol changed"
    return None


def tag_of(r):
    m = re.match(r"\[([a-z-]+)\]", r or "")
    return m.group(1) if m else None


# ---------------------------------------------------------------------------------------------
# shrinking
# ---------------------------------------------------------------------------------------------

def shrinker(case):
    a, b, kind, fl, n_old, n_new, _nd = parse_case(case)
    l1, nl = split_lines(dec(a)) if a else ([], "\n")
    l2, nl2 = split_lines(dec(b)) if b else ([], nl)
    if a == "":
        return
    end_old = fl + n_old          # first line after the method in text 1
    end_new = fl + n_new
    pre, old, suf = l1[:fl], l1[fl:end_old], l1[end_old:]
    new = l2[fl:end_new]
    if kind == "T":
        if l2[:fl] != pre:
            return
    elif l2[:fl] != pre or l2[end_new:] != suf:
        return

    def build(pre_, old_, new_, suf_):
        t1 = pre_ + old_ + suf_
        if kind == "T":
            t2 = pre_ + new_
            return mk_case(join_lines(t1, nl), join_lines(t2, nl), kind, len(pre_), len(old_), len(old_) - 1, n_decls(t1))
        t2 = pre_ + new_ + suf_
        return mk_case(join_lines(t1, nl), join_lines(t2, nl), kind, len(pre_), len(old_), len(new_), n_decls(t1))

    def drop(lines, spans):
        dead = set()
        for (x, y) in spans:
            dead.update(range(x, y + 1))
        return [l for i, l in enumerate(lines) if i not in dead]

    sp_pre = [(x, y) for (x, y, _k) in spans_of(pre)]
    sp_suf = [(x, y) for (x, y, _k) in spans_of(suf)]
    # whole declarations
    if suf:
        yield build(pre, old, new, [])
    if len(sp_pre) > 1:
        yield build(drop(pre, sp_pre[1:]), old, new, suf)
        yield build(drop(pre, sp_pre[:-1]), old, new, suf)
        h = len(sp_pre) // 2
        yield build(drop(pre, sp_pre[:h]), old, new, suf)
        yield build(drop(pre, sp_pre[h:]), old, new, suf)
    if len(sp_suf) > 1:
        h = len(sp_suf) // 2
        yield build(pre, old, new, drop(suf, sp_suf[:h]))
        yield build(pre, old, new, drop(suf, sp_suf[h:]))
    for s in sp_pre:
        yield build(drop(pre, [s]), old, new, suf)
    for s in sp_suf:
        yield build(pre, old, new, drop(suf, [s]))
    # bodies of the other methods
    for (x, y, k_) in spans_of(pre):
        if k_ == "method" and y - x >= 2:
            yield build(pre[:x + 1] + pre[y:], old, new, suf)
    for (x, y, k_) in spans_of(suf):
        if k_ == "method" and y - x >= 2:
            yield build(pre, old, new, suf[:x + 1] + suf[y:])
    # the edited method's original body
    if kind == "T":
        body = old[1:-1]
        for i in range(len(body)):
            nb = body[:i] + body[i + 1:]
            yield build(pre, [old[0]] + nb + [old[-1]], [old[0]] + nb, suf)
        return
    if len(old) > 2:
        yield build(pre, [old[0], old[-1]], new, suf)
        if len(old) > 3:
            yield build(pre, [old[0], old[1], old[-1]], new, suf)
    # the garbage
    gb = new[1:-1]
    if len(gb) > 1:
        for i in range(len(gb)):
            if gb[i].strip() == "":
                yield build(pre, old, [new[0]] + gb[:i] + gb[i + 1:] + [new[-1]], suf)
        one = " ".join(x.strip() for x in gb if x.strip() and not x.strip().startswith(";"))
        if ";" not in one and garbage_ok(one):
            yield build(pre, old, [new[0], " " + one, new[-1]], suf)
    tidy = [(" " + " ".join(x.split())) if x.strip() else "" for x in gb]
    if tidy != gb and garbage_ok("\n".join(tidy)):
        yield build(pre, old, [new[0]] + tidy + [new[-1]], suf)
    for li, line in enumerate(gb):
        toks = pc.TOKEN_RE.findall(line)
        solid = [i for i, t in enumerate(toks) if not t.isspace()]
        n = len(solid)
        step = max(1, n // 2)
        while step >= 1:
            for s0 in range(0, n, step):
                dead = set(solid[s0:s0 + step])
                cand = "".join(t for i, t in enumerate(toks) if i not in dead)
                ngb = gb[:li] + [cand] + gb[li + 1:]
                if garbage_ok("\n".join(ngb)):
                    yield build(pre, old, [new[0]] + ngb + [new[-1]], suf)
            step //= 2


# ---------------------------------------------------------------------------------------------
# the check
# ---------------------------------------------------------------------------------------------

def nontrivial(case):
    a, b, _kind, _fl, _no, _nn, nd = parse_case(case)
    return a != b and nd >= 2


def replay_findings(ctx, hb):
    """every listed open finding of this property must still reproduce on the implementation.  Retired findings (repaired, their
    witnesses are regression cases of kind R) are never treated as known even while an entry is still listed."""
    checked = []
    for f in ctx.open_findings():
        w = f.get("witness")
        if not w or f.get("id") in RETIRED_FINDINGS:
            continue
        out = core.run_lines(hb, "parse", [enc(w)], shards=1)[0]
        p = out.split("|")
        diags = [d for d in p[2].split(";") if d] if len(p) == 3 else []
        checked.append(f.get("id"))
        if not diags:
            path = core.write_replay(ctx.pid, ctx.seed, {
                "engine": "parse", "broken": "listed finding %s no longer reproduces (remove it from known_findings.json)" % f.get("id"),
                "case": enc(w), "case_readable": w, "observed": out[:2000]})
            raise core.Violation("listed finding no longer reproduces", path, False)
    return checked


RULE = ("pairs (program, program with one method body replaced / truncated before the last method's end keyword).  R: %d regression pairs "
        "(the witnesses of the repaired finding eof-diagnostic-at-origin: a statement / list item / nested block that fails at the very END "
        "of the body, with and without a method after it).  Base programs: %d "
        "(%d hand-written: header + const + 3 methods incl. a func with parameters and a Name#Event proc; the rest from vlib/goldgen.py, ~20%% "
        "CRLF; %d generated programs dropped because they do not parse cleanly).  X: every token sequence of length <= %d over the 16-kind body "
        "alphabet not starting with '(' as the body of each of %d methods (exhaustive, %d bodies per method); S: random soups of 1..40 tokens "
        "(all keywords but endproc/endfunc/end in random case, operators, identifiers, number and well-formed string literals, end-of-line "
        "comments) on one or several lines; M: 1..3 token-level mutations (delete/insert/replace/swap/duplicate) of the original body; "
        "D: S/M edit of one method of a program in which another method is already garbled; G: S/M edit of one method of a program with 1-2 lines of stray tokens between its declarations; T: every base program cut just before the last "
        "method's end keyword.  Non-trivial = the two texts differ and the program has at least 2 top-level declarations.")


def correspondence(ctx, broken_obligations=()):
    hb = diff.Engines.harness()
    t0 = time.time()
    cases, hist, info = gen_cases(ctx, hb)
    findings_replayed = replay_findings(ctx, hb)
    maxlen = 2 if ctx.quick else 3
    sample_of = {}
    for c in cases:
        k = c.rsplit("@", 1)[1][0]
        if k in ("R", "S", "D", "G", "T") and k not in sample_of and len(c) < 6000:
            sample_of[k] = describe(c)[:900]
    extra = dict(
        rule=RULE % (hist.get("R", 0), info["base_programs"], info["base_programs_hand_written"], info["base_programs_dropped"], maxlen,
                     info["methods_swept_exhaustively"], info["exhaustive_bodies_per_method"]),
        exhaustive=True, input_histogram=hist, samples=[sample_of[k] for k in sorted(sample_of)],
        open_findings_replayed=findings_replayed, generation_wall_s=round(time.time() - t0, 2), **info)
    total = None
    chunk = 20000
    stats = Counter()
    extra["relational_teeth"] = stats
    try:
        for i in range(0, len(cases), chunk):
            part = set(cases[i:i + chunk])
            cov = diff.differential(ctx, ENGINE, cases[i:i + chunk], known=None, shrinker=shrinker,
                                    oracle=lambda c, o: oracle(c, o, stats if c in part else None),
                                    nontrivial=nontrivial, describe=describe)
            if total is None:
                total = cov
            else:
                for key in ("programs", "evaluations", "distinct_nontrivial", "disagreements_checked", "oracle_failures"):
                    total[key] += cov[key]
                total["diff_wall_s"] = round(total["diff_wall_s"] + cov["diff_wall_s"], 2)
    except core.Violation as v:
        v.coverage = dict(getattr(v, "coverage", {}) or {}, **extra)
        raise
    total = total or {}
    total.update(extra)
    return total


def replay(ctx, rep):
    case = rep["case"]
    hb = diff.Engines.harness()
    if "@" not in case:
        # witness of a listed finding (engine parse) that no longer reproduces
        out = core.run_lines(hb, "parse", [case], shards=1)[0]
        print("text:", repr(dec(case))[:800]); print("implementation:", out[:800])
        p = out.split("|")
        diags = [d for d in p[2].split(";") if d] if len(p) == 3 else []
        if diags:
            print("the listed finding reproduces: %s" % "; ".join(show_diag(d) for d in diags)[:400])
            return 0
        print("the listed finding does not reproduce on this witness")
        print("VIOLATION property=C09 replay=%s" % rep.get("how_to_rerun", "?").split()[-1])
        return 1
    out = core.run_lines(hb, ENGINE, [case], shards=1)[0]
    mod = core.run_lines(diff.Engines.model(), ENGINE, [case], shards=1)[0]
    r = oracle(case, out)
    print(describe(case))
    print("implementation:", out[:3000])
    print("model agrees:", out == mod)
    print("oracle:", r or "property holds on this case")
    if r or out != mod:
        print("VIOLATION property=C09 replay=%s" % rep.get("how_to_rerun", "?").split()[-1])
        return 1
    return 0
