"""Shared by checks/c10.py (go-to-definition) and checks/c11.py (completion): abstract Gold workspaces, their
rendering to files with the position of every identifier occurrence, the case line of engine `sem`, and the two
properties' own statements as an executable oracle (class Sem with devs = {}), with switchable deviations (the
classes of the known findings) used only to recognise a listed finding."""
import random
from vlib import core, diff

NATIVES = {"INT1", "INT2", "INT4", "INT8", "NUM4", "NUM8", "NUM10", "DECIMAL", "STRING", "CSTRING", "TEXT", "BOOLEAN", "CHAR"}
INTRINSICS = {"WRITELN", "WRITE", "CONCAT"}
LIST_CLASS = "aListOfInstances"

# classes of deviation from the properties' wording found in /repo (see the *_refuted theorems of Properties/C10.v, C11.v)
DEV_USES = "uses-exposes-all"                 # C10 (+C11 through declared type names): `uses X` makes every symbol of X and of X's ancestors visible, not only X's constants and types
DEV_FWD = "forward-method-in-chain"           # C10+C11: `self.Later.x` in a method declared before `Later`: the prefix has no type
ALL_DEVS = [DEV_USES, DEV_FWD]
DEVS_OF = {"C10": [DEV_USES, DEV_FWD], "C11": [DEV_USES, DEV_FWD]}
# repaired in /repo (known_findings.json `fixed`): their witness workspaces stay as regression cases that must pass the oracle
FIX_OWN = "own-class-via-method-table"        # 945552f
FIX_MODCALL = "call-on-module-qualifier"      # 4a7e667
FIX_DECLNAME = "const-type-declared-name"     # efb255c
FIX_RET = "return-type-as-member-name"        # 7983abd
REGRESSIONS = {"C10": [FIX_OWN, FIX_MODCALL, FIX_DECLNAME, FIX_RET], "C11": [FIX_OWN, FIX_MODCALL]}


# =============================================================================================
# abstract workspace
# =============================================================================================
class Member:
    def __init__(self, kind, name, type, tag):
        self.kind, self.name, self.type, self.tag = kind, name, type, tag      # kind in c t f p u ; type None | (n|r|l, name)


class Var:
    def __init__(self, name, type, tag):
        self.name, self.type, self.tag = name, type, tag


class Method:
    def __init__(self, name, params, locals_, body=None):
        self.name, self.params, self.locals, self.body = name, params, locals_, body or []


class Entity:
    def __init__(self, kind, name, parent, uses, members, methods):
        self.kind, self.name, self.parent, self.uses, self.members, self.methods = kind, name, parent, uses, members, methods


def show_type(t):
    return "-" if t is None else t[0] + t[1]


def parse_type(s):
    return None if s in ("-", "") else (s[0], s[1:])


def show_ws(ws):
    out = []
    for e in ws:
        ms = "+".join("%s:%s:%s:%d" % (m.kind, m.name, show_type(m.type), m.tag) for m in e.members) or "-"
        vs = lambda l: "/".join("%s~%s~%d" % (v.name, show_type(v.type), v.tag) for v in l) or "-"
        mes = "+".join("%s:%s:%s" % (me.name, vs(me.params), vs(me.locals)) for me in e.methods) or "-"
        out.append(",".join([e.kind, e.name, e.parent or "-", "+".join(e.uses) or "-", ms, mes]))
    return ";".join(out)


def parse_ws(s):
    ws = []
    lst = lambda x, sep: [] if x == "-" or x == "" else x.split(sep)
    for es in [x for x in s.split(";") if x]:
        k, n, p, us, ms, mes = es.split(",")
        members = []
        for m in lst(ms, "+"):
            mk, mn, mt, tag = m.split(":")
            members.append(Member(mk, mn, parse_type(mt), int(tag)))
        methods = []
        for me in lst(mes, "+"):
            mn, ps, ls = me.split(":")
            pv = lambda l: [Var(a, parse_type(b), int(c)) for a, b, c in (v.split("~") for v in lst(l, "/"))]
            methods.append(Method(mn, pv(ps), pv(ls)))
        ws.append(Entity(k, n, None if p == "-" else p, lst(us, "+"), members, methods))
    return ws


def parse_items(s):
    return [(x[:-1], True) if x.endswith("!") else (x, False) for x in s.split("+") if x]


def show_items(items):
    return "+".join(n + ("!" if c else "") for n, c in items)


class Case:
    """files: [(stem, text)], queries: [(K, stem, line, col, question)], ws, table {(stem, tag): (sl, sc, el, ec)}"""
    def __init__(self, files, queries, ws, table, opened=()):
        self.files, self.queries, self.ws, self.table = files, queries, ws, table
        self.opened = frozenset(opened)         # stems that are open in the editor (`+Stem` on the wire)

    def line(self):
        f = ";".join("%s%s=%s" % ("+" if s in self.opened else "", s, ".".join(str(ord(c)) for c in t)) for s, t in self.files)
        q = ";".join("%s,%s,%d,%d,%s" % x for x in self.queries)
        t = ";".join("%s:%d:%d:%d:%d:%d" % ((k[0], k[1]) + tuple(v)) for k, v in sorted(self.table.items()))
        return "|".join([f, q, show_ws(self.ws), t])

    @staticmethod
    def parse(line):
        f, q, w, t = line.split("|")
        files, opened = [], []
        for x in [x for x in f.split(";") if x]:
            s, cps = x.split("=")
            if s.startswith("+"):
                s = s[1:]
                opened.append(s)
            files.append((s, "".join(chr(int(c)) for c in cps.split(".")) if cps else ""))
        queries = []
        for x in [x for x in q.split(";") if x]:
            k, s, l, c, qu = x.split(",", 4)
            queries.append((k, s, int(l), int(c), qu))
        table = {}
        for x in [x for x in t.split(";") if x]:
            s, tag, a, b, c, d = x.split(":")
            table[(s, int(tag))] = (int(a), int(b), int(c), int(d))
        return Case(files, queries, parse_ws(w), table, opened)


# =============================================================================================
# the properties' statements, executable (devs = {}: the statement itself)
# =============================================================================================
def last(decls, name):
    r = None
    for d in decls:
        if d.name.upper() == name.upper():
            r = d
    return r


class Sem:
    def __init__(self, ws, devs=frozenset()):
        self.ws, self.devs = ws, frozenset(devs)
        self.by = {}
        for e in ws:
            self.by.setdefault(e.name.upper(), e)

    def find(self, name):
        return self.by.get(name.upper())

    def ancestors(self, name):
        out, e = [], self.find(name)
        while e is not None and len(out) < len(self.ws):
            out.append(e)
            if e.parent is None or e.parent.upper() == e.name.upper():
                break
            e = self.find(e.parent)
        return out

    def method(self, c, m):
        e = self.find(c)
        if e is None or m is None:
            return None
        for me in e.methods:
            if me.name.upper() == m.upper():
                return me
        return None

    def vars_of(self, c, m):
        me = self.method(c, m)
        return (me.params + me.locals) if me else []

    def is_special(self, name):
        return name.upper() == "SELF" or self.find(name) is not None

    # ---- look-ups; a hit is ("var", entity, Var) | ("mem", entity, Member) | ("ent", entity) ----
    def members_during(self, e, c, m):
        """the top-level declarations of e that exist while the body of method m of c is annotated"""
        if DEV_FWD in self.devs and m is not None and e is self.find(c):
            out = []
            for d in e.members:
                out.append(d)
                if d.kind in "pu" and d.name.upper() == m.upper():
                    break
            return out
        return e.members

    def table_hit(self, e, name, members=None):
        d = last(e.members if members is None else members, name)
        if d:
            return ("mem", e, d)
        if name.upper() == e.name.upper() or (e.kind == "c" and name.upper() == "SELF"):
            return ("ent", e)
        return None

    def chain_hit(self, d, name, c=None, m=None, during=False):
        """nearest declaration of the name in entity d and its ancestors"""
        anc = self.ancestors(d)
        for i, a in enumerate(anc):
            ms = self.members_during(a, c, m) if (during and i == 0) else None
            r = self.table_hit(a, name, ms)
            if r:
                return r
        return None

    def lookup(self, c, m, name, uses, during=False):
        e = self.find(c)
        if e is None:
            return None
        v = last(self.vars_of(c, m), name)
        if v:
            return ("var", e, v)
        r = self.chain_hit(c, name, c, m, during)
        if r:
            return r
        if uses:
            for u in e.uses:
                ue = self.find(u)
                if ue is None:
                    continue
                if DEV_USES in self.devs:
                    r = self.chain_hit(u, name)
                    if r:
                        return r
                else:
                    d = last([x for x in ue.members if x.kind in "ct"], name)
                    if d:
                        return ("mem", ue, d)
        return None

    @staticmethod
    def target(hit):
        if hit is None:
            return None
        if hit[0] == "ent":
            return (hit[1].name, 0)
        return (hit[1].name, hit[2].tag)

    # ---- C10 ----
    def visible(self, c, m, name):
        return self.target(self.lookup(c, m, name, True))

    def members_all(self, d, name):
        out = []
        for a in self.ancestors(d):
            x = last(a.members, name)
            if x:
                out.append((a.name, x.tag))
        return out

    def definition_member(self, c, m, d, name):
        if self.find(d) is None:
            return []
        return self.members_all(d, name)

    # ---- static types: (kind C|M, spelled name) ----
    def type_class(self, c, m, t, depth=0):
        if t is None or depth > 6:
            return None
        k, s = t
        if k == "l":
            return ("C", LIST_CLASS)
        if k == "n" and s.upper() in NATIVES:
            return None
        if self.find(s):
            return ("C", s)
        return self.hit_class(c, m, self.lookup(c, m, s, k == "n"), depth + 1)

    def hit_class(self, c, m, hit, depth=0):
        if hit is None:
            return None
        if hit[0] == "ent":
            return ("M" if hit[1].kind == "m" else "C", hit[1].name)
        if hit[0] == "var":
            return self.type_class(c, m, hit[2].type, depth)
        d = hit[2]
        if d.kind in "cp":
            return None
        return self.type_class(hit[1].name, None, d.type, depth)

    def head_class(self, c, m, item):
        name, call = item
        if call and name.upper() in INTRINSICS:
            return None
        hit = self.lookup(c, m, name, False, during=True)
        if hit:
            return self.hit_class(c, m, hit)
        if not call:
            e = self.find(name)
            if e:
                return ("M" if e.kind == "m" else "C", e.name)
        return None

    def next_class(self, c, m, left, item):
        name, call = item
        kind, d = left
        if self.find(d) is None:
            return None
        return self.hit_class(c, m, self.chain_hit(d, name, c, m, during=(d.upper() == c.upper())))

    def static_class(self, c, m, items):
        if not items:
            return None
        t = self.head_class(c, m, items[0])
        for it in items[1:]:
            if t is None:
                return None
            t = self.next_class(c, m, t, it)
        return t

    # ---- C11 ----
    def listing(self, d, first=()):
        """merged listing of the tables of d and its ancestors: each name once, nearest declaration wins"""
        seen, out = set(), []
        live = {}
        for v in first:
            live[v.name.upper()] = v
        for v in first:
            if live[v.name.upper()] is v:
                out.append(("v", v.name))
        seen |= set(live)
        for a in self.ancestors(d):
            names = {a.name.upper()} | ({"SELF"} if a.kind == "c" else set())
            live = {}
            for x in a.members:
                live[x.name.upper()] = x
            for x in a.members:
                if live[x.name.upper()] is x and x.name.upper() not in seen:
                    out.append((x.kind, x.name))
            seen |= names | set(live)
        return out

    def complete_member(self, c, m, d):
        if self.find(d) is None:
            return []
        return sorted(n for k, n in self.listing(d) if k in "fpu")

    def complete_plain(self, c, m):
        return sorted(n for k, n in self.listing(c, self.vars_of(c, m)) if k in "vc")

    # ---- what the property requires for one abstract question: a list of acceptable answers ----
    def expected(self, k, qu):
        f = qu.split("~")
        opt = lambda x: None if x == "-" else x
        if f[0] == "P":
            c, m, name = f[1], opt(f[2]), f[3]
            if self.is_special(name):
                # a class / module name or `self`: outside the property's list of declarations; the declaration of
                # that entity or nothing is accepted, anything else is a wrong target
                e = self.find(c) if name.upper() == "SELF" else self.find(name)
                ok = [[]]
                if e is not None and not (name.upper() == "SELF" and e.kind != "c"):
                    ok.append([(e.name, 0)])
                if self.devs:
                    t = self.visible(c, m, name)
                    ok.append([t] if t else [])
                return ok
            t = self.visible(c, m, name)
            return [[t] if t else []]
        if f[0] == "M":
            c, m, items, name = f[1], opt(f[2]), parse_items(f[3]), f[4]
            st = self.static_class(c, m, items)
            return [self.definition_member(c, m, st[1], name) if st else []]
        if f[0] == "N":
            c, mn = f[1], f[2]
            return [self.definition_member(c, mn, c, mn)]
        if f[0] == "G":
            c, kind, name = f[1], f[2], f[3]
            return [self.members_all(c, name)]
        if f[0] == "X":
            c, m, items = f[1], opt(f[2]), parse_items(f[3])
            st = self.static_class(c, m, items)
            return [self.complete_member(c, m, st[1]) if st else []]
        if f[0] == "L":
            return [self.complete_plain(f[1], opt(f[2]))]
        raise ValueError(qu)


# =============================================================================================
# answers
# =============================================================================================
def range_ok(r):
    return (r[0], r[1]) <= (r[2], r[3])


def sel_inside(sel, tgt):
    return (tgt[0], tgt[1]) <= (sel[0], sel[1]) and (sel[2], sel[3]) <= (tgt[2], tgt[3])


def canon_answer(a):
    """implementation link `stem:sel/target/origin` -> `stem:sel`, after the range clauses (C08's clause for link
    targets): every range well-formed, selection inside target; a violated clause stays visible as `!RANGE`"""
    if a == "-" or a.startswith(("ERR", "PANIC", "HANG", "BAD")) or "/" not in a:
        return a
    if "!IDEM" in a:
        return a
    out = []
    for link in a.split(","):
        parts = link.split("/")
        head = parts[0]
        bad = ""
        try:
            stem, *sel = head.split(":")
            sel = tuple(map(int, sel))
            tgt = tuple(map(int, parts[1].split(":")))
            org = None if parts[2] == "-" else tuple(map(int, parts[2].split(":")))
            if not range_ok(sel) or not range_ok(tgt) or (org is not None and not range_ok(org)):
                bad = "!RANGE-malformed"
            elif not sel_inside(sel, tgt):
                bad = "!RANGE-selection-outside-target"
            elif org is None:
                bad = "!RANGE-no-origin"
        except Exception:
            bad = "!RANGE-unparsable"
        out.append(head + bad)
    return ",".join(out)


def canon(out):
    if out.startswith("PANIC") or out in ("CRASH", "BADCASE") or out.startswith("MODEL-"):
        return out
    return ";".join(canon_answer(a) for a in out.split(";"))


def parse_answer(k, a, table):
    """-> list of (stem, tag) targets / sorted labels; None when not an answer"""
    if a == "-":
        return []
    if a.startswith(("ERR", "PANIC", "HANG", "BAD")) or "!" in a:
        return None
    if k == "C":
        return a.split(",")
    inv = {}
    for key, r in table.items():
        inv.setdefault((key[0],) + tuple(r), []).append(key)
    out = []
    for link in a.split(","):
        f = link.split(":")
        try:
            key = (f[0],) + tuple(int(x) for x in f[1:5])
        except ValueError:
            return None
        cands = inv.get(key)
        out.append(cands[0] if cands else ("?" + link, -1))
    return out


def check_case(case, impl_out, devs=frozenset()):
    """-> list of (query index, description) for every query whose answer the property (with devs) does not allow"""
    if impl_out.startswith("PANIC") or impl_out in ("CRASH", "BADCASE"):
        return [(-1, "the engine failed on the whole workspace: " + impl_out[:200])]
    answers = impl_out.split(";")
    if len(answers) != len(case.queries):
        return [(-1, "wrong number of answers")]
    sem = Sem(case.ws, devs)
    bad = []
    for i, ((k, stem, l, c, qu), a) in enumerate(zip(case.queries, answers)):
        got = parse_answer(k, a, case.table)
        where = "%s %s.god %d:%d %s" % ("definition" if k == "D" else "completion", stem, l, c, qu)
        if got is None:
            bad.append((i, "%s: the request did not answer properly: %s" % (where, a[:200])))
            continue
        ok = sem.expected(k, qu)
        if k == "D":
            ok = [[tuple(t) for t in o] for o in ok]
            got = [tuple(t) for t in got]
        if got not in ok:
            bad.append((i, "%s: expected %s, answered %s" % (where, " or ".join(map(str, ok)), got)))
    return bad


def oracle(line, impl_out):
    case = Case.parse(line)
    bad = check_case(case, impl_out)
    return bad[0][1] if bad else None


def make_known(ctx):
    findings = [f for f in ctx.open_findings() if f.get("class") in ALL_DEVS]
    listed = frozenset(f.get("class") for f in findings)
    ids = dict((f.get("class"), f.get("id")) for f in findings)

    def known(line, impl_out, model_out):
        """a failing workspace is a known finding only when EVERY query that fails the property's statement answers
        exactly what the statement with the LISTED deviations prescribes"""
        if not listed:
            return None
        case = Case.parse(line)
        bad = check_case(case, impl_out)
        if not bad or any(i < 0 for i, _ in bad):
            return None
        if check_case(case, impl_out, listed):
            return None
        # which of the listed classes are needed: one line per class (not per combination)
        needed = [c for c in sorted(listed) if check_case(case, impl_out, listed - {c})]
        if not needed:
            needed = [c for c in sorted(listed) if not check_case(case, impl_out, frozenset([c]))][:1]
        for c in needed:
            ctx.known("%s: the answers differ from the statement by the listed deviation %s" % (ids.get(c), c))
        return "every failing answer of the generated workspaces is the statement with listed deviations only"
    return known


def shrinker(line):
    case = Case.parse(line)
    qs = case.queries
    n = len(qs)
    if n > 1:
        h = n // 2
        for part in (qs[:h], qs[h:]):
            yield Case(case.files, part, case.ws, case.table, case.opened).line()
        if n <= 12:
            for i in range(n):
                yield Case(case.files, qs[:i] + qs[i + 1:], case.ws, case.table, case.opened).line()
    else:
        used = set(q[1] for q in qs)
        for e in case.ws:
            if e.name in used:
                continue
            ws = [x for x in case.ws if x is not e]
            yield Case([f for f in case.files if f[0] != e.name], qs, ws,
                       {k: v for k, v in case.table.items() if k[0] != e.name}, case.opened).line()
    if case.opened:
        yield Case(case.files, case.queries, case.ws, case.table).line()


def describe(line):
    case = Case.parse(line)
    return {"files": {s + ".god": t for s, t in case.files}, "open_in_editor": sorted(case.opened),
            "queries": ["%s %s.god line %d col %d  [%s]" % q for q in case.queries[:40]],
            "n_queries": len(case.queries)}


# =============================================================================================
# generator
# =============================================================================================
CLASS_NAMES = ["aAlpha", "aBeta", "aGamma", "aDelta", "aEps", "aZeta"]
MODULE_NAMES = ["aModUtil", "aModCore"]
FIELD_POOL = ["Fa", "Fb", "Fc", "Link", "Next", "Owner", "Item"]
PROC_POOL = ["Pa", "Pb", "Run", "Init"]
FUNC_POOL = ["Ga", "Gb", "GetLink", "Make"]
CONST_POOL = ["cA", "cB", "cC", "cMax"]
TYPE_POOL = ["tA", "tB", "tRef", "tKind"]
PARAM_POOL = ["p1", "p2", "pObj"]
LOCAL_POOL = ["l1", "l2", "lObj", "tmp"]
NATIVE_TYPES = ["int4", "cstring", "Boolean", "num8", "Text", "INT4", "CString"]


def vary(rng, name, p=0.3):
    if rng.random() >= p:
        return name
    k = rng.randrange(4)
    if k == 0:
        return name.upper()
    if k == 1:
        return name.lower()
    if k == 2:
        return name.swapcase()
    return "".join(ch.upper() if rng.random() < 0.5 else ch.lower() for ch in name)


class Gen:
    def __init__(self, rng):
        self.r = rng

    # ---------------- declarations ----------------
    def gen_type(self, names, cls_bias=0.5, alias=True, basic_only=False):
        r = self.r
        k = r.random()
        if basic_only:          # a function's return type is a plain type name
            t = self.gen_type(names, cls_bias, alias)
            return ("n", t[1])
        if k < cls_bias * 0.6:
            return ("n", vary(r, r.choice(names)))
        if k < cls_bias:
            return ("r", vary(r, r.choice(names)))
        if k < cls_bias + 0.05:
            return ("l", r.choice(names))
        if alias and k < cls_bias + 0.17:
            return ("n", vary(r, r.choice(TYPE_POOL)))
        if k < cls_bias + 0.22:
            return ("n", r.choice(["tNope", "aMissing"]))
        if k < cls_bias + 0.25:
            return ("r", "aMissing")
        return ("n", r.choice(NATIVE_TYPES))

    def gen_workspace(self):
        r = self.r
        ncls = r.randint(2, 6)
        cnames = CLASS_NAMES[:ncls]
        r.shuffle(cnames)
        if r.random() < 0.12:
            cnames.append(LIST_CLASS)
        mnames = MODULE_NAMES[:r.choice([0, 0, 1, 1, 2])]
        names = cnames + mnames
        depth, ws = {}, []
        for i, n in enumerate(cnames):
            parent = None
            if i > 0 and r.random() < 0.8:
                cands = [c for c in cnames[:i] if depth[c] < 4]
                if cands:
                    parent = r.choice(cands)
            depth[n] = 0 if parent is None else depth[parent] + 1
            if parent is None and r.random() < 0.06:
                parent = "aMissingBase"
            ws.append(Entity("c", n, vary(r, parent, 0.2) if parent else None, [], [], []))
        for n in mnames:
            ws.append(Entity("m", n, None, [], [], []))
        inherited = {}          # entity -> list of member names of its ancestors (for overriding)
        for e in ws:
            others = [x for x in names if x != e.name]
            nu = r.choice([0, 1, 1, 2, 3])
            e.uses = [vary(r, u, 0.2) for u in r.sample(others, min(nu, len(others)))]
            if r.random() < 0.05:
                e.uses.insert(r.randrange(len(e.uses) + 1), "aNotIndexed")
            up = []
            p = e.parent
            while p:
                pe = next((x for x in ws if x.name.upper() == p.upper()), None)
                if pe is None:
                    break
                up += [m.name for m in pe.members]
                p = pe.parent
            tag = [0]

            def nt():
                tag[0] += 1
                return tag[0]

            def pick(pool, kindset):
                # overriding: re-declare an inherited name (maybe in another letter case); else a pool name
                inh = [x for x in up if x.upper() in {y.upper() for y in pool}]
                if inh and r.random() < 0.4:
                    return vary(r, r.choice(inh), 0.35)
                if r.random() < 0.04:
                    return r.choice(FIELD_POOL + FUNC_POOL + CONST_POOL)      # a name of another kind
                return r.choice(pool)

            def add(kind, pool, n, typ):
                for _ in range(n):
                    nm = pick(pool, kind)
                    # a name declared twice in one entity: rarely, and never for a method (each method has one body scope)
                    if any(m.name.upper() == nm.upper() for m in e.members) and (kind in "pu" or r.random() < 0.9):
                        continue
                    if nm.upper() == "SELF" or any(x.upper() == nm.upper() for x in names):
                        continue
                    e.members.append(Member(kind, nm, typ(), nt()))

            add("c", CONST_POOL, r.randint(0, 2), lambda: None)
            add("t", TYPE_POOL, r.randint(0, 2), lambda: r.choice([("n", r.choice(NATIVE_TYPES)), ("n", vary(r, r.choice(names))),
                                                                 ("r", vary(r, r.choice(names)))]))
            add("f", FIELD_POOL, r.randint(1, 4), lambda: self.gen_type(names))
            nmeth = r.randint(1, 4)
            for _ in range(nmeth):
                if r.random() < 0.5:
                    add("p", PROC_POOL, 1, lambda: None)
                else:
                    add("u", FUNC_POOL, 1, lambda: self.gen_type(names, 0.65, basic_only=True))
            for m in e.members:
                if m.kind not in "pu" or any(me.name.upper() == m.name.upper() for me in e.methods):
                    continue
                # never the name of a type: a declared type name must not resolve to a variable (ASSUMPTIONS)
                tnames = {x.upper() for x in TYPE_POOL} | {x.name.upper() for x in e.members if x.kind == "t"}
                visible = [x for x in [y.name for y in e.members] + up if x.upper() not in tnames]
                vs = []

                def vname(pool):
                    if r.random() < 0.07:
                        return vary(r, r.choice(names), 0.5)            # named like a class or module of the workspace
                    if visible and r.random() < 0.25:
                        return vary(r, r.choice(visible), 0.4)          # shadows a member
                    if vs and r.random() < 0.1:
                        return vary(r, r.choice(vs).name, 0.4)          # a local re-declares a parameter / local
                    return r.choice(pool)

                params, locs = [], []
                for _ in range(r.choice([0, 0, 1, 1, 2])):
                    v = Var(vname(PARAM_POOL), self.gen_type(names, 0.5) if r.random() < 0.9 else None, nt())
                    if any(x.name.upper() == v.name.upper() for x in params):
                        continue
                    params.append(v)
                    vs.append(v)
                for _ in range(r.choice([0, 1, 1, 2, 3])):
                    v = Var(vname(LOCAL_POOL), self.gen_type(names, 0.55), nt())
                    locs.append(v)
                    vs.append(v)
                e.methods.append(Method(m.name, params, locs))
        # The declared type of a MEMBER is evaluated whenever the file is analysed as a dependency of another one.  A
        # type name that the class chain does not resolve is then looked up through `uses`, which analyses the used
        # entities at a moment when tables of other files are published but still empty: what those files' members
        # resolve to then depends on which file was requested first.  Members therefore never need a `uses` look-up
        # (native, class, listof, refto, or an alias of their own class chain); parameters and locals, evaluated only
        # when their own file is analysed on request, use aliases through `uses` and unknown names freely.  (ASSUMPTIONS)
        sem = Sem(ws, ALL_DEVS)
        for e in ws:
            for d in e.members:
                if d.type is None or d.type[0] != "n" or d.type[1].upper() in NATIVES or sem.find(d.type[1]):
                    continue
                hit = sem.chain_hit(e.name, d.type[1])
                if hit is None or hit[0] != "mem" or hit[2].kind != "t":
                    d.type = ("n", r.choice(NATIVE_TYPES)) if r.random() < 0.5 else ("r", d.type[1])
                    if d.kind == "u":
                        d.type = ("n", r.choice(NATIVE_TYPES))
        return ws

    # ---------------- bodies ----------------
    def gen_chain(self, sem, e, me, maxdots=3):
        """a dotted chain written in method me of e: list of (spelled name, is_call)"""
        r = self.r
        c, m = e.name, me.name
        vars_ = sem.vars_of(c, m)
        members = [(a, d) for a in sem.ancestors(c) for d in a.members]
        typed = lambda t: sem.type_class(c, m, t) is not None
        k = r.random()
        cands = []
        if k < 0.35:
            cands = [(v.name, False) for v in vars_ if typed(v.type)] + \
                    [(d.name, d.kind == "u" and r.random() < 0.5) for a, d in members if d.kind in "fu" and sem.type_class(a.name, None, d.type)]
        elif k < 0.5:
            cands = [("self", False)]
        elif k < 0.6:
            cands = [(x.name, False) for x in sem.ws]
        elif k < 0.82:
            cands = [(v.name, False) for v in vars_] + [(d.name, d.kind in "pu" and r.random() < 0.5) for a, d in members]
        elif k < 0.94:
            for u in e.uses:
                ue = sem.find(u)
                if ue:
                    cands += [(d.name, d.kind in "pu" and r.random() < 0.5) for a in sem.ancestors(ue.name) for d in a.members]
        if not cands:
            cands = [(r.choice(["zz", "Nope", "int4", "WriteLn"]), False)]
        items = [r.choice(cands)]
        items[0] = (vary(r, items[0][0]), items[0][1])
        own = sem.find(c)
        later = set()
        seen_m = False
        for d in own.members:
            if seen_m and d.kind in "pu":
                later.add(d.name.upper())
            if d.kind in "pu" and d.name.upper() == m.upper():
                seen_m = True
        ndots = r.choice([0, 0, 1, 1, 1, 2, 2, 3])
        for _ in range(min(ndots, maxdots)):
            st = sem.static_class(c, m, items)
            if st is None:
                if r.random() < 0.5:
                    items.append((r.choice(FIELD_POOL + PROC_POOL), False))
                break
            anc = sem.ancestors(st[1])
            ms = [d for a in anc for d in a.members]
            # the tables of a strict descendant of the enclosing class are built on demand; what they see of the
            # enclosing class's later methods depends on the history of requests: not generated (ASSUMPTIONS)
            if own in anc[1:]:
                ms = [d for d in ms if d.name.upper() not in later]
            deep = [d for d in ms if d.kind in "fu" and d.type and d.type[1].upper() not in NATIVES]
            pool = deep if (deep and r.random() < 0.6) else ms
            if not pool or r.random() < 0.08:
                items.append((r.choice(["Nope", "Zq"]), False))
                break
            d = r.choice(pool)
            items.append((vary(r, d.name), d.kind in "pu" and r.random() < 0.5))
        return items


# =============================================================================================
# rendering with positions
# =============================================================================================
class Renderer:
    def __init__(self, rng, ws, kinds="DC"):
        self.r, self.ws, self.kinds = rng, ws, kinds
        self.sem = Sem(ws)
        self.gen = Gen(rng)
        self.files, self.queries, self.table = [], [], {}
        self.hist = {}

    def q(self, k, stem, line, col, qu):
        if k in self.kinds:
            self.queries.append((k, stem, line, col, qu))
            self.hist[qu[0]] = self.hist.get(qu[0], 0) + 1

    def ident_queries(self, stem, line, col, name, qu):
        """definition queries on one identifier occurrence: its first character, sometimes its last one / its end"""
        self.q("D", stem, line, col, qu)
        if len(name) > 1 and self.r.random() < 0.4:
            self.q("D", stem, line, col + len(name) - 1, qu)
        elif self.r.random() < 0.12:
            self.q("D", stem, line, col + len(name), qu)

    def chain(self, stem, c, m, lines, cur, items, stmt_start=False, dangling=False):
        """appends the chain to the current line text `cur`; returns the new text"""
        r = self.r
        ctx = "%s~%s" % (c, m or "-")
        for i, (name, call) in enumerate(items):
            col = len(cur)
            line = len(lines)
            if i == 0:
                self.ident_queries(stem, line, col, name, "P~%s~%s" % (ctx, name))
                if stmt_start or r.random() < 0.3:
                    self.q("C", stem, line, col, "L~%s" % ctx)
            else:
                pre = show_items(items[:i])
                self.ident_queries(stem, line, col, name, "M~%s~%s~%s" % (ctx, pre, name))
                self.q("C", stem, line, col, "X~%s~%s" % (ctx, pre))
                if r.random() < 0.5:
                    self.q("C", stem, line, col + len(name), "X~%s~%s" % (ctx, pre))
            cur += name
            if call:
                cur += "("
                if r.random() < 0.4:
                    arg = self.gen.gen_chain(self.sem, self.sem.find(c), self.sem.method(c, m), 1)
                    cur = self.chain(stem, c, m, lines, cur, arg)
                cur += ")"
            if i + 1 < len(items):
                cur += "."
        if dangling:
            if r.random() < 0.35:
                # `x .` : a cursor ON the dot is still before it (elsewhere-completion); one column further it is after the dot
                cur += " "
                self.q("C", stem, len(lines), len(cur), "L~%s" % ctx)
            cur += "."
            self.q("C", stem, len(lines), len(cur), "X~%s~%s" % (ctx, show_items(items)))
        return cur

    def type_ref(self, stem, c, m, lines, cur, t):
        if t is None:
            return cur
        k, s = t
        cur += {"n": "", "r": "refto ", "l": "listof "}[k]
        self.ident_queries(stem, len(lines), len(cur), s, "P~%s~%s~%s" % (c, m or "-", s))
        return cur + s

    def decl(self, stem, tag, lines, cur, name):
        self.table[(stem, tag)] = (len(lines), len(cur), len(lines), len(cur) + len(name))
        return cur + name

    def render_entity(self, e):
        r, sem = self.r, self.sem
        stem, c = e.name, e.name
        lines = []
        cur = ("class " if e.kind == "c" else "module ")
        cur = self.decl(stem, 0, lines, cur, e.name)
        if e.parent:
            cur += " ("
            self.ident_queries(stem, 0, len(cur), e.parent, "P~%s~-~%s" % (c, e.parent))
            cur += e.parent + ")"
        lines.append(cur)
        if e.uses:
            lines.append("uses " + ", ".join(e.uses))
        if r.random() < 0.5:
            lines.append("")
        for d in e.members:
            if d.kind in "pu":
                continue
            if d.kind == "c":
                cur = "const "
                self.q("D", stem, len(lines), len(cur), "G~%s~c~%s" % (c, d.name))
                cur = self.decl(stem, d.tag, lines, cur, d.name) + " = " + r.choice(["1", "'txt'", "42"])
            elif d.kind == "t":
                cur = "type "
                self.q("D", stem, len(lines), len(cur), "G~%s~t~%s" % (c, d.name))
                cur = self.decl(stem, d.tag, lines, cur, d.name) + " : "
                cur = self.type_ref(stem, c, None, lines, cur, d.type)
            else:
                cur = ""
                self.q("D", stem, len(lines), 0, "G~%s~f~%s" % (c, d.name))
                if len(d.name) > 1 and r.random() < 0.3:
                    self.q("D", stem, len(lines), len(d.name) - 1, "G~%s~f~%s" % (c, d.name))
                cur = self.decl(stem, d.tag, lines, cur, d.name) + " : "
                cur = self.type_ref(stem, c, None, lines, cur, d.type)
                if r.random() < 0.15:
                    cur += " override"
            lines.append(cur)
        for d in e.members:
            if d.kind not in "pu":
                continue
            me = next((x for x in e.methods if x.name.upper() == d.name.upper()), None)
            if me is None or me.name != d.name:
                # a method name declared twice: only the first declaration has a body scope in the abstract workspace;
                # the generator never produces it (see Gen.gen_workspace)
                continue
            lines.append("")
            m = me.name
            cur = "proc " if d.kind == "p" else "func "
            self.q("D", stem, len(lines), len(cur), "N~%s~%s" % (c, m))
            if len(m) > 1 and r.random() < 0.3:
                self.q("D", stem, len(lines), len(cur) + len(m) - 1, "N~%s~%s" % (c, m))
            cur = self.decl(stem, d.tag, lines, cur, d.name)
            if me.params:
                cur += "("
                for i, v in enumerate(me.params):
                    if i:
                        cur += ", "
                    cur = self.decl(stem, v.tag, lines, cur, v.name)
                    if v.type is not None:
                        cur += " : "
                        cur = self.type_ref(stem, c, m, lines, cur, v.type)
                cur += ")"
            if d.kind == "u":
                cur += " return "
                cur = self.type_ref(stem, c, m, lines, cur, d.type)     # a plain type reference inside the method
            if r.random() < 0.1:
                cur += " override"
            lines.append(cur)
            for v in me.locals:
                cur = "  var "
                cur = self.decl(stem, v.tag, lines, cur, v.name) + " : "
                cur = self.type_ref(stem, c, m, lines, cur, v.type)
                lines.append(cur)
            self.body(stem, e, me, lines)
            lines.append("endproc" if d.kind == "p" else "endfunc")
        self.files.append((stem, "\n".join(lines) + "\n"))

    def body(self, stem, e, me, lines):
        r, sem, gen = self.r, self.sem, self.gen
        c, m = e.name, me.name
        n = r.randint(2, 6)
        after_dangling = False
        for k in range(n):
            ind = "  "
            kind = r.random()
            if after_dangling:
                kind = 0.75           # the statement after an incomplete line starts with a keyword
            if kind < 0.4:
                cur = self.chain(stem, c, m, lines, ind, gen.gen_chain(sem, e, me), stmt_start=not after_dangling)
                cur += " = "
                if r.random() < 0.7:
                    cur = self.chain(stem, c, m, lines, cur, gen.gen_chain(sem, e, me, 2))
                else:
                    cur += r.choice(["1", "'s'", "true"])
                lines.append(cur)
                after_dangling = False
            elif kind < 0.55:
                items = gen.gen_chain(sem, e, me)
                if len(items) == 1 and not items[0][1]:
                    items = [(items[0][0], True)]
                lines.append(self.chain(stem, c, m, lines, ind, items, stmt_start=True))
            elif kind < 0.65:
                cur = ind + r.choice(["WriteLn", "writeln", "Concat"]) + "("
                cur = self.chain(stem, c, m, lines, cur, gen.gen_chain(sem, e, me, 2)) + ")"
                lines.append(cur)
            elif kind < 0.8:
                cur = ind + "if "
                if not after_dangling:
                    self.q("C", stem, len(lines), len(ind), "L~%s~%s" % (c, m))
                cur = self.chain(stem, c, m, lines, cur, gen.gen_chain(sem, e, me, 2)) + " = 1"
                lines.append(cur)
                cur = self.chain(stem, c, m, lines, ind + "  ", gen.gen_chain(sem, e, me, 2), stmt_start=True) + " = 2"
                lines.append(cur)
                lines.append(ind + "endif")
                after_dangling = False
            elif kind < 0.9:
                # a partial member name being typed
                items = gen.gen_chain(sem, e, me, 2) + [(r.choice(["Zq", "F", "G", "li"]), False)]
                lines.append(self.chain(stem, c, m, lines, ind, items, stmt_start=True))
            else:
                # the incomplete line `x.`
                items = gen.gen_chain(sem, e, me, 2)
                if items[-1][1]:
                    items[-1] = (items[-1][0], False)
                lines.append(self.chain(stem, c, m, lines, ind, items, stmt_start=True, dangling=True))
                after_dangling = True
                continue
            if kind >= 0.4 and kind < 0.8:
                after_dangling = False
            if not after_dangling and r.random() < 0.15:
                self.q("C", stem, len(lines), 2, "L~%s~%s" % (c, m))
                lines.append("  ")

    def run(self):
        for e in self.ws:
            self.render_entity(e)
        # some files are open in the editor; the queries come in an order that mixes the files (a document may be analysed as
        # somebody's dependency before it is asked about itself)
        r = self.r if hasattr(self, "r") else self.rng
        opened = [s for s, _ in self.files if r.random() < 0.3]
        # (the queries stay grouped by file, in file order: whether a forward reference inside a class resolves depends on
        #  whether the file was analysed as a dependency before it was asked about itself - the listed finding
        #  forward-method-in-chain - and the model fixes that order)
        return Case(self.files, list(self.queries), self.ws, self.table, opened)


def gen_case(rng, kinds):
    ws = Gen(rng).gen_workspace()
    rd = Renderer(rng, ws, kinds)
    case = rd.run()
    return case, rd.hist


# =============================================================================================
# hand-written workspaces: the witnesses of the deviations (also the Coq *_refuted witnesses) and regressions
# =============================================================================================
def mk(kind, name, parent=None, uses=(), members=(), methods=()):
    ms, tag = [], 0
    for (k, n, t) in members:
        tag += 1
        ms.append(Member(k, n, t, tag))
    mes = []
    for (n, ps, ls) in methods:
        pv, lv = [], []
        for (vn, vt) in ps:
            tag += 1
            pv.append(Var(vn, vt, tag))
        for (vn, vt) in ls:
            tag += 1
            lv.append(Var(vn, vt, tag))
        mes.append(Method(n, pv, lv))
    return Entity(kind, name, parent, list(uses), ms, mes)


class Hand(Renderer):
    """renders a workspace whose method bodies are given: bodies[(entity, method)] = [statement]; statement =
    ("chain", items) | ("assign", items, items) | ("dangling", items)"""
    def __init__(self, ws, bodies, kinds):
        Renderer.__init__(self, random.Random(0), ws, kinds)
        self.bodies = bodies

    def ident_queries(self, stem, line, col, name, qu):
        self.q("D", stem, line, col, qu)

    def body(self, stem, e, me, lines):
        c, m = e.name, me.name
        for st in self.bodies.get((c, m), []):
            if st[0] == "chain":
                lines.append(self.chain0(stem, c, m, lines, "  ", st[1], True))
            elif st[0] == "assign":
                cur = self.chain0(stem, c, m, lines, "  ", st[1], True) + " = "
                lines.append(self.chain0(stem, c, m, lines, cur, st[2], False))
            else:
                lines.append(self.chain0(stem, c, m, lines, "  ", st[1], True, True))

    def chain0(self, stem, c, m, lines, cur, items, start, dangling=False):
        ctx = "%s~%s" % (c, m or "-")
        for i, (name, call) in enumerate(items):
            col, line = len(cur), len(lines)
            if i == 0:
                self.q("D", stem, line, col, "P~%s~%s" % (ctx, name))
                if start:
                    self.q("C", stem, line, col, "L~%s" % ctx)
            else:
                pre = show_items(items[:i])
                self.q("D", stem, line, col, "M~%s~%s~%s" % (ctx, pre, name))
                self.q("C", stem, line, col, "X~%s~%s" % (ctx, pre))
            cur += name + ("()" if call else "") + ("." if i + 1 < len(items) else "")
        if dangling:
            cur += "."
            self.q("C", stem, len(lines), len(cur), "X~%s~%s" % (ctx, show_items(items)))
        return cur


def hand_case(ws, bodies, kinds):
    h = Hand(ws, bodies, kinds)
    # deterministic rendering: no blank lines / modifiers
    h.r = _NoRandom()
    return h.run()


class _NoRandom:
    def random(self):
        return 0.99

    def choice(self, l):
        return l[0]

    def randint(self, a, b):
        return a

    def randrange(self, n):
        return 0


I = lambda *names: [(n[:-2], True) if n.endswith("()") else (n, False) for n in names]


def witness_workspaces(pid="C10"):
    """class -> (workspace, bodies): the smallest workspaces on which /repo deviates from the wording"""
    w = {}
    # the three-class workspace of the Coq examples: aBase <- aMid <- aLeaf, aMid overrides Fa and shadows cA
    base = lambda: mk("c", "aBase", None, (), [("c", "cA", None), ("f", "Fa", ("n", "int4")), ("f", "Link", ("r", "aLeaf")), ("p", "Run", None)],
                      [("Run", [], [])])
    mid = lambda: mk("c", "aMid", "aBase", (), [("f", "FA", ("n", "cstring")), ("f", "cA", ("n", "int4")), ("u", "Ga", ("n", "aBase"))],
                     [("Ga", [("p1", ("n", "int4"))], [])])
    w[DEV_USES] = ([mk("c", "aUser", None, ("aLib",), [("p", "Run", None)], [("Run", [], [])]),
                    mk("c", "aLib", None, (), [("c", "cLib", None), ("f", "LibField", ("n", "int4"))], [])],
                   {("aUser", "Run"): [("assign", I("LibField"), I("cLib"))]})
    if pid == "C11":
        # the declared type of f is a type of an ANCESTOR of the used entity: by the wording not visible, so `f.` has no type
        w[DEV_USES] = ([mk("c", "aUser", None, ("aLib",), [("p", "Run", None)], [("Run", [], [("f", ("n", "tBase"))])]),
                        mk("c", "aLib", "aLibBase", (), [], []),
                        mk("c", "aLibBase", None, (), [("t", "tBase", ("n", "aUser"))], [])],
                       {("aUser", "Run"): [("dangling", I("f"))]})
    w[FIX_OWN] = ([base(), mid(),
                   mk("c", "aLeaf", "aMid", (), [("f", "Fb", ("n", "int4")), ("p", "Run", None)], [("Run", [("Fa", ("n", "int4"))], [("Fb", ("n", "aBase"))])])],
                  {("aLeaf", "Run"): [("chain", I("self", "Fa")), ("chain", I("self", "Fb")), ("dangling", I("self"))]})
    w[DEV_FWD] = ([mk("c", "aNode", None, (), [("f", "Val", ("n", "int4")), ("p", "First", None), ("u", "Later", ("n", "aNode")), ("p", "Last", None)],
                      [("First", [], []), ("Later", [], []), ("Last", [], [])])],
                  {("aNode", "First"): [("chain", I("self", "Later", "Val")), ("dangling", I("self", "Later"))],
                   ("aNode", "Last"): [("chain", I("self", "Later", "Val")), ("dangling", I("self", "Later"))]})
    w[FIX_MODCALL] = ([mk("c", "aUser", None, ("aModUtil",), [("p", "Run", None)], [("Run", [], [])]),
                       mk("m", "aModUtil", None, (), [("u", "Make", ("n", "aUser"))], [("Make", [], [])])],
                      {("aUser", "Run"): [("chain", I("aModUtil", "Make", "Run")), ("chain", I("aModUtil", "Make()", "Run")),
                                          ("dangling", I("aModUtil", "Make()"))]})
    w[FIX_DECLNAME] = ([mk("c", "aDecl", None, (), [("c", "cA", None), ("t", "tA", ("n", "int4")), ("f", "Fa", ("n", "int4"))], [])], {})
    w[FIX_RET] = ([mk("c", "aUser", None, ("aLib",), [("u", "Make", ("n", "tLib"))], [("Make", [], [])]),
                   mk("c", "aLib", None, (), [("t", "tLib", ("n", "int4"))], [])], {})
    return w


def witness_case(cls, kinds):
    ws, bodies = witness_workspaces("C11" if kinds == "C" else "C10")[cls]
    return hand_case(ws, bodies, kinds)


def replay_witnesses(ctx, pid, kinds):
    """every LISTED finding must still reproduce on its witness: the implementation's answers on the witness fail the
    statement and match the statement with that deviation"""
    hb = diff.Engines.harness()
    for f in ctx.open_findings():
        cls = f.get("class")
        if cls not in DEVS_OF[pid]:
            continue
        case = witness_case(cls, kinds)
        out = canon(core.run_lines(hb, "sem", [case.line()], shards=1)[0])
        ideal = set(i for i, _ in check_case(case, out))
        with_dev = set(i for i, _ in check_case(case, out, frozenset([cls])))
        if not (ideal - with_dev):
            path = core.write_replay(ctx.pid, ctx.seed, {"broken": "known finding %s no longer reproduces on its witness" % f.get("id"),
                                                          "case": case.line(), "case_readable": describe(case.line()), "observed": out})
            raise core.Violation("listed finding does not reproduce", path, False)
        ctx.known("%s: %s reproduces on its witness" % (f.get("id"), cls))


def replay_regressions(ctx, pid, kinds):
    """the witnesses of the repaired defects must satisfy the statement itself (no deviation allowed)"""
    hb = diff.Engines.harness()
    for cls in REGRESSIONS[pid]:
        case = witness_case(cls, kinds)
        out = canon(core.run_lines(hb, "sem", [case.line()], shards=1)[0])
        bad = check_case(case, out)
        if bad:
            path = core.write_replay(ctx.pid, ctx.seed, {"engine": "sem", "case": case.line(), "case_readable": describe(case.line()),
                                                          "observed": out, "expected": bad[0][1],
                                                          "note": "regression case of the repaired defect `%s` (known_findings.json fixed)" % cls})
            raise core.Violation(bad[0][1], path, True)


# =============================================================================================
# metamorphic stage: re-casing the REFERENCES stored in a workspace (Proofs/ScopingRecase.v: ws_sim)
# =============================================================================================
import copy


def recase_word(rng, w):
    k = rng.randrange(3)
    v = w.swapcase() if k == 0 else (w.upper() if k == 1 else w.lower())
    return v if v != w else w.swapcase()


def recase_refs(rng, ws, p=0.8):
    """a copy of the workspace whose parent classes, `uses` lists and declared type names (members, parameters, locals)
    are written in another letter case; every declaration stays as written"""
    ws2 = copy.deepcopy(ws)
    rc = lambda w: recase_word(rng, w) if rng.random() < p else w
    rt = lambda t: None if t is None else (t[0], rc(t[1]))
    for e in ws2:
        if e.parent:
            e.parent = rc(e.parent)
        e.uses = [rc(u) for u in e.uses]
        for d in e.members:
            d.type = rt(d.type)
        for me in e.methods:
            for v in me.params + me.locals:
                v.type = rt(v.type)
    return ws2


def alias_pair_workspace(recased):
    """the pair of Proofs/ScopingRecaseWitness.v (w_alias / w_alias_recased) with bodies"""
    c = (lambda x: x.swapcase()) if recased else (lambda x: x)
    ws = [mk("c", "aBase", None, (), [("t", "tRef", ("r", c("aLeaf"))), ("f", "Link", ("n", c("tRef"))), ("f", "Items", ("l", c("aLeaf"))),
                                      ("u", "Ga", ("n", c("aBase"))), ("p", "Run", None)], [("Ga", [], []), ("Run", [], [])]),
          mk("c", "aLeaf", c("aBase"), (c("aLib"),), [("f", "Fb", ("n", c("int4"))), ("p", "Go", None)],
             [("Go", [("p", ("n", c("tLib")))], [("x", ("n", c("tRef"))), ("l", ("r", c("aLeaf")))])]),
          mk("c", "aLib", None, (), [("t", "tLib", ("n", c("aBase")))], [])]
    bodies = {("aLeaf", "Go"): [("chain", I("x", "Link", "fb")), ("chain", I("p", "ga()", "LINK")), ("chain", I("l", "Items", "Zz")),
                                ("assign", I("self", "Link", "Link"), I("tLib")), ("dangling", I("p", "ga()"))]}
    return ws, bodies


def recase_pairs(ctx, kinds):
    """[(original line, re-cased line)]: same declarations, same bodies, same positions, same queries"""
    pairs = []
    a, b = [hand_case(*alias_pair_workspace(v), kinds) for v in (False, True)]
    pairs.append((a, b))
    rng = random.Random(ctx.seed * 7919 + 17)
    n = 40 if ctx.quick else 500
    while len(pairs) < n + 1:
        seed = rng.randrange(1 << 30)
        ws = Gen(random.Random(seed)).gen_workspace()
        ws2 = recase_refs(random.Random(seed + 1), ws)
        a = Renderer(random.Random(seed + 2), ws, kinds).run()
        b = Renderer(random.Random(seed + 2), ws2, kinds).run()
        pairs.append((a, b))
    for a, b in pairs:
        same = ([q[:4] for q in a.queries] == [q[:4] for q in b.queries] and a.table == b.table and a.opened == b.opened
                and [(s, t.upper()) for s, t in a.files] == [(s, t.upper()) for s, t in b.files])
        if not same:
            raise RuntimeError("re-casing the references changed the rendering (generator defect)")
    return [(a.line(), b.line()) for a, b in pairs]


def recase_stage(ctx, pid, kinds):
    """both variants through both engines: the implementation must answer the two variants identically (the property on
    the real code), so must the model (Cxx_workspace_recase), and model and implementation must agree on both"""
    pairs = recase_pairs(ctx, kinds)
    lines = [l for p in pairs for l in p]
    hb, mb = diff.Engines.harness(), diff.Engines.model()
    impl = [canon(x) for x in core.run_lines(hb, "sem", lines)]
    mod = [canon(x) for x in core.run_lines(mb, "sem", lines)]
    differing = 0
    for k, (la, lb) in enumerate(pairs):
        ia, ib, ma, mb_ = impl[2 * k], impl[2 * k + 1], mod[2 * k], mod[2 * k + 1]
        if la != lb:
            differing += 1
        what = None
        if ia != ib:
            what, found = "the implementation answers differently when only the letter case of stored references changes", True
        elif ma != mb_:
            what, found = "theorem %s_workspace_recase does not describe the extracted model any more" % pid, False
        elif ia != ma or ib != mb_:
            what, found = "correspondence sem: model and implementation disagree on a re-cased pair", False
        if what:
            qa = Case.parse(la).queries
            first = next((i for i, (x, y) in enumerate(zip(ia.split(";"), ib.split(";"))) if x != y), None) if ia != ib else None
            path = core.write_replay(ctx.pid, ctx.seed, {
                "engine": "sem", "case": lb, "case_original": la, "case_readable": describe(lb), "original_readable": describe(la),
                "observed": ib, "observed_original": ia, "model": mb_, "model_original": ma, "expected": what,
                "first_differing_query": None if first is None else "%s %s.god %d:%d %s" % qa[first]})
            raise core.Violation(what, path, found)
    return {"recase_pairs": len(pairs), "recase_pairs_with_a_recased_reference": differing,
            "recase_requests": sum(len(Case.parse(a).queries) for a, _ in pairs),
            "recase_rule": "pairs (workspace, same workspace with parent classes / uses / declared type names of members, parameters "
                           "and locals in another letter case, declarations and bodies untouched), rendered at identical "
                           "positions; implementation(A) = implementation(B) = model(A) = model(B) on every request"}


def gen_cases(ctx, kinds):
    rng = random.Random(ctx.seed)
    n = 240 if ctx.quick else 5000
    cases, hist = [], {}
    pid = "C10" if kinds == "D" else "C11"
    for cls in DEVS_OF[pid] + REGRESSIONS[pid]:
        cases.append(witness_case(cls, kinds).line())
    for _ in range(n):
        case, h = gen_case(rng, kinds)
        for k, v in h.items():
            hist[k] = hist.get(k, 0) + v
        cases.append(case.line())
    return cases, hist


def replay(ctx, rep, pid):
    line = rep["case"]
    hb = diff.Engines.harness()
    if rep.get("case_original"):
        outs = [canon(x) for x in core.run_lines(hb, "sem", [rep["case_original"], line], shards=1)]
        for tag, l in (("original", rep["case_original"]), ("re-cased", line)):
            for f, t in describe(l)["files"].items():
                print("--- %s (%s)" % (f, tag))
                print(t)
        print("implementation, original :", outs[0][:1500])
        print("implementation, re-cased :", outs[1][:1500])
        if outs[0] != outs[1]:
            print("VIOLATION property=%s replay=%s" % (pid, rep.get("how_to_rerun", "").split()[-1]))
            return 1
        print("the two variants are answered identically")
        return 0
    out = canon(core.run_lines(hb, "sem", [line], shards=1)[0])
    case = Case.parse(line)
    bad = check_case(case, out)
    d = describe(line)
    for f, t in d["files"].items():
        print("---", f)
        print(t)
    for q in d["queries"]:
        print("query:", q)
    print("implementation:", out[:2000])
    print("oracle:", bad[0][1] if bad else "property holds on this case")
    if bad:
        k = make_known(ctx)(line, out, None)
        if k:
            print("KNOWN-FINDING: property=%s %s" % (pid, k))
            return 0
        print("VIOLATION property=%s replay=%s" % (pid, rep.get("how_to_rerun", "").split()[-1]))
        return 1
    return 0
