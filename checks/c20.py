"""C20  The worker pool runs every job exactly once and drains before it is dropped."""
import collections, random
from concurrent.futures import ThreadPoolExecutor
from vlib import core, diff

MANIFEST = dict(
    engine="E-pool",
    technique=("Coq proof: inductive invariant over all reachable states of a small-step model of ThreadPool/Worker/Drop "
               "(any number of workers, any event sequence): conservation of jobs, lock discipline, Drop drains and cannot "
               "deadlock, free workers can be filled with no job finishing; the extracted trace monitor (proved to accept "
               "every behaviour of the model) validates the event log of every scenario run against the real ThreadPool; "
               "rendezvous scenarios witness real parallel execution"),
    text=("Theorems over the Gallina model of src/threadpool.rs for every n>0 and every reachable state: queued+held+running+"
          "finished = submitted as multisets with distinct ids and no job entered twice (exactly once); the receiver lock is "
          "never held by a worker inside a job, is exclusive, and from any open state with r<n running and j queued jobs "
          "min(n,r+j) jobs can be running without any finish (a long job holds up nobody); when Drop has returned every "
          "submitted job has finished and every worker has stopped, Drop always has a continuation that returns and no "
          "schedule of the workers can run for ever or get stuck. The model is tied to /repo by running instrumented jobs "
          "(instant / sleeping / rendezvous of m<=n jobs) on the real ThreadPool for pool sizes 1..8, 0..200 jobs, the drop "
          "issued at any point of the submission sequence, under random submission timing: each logged trace must be accepted "
          "by the extracted monitor trace_ok and by an independent Python oracle, every rendezvous must be reached, nothing may "
          "hang or panic, and every worker thread that ran a job must have exited when drop returns."),
    note=("Trusted: Coq kernel, extraction (ExtrOcamlBasic), harness. Real parallel execution is witnessed by rendezvous "
          "scenarios, not proved; OS scheduling is sampled; std::sync::mpsc FIFO and Mutex semantics are assumed; jobs do not panic."),
    design="6 C20",
    engines=[dict(name="E-pool", path="harness/src/eng_pool.rs + coq/extract/eng_pool.ml",
                  kind_free_text="trace validation: event log of the real ThreadPool under instrumented jobs, checked by the extracted Coq trace monitor and a Python oracle; rendezvous scenarios must complete")],
)

MANIFEST["text"] += ' Fourth session: scenarios in which the pool is dropped by the unwinding of its panicking owner thread.'

ASSUMPTIONS = [
    "real parallel execution (as many jobs as workers at the same time) is WITNESSED by rendezvous scenarios that can only complete when m jobs are inside their closure simultaneously; it is not proved (the model proves that such states are reachable and that no lock is held while a job runs)",
    "OS scheduling is sampled, not enumerated: each scenario is one (quick) or several (thorough) runs under randomised submission timing; the theorems quantify over all interleavings of the model's steps",
    "std::sync::mpsc::channel is FIFO, recv() returns the oldest message and blocks while the channel is empty; std::sync::Mutex gives mutual exclusion; JoinHandle::join returns after the thread (including its thread-local destructors) has terminated",
    "the MutexGuard temporary of `receiver.lock().unwrap().recv().unwrap()` is dropped at the end of that let statement (Rust temporary-lifetime rule), which is what the model's ERelease step before EStart states",
    "jobs do not panic (a panicking job kills its worker thread and makes Drop panic on join().unwrap(): outside this property's quantifier, reproducible with job kind `p` of the harness)",
    "job ids label distinct closures: a closure is FnOnce and moved into the channel, so one closure is submitted at most once",
    "the log orders events by the instant they take the log's mutex: Submit is logged before execute() is called, Start/Finish are the first/last thing the closure does, DropBegin/DropEnd bracket drop(pool)",
]

KINDS = ("instant", "sleep", "barrier", "barrier_all", "mixed")


# ---------------------------------------------------------------------------------------------
# scenarios
# ---------------------------------------------------------------------------------------------

def mk_case(n, d, pace, jobs, unwind=False):
    # ;u = the pool is dropped by the unwinding of its (panicking) owner thread instead of an ordinary drop
    return "%d;%d;%d;%s%s" % (n, d, pace, ",".join(jobs), ";u" if unwind else "")


def parse_case(case):
    n, d, pace, jobs = case.split(";", 3)
    jobs = jobs.split(";")[0]
    return int(n), int(d), int(pace), [j for j in jobs.split(",") if j]


def is_unwind(case):
    return case.endswith(";u")


def gen_jobs(rng, n, total, d, kind):
    """total jobs of which the first d are submitted.  Rendezvous groups lie entirely inside the
    submitted prefix, have m <= n members and are not interleaved with one another (so that FIFO
    reception guarantees they can complete on a correct pool)."""
    jobs = []
    if kind == "instant":
        jobs = ["i"] * total
    elif kind == "sleep":
        budget = 30 * n            # ms of sleep per scenario: ~30 ms of wall time on n workers
        p = min(1.0, 12.0 * n / max(total, 1))
        for _ in range(total):
            if budget > 0 and rng.random() < p:
                ms = rng.randint(1, 5)
                budget -= ms
                jobs.append("s%d" % ms)
            else:
                jobs.append("i")
    else:
        g = 0
        budget = 20 * n
        while len(jobs) < d:
            room = d - len(jobs)
            if rng.random() < 0.55:
                m = n if kind == "barrier_all" else rng.randint(1, n)
                m = min(m, room)
                seg = ["b%d:%d" % (g, m)] * m
                g += 1
                if kind == "mixed":
                    for _ in range(min(room - m, rng.randint(0, 2))):
                        seg.insert(rng.randint(0, len(seg)), "i")
                jobs += seg
            else:
                if kind == "mixed" and budget > 0 and rng.random() < 0.4:
                    ms = rng.randint(1, 3)
                    budget -= ms
                    jobs.append("s%d" % ms)
                else:
                    jobs.append("i")
        jobs += ["i"] * (total - len(jobs))
    return jobs


def gen_cases(ctx):
    rng = random.Random(ctx.seed)
    probe, cases, hist = [], [], collections.Counter()

    def add(lst, n, total, d, kind, pace, unwind=False):
        jobs = gen_jobs(rng, n, total, d, kind)
        lst.append(mk_case(n, d, pace, jobs, unwind))
        hist["dropped-by=" + ("unwinding-owner" if unwind else "drop")] += 1
        hist["kind=" + kind] += 1
        hist["n=%d" % n] += 1
        hist["drop=" + ("none-submitted" if d == 0 else "after-all" if d == total else "middle")] += 1
        hist["jobs=" + ("0" if total == 0 else "1-10" if total <= 10 else "11-60" if total <= 60 else "61-200")] += 1
        hist["pace=" + ("back-to-back" if pace == 0 else "random")] += 1

    # probe wave: one cheap scenario of each decisive shape per pool size (a systematically broken
    # pool is reported after this wave instead of after hundreds of watchdog timeouts)
    for n in range(1, 9):
        add(probe, n, 2 * n + 2, 2 * n + 2, "barrier_all", 0)
        add(probe, n, 3 * n, n + 1, "sleep", 0)
        add(probe, n, 3 * n + 2, 3 * n + 2, "sleep", 0, unwind=True)
    # systematic part
    reps = 1 if ctx.quick else 6
    for rep in range(reps):
        for n in range(1, 9):
            for pace in (0, rng.randint(1, 1 << 30)):
                add(cases, n, 0, 0, "instant", pace)
                add(cases, n, 3 * n, 3 * n, "instant", pace)
                add(cases, n, 2 * n + 2, 2 * n + 2, "barrier_all", pace)
                add(cases, n, 2 * n + 1, 2 * n + 1, "sleep", pace)
                add(cases, n, 3 * n + 2, rng.randint(1, 3 * n + 1), "sleep", pace)
                add(cases, n, 3 * n + 2, rng.randint(1, 3 * n + 2), "mixed", pace)
                add(cases, n, 3 * n + 2, rng.randint(n + 1, 3 * n + 2), "sleep", pace, unwind=True)
            add(cases, n, 200, 200, "instant", rng.randint(1, 1 << 30))
            add(cases, n, 200, rng.randint(0, 200), "sleep", rng.randint(0, 1) * rng.randint(1, 1 << 30))
            add(cases, n, 200, rng.randint(100, 200), "mixed", rng.randint(1, 1 << 30))
    # random part
    nrand = 264 if ctx.quick else 24000
    for _ in range(nrand):
        n = rng.randint(1, 8)
        r = rng.random()
        total = rng.randint(0, 10) if r < 0.45 else rng.randint(11, 60) if r < 0.9 else rng.randint(61, 200)
        r = rng.random()
        d = total if r < 0.4 else 0 if r < 0.45 else rng.randint(0, total)
        kind = rng.choice(KINDS)
        pace = 0 if rng.random() < 0.3 else rng.randint(1, 1 << 30)
        add(cases, n, total, d, kind, pace, unwind=rng.random() < 0.2)
    return probe, cases, hist


# ---------------------------------------------------------------------------------------------
# the property's own statement, evaluated on the implementation's log alone
# ---------------------------------------------------------------------------------------------

def split_out(out):
    log, _, x = out.partition(";x=")
    return [e for e in log.split(",") if e], x


def oracle(case, out, stats=None):
    n, d, _pace, jobs = parse_case(case)
    if out.startswith("HANG"):
        return "the pool hung (scenario not finished within the watchdog deadline): drop or a job never returned; partial log: " + out[5:300]
    if out.startswith("PANIC") or out == "CRASH":
        return "the pool panicked: " + out[:300]
    if out.startswith("BTIMEOUT"):
        return "a rendezvous of m <= pool size jobs was never reached: the jobs did not run at the same time (a long job held up the others)"
    events, x = split_out(out)
    state = {}           # job -> 'sub' | ('run', w) | 'fin'
    running = {}         # worker -> job
    begun = ended = False
    next_sub = 0
    start_at, fin_at = {}, {}
    maxconc = 0
    for idx, e in enumerate(events):
        if ended:
            return "event %s after drop returned" % e
        k = e[0]
        if k == "S":
            j = int(e[1:])
            if begun:
                return "submission after drop began"
            if j != next_sub or j >= d:
                return "unexpected submission %s" % e
            next_sub += 1
            state[j] = "sub"
        elif k == "B":
            w, j = map(int, e[1:].split(":"))
            if state.get(j) != "sub":
                return "job %d started %s" % (j, "twice" if j in state else "without having been submitted")
            if w in running:
                return "worker %d starts job %d while running job %d" % (w, j, running[w])
            if w >= n:
                return "more than %d distinct worker threads" % n
            running[w] = j
            state[j] = ("run", w)
            start_at[j] = idx
            if len(running) > n:
                return "more than %d jobs running" % n
            maxconc = max(maxconc, len(running))
        elif k == "F":
            w, j = map(int, e[1:].split(":"))
            if state.get(j) != ("run", w):
                return "finish %s does not match a running job" % e
            del running[w]
            state[j] = "fin"
            fin_at[j] = idx
        elif k == "D":
            if begun:
                return "drop began twice"
            if next_sub != d:
                return "drop began after %d of %d submissions" % (next_sub, d)
            begun = True
        elif k == "E":
            if not begun:
                return "drop returned before it began"
            ended = True
            lost = [j for j in range(d) if state.get(j) == "sub"]
            unfinished = [j for j in range(d) if isinstance(state.get(j), tuple)]
            if lost:
                return "drop returned but submitted job(s) %s were never executed" % lost[:5]
            if unfinished:
                return "drop returned while job(s) %s were still running" % unfinished[:5]
        else:
            return "unparsable event %r" % e
    if not ended:
        return "log does not end with drop returning"
    try:
        ex, seen = map(int, x.split("/"))
    except Exception:
        return "missing worker-exit count"
    if seen > n:
        return "more than %d worker threads ran jobs" % n
    if ex != seen:
        return "drop returned while %d of %d worker threads that ran jobs had not exited" % (seen - ex, seen)
    # rendezvous groups: all members inside their closure at the same time
    groups = collections.defaultdict(list)
    for j, kind in enumerate(jobs[:d]):
        if kind[0] == "b":
            groups[kind].append(j)
    for kind, members in groups.items():
        m = int(kind.split(":")[1])
        if len(members) != m:
            return "malformed scenario: group %s has %d submitted members" % (kind, len(members))
        if max(start_at[j] for j in members) > min(fin_at[j] for j in members):
            return "rendezvous %s completed although its jobs never overlapped (log inconsistent)" % kind
    if stats is not None:
        stats["maxconc=%d" % maxconc] += 1
        if maxconc == n and n >= 2:
            stats["all_workers_busy_at_once"] += 1
        order = [int(e[1:].split(":")[1]) for e in events if e[0] == "B"]
        if order != sorted(order):
            stats["start_order_differs_from_submission_order"] += 1
    return None


def nontrivial(case):
    n, d, _p, jobs = parse_case(case)
    return (d >= 2 and n >= 2) or any(j[0] == "b" for j in jobs[:d])


def describe(case):
    n, d, pace, jobs = parse_case(case)
    return "pool of %d workers; %d jobs of which the first %d are submitted, then the pool is dropped%s; pacing seed %d; jobs: %s" % (
        n, len(jobs), d, " by the unwinding of its panicking owner thread" if is_unwind(case) else "", pace, ",".join(jobs)[:400])


# ---------------------------------------------------------------------------------------------
# orchestration
# ---------------------------------------------------------------------------------------------

def run_impl(hb, cases, procs):
    if not cases:
        return []
    procs = max(1, min(procs, len(cases)))
    chunks = [cases[i::procs] for i in range(procs)]
    with ThreadPoolExecutor(max_workers=procs) as ex:
        outs = list(ex.map(lambda ch: core.run_lines(hb, "pool", ch, shards=1, timeout=3000), chunks))
    res = [None] * len(cases)
    for i, o in enumerate(outs):
        for k, v in enumerate(o):
            res[i + k * procs] = v
    return res


def run_model(mb, cases, outs):
    idx, lines = [], []
    for i, (c, o) in enumerate(zip(cases, outs)):
        if o.startswith(("HANG", "PANIC", "BTIMEOUT")) or o == "CRASH":
            continue
        idx.append(i)
        lines.append("%s;%s" % (c.split(";", 1)[0], o.partition(";x=")[0]))
    res = [None] * len(cases)
    for i, r in zip(idx, core.run_lines(mb, "pool", lines)):
        res[i] = r
    return res


def judge(cases, outs, mods, stats):
    """-> list of (case, impl_out, model_out, reason)"""
    bad = []
    for c, o, m in zip(cases, outs, mods):
        r = oracle(c, o, stats)
        if r is None and m != "OK":
            r = "the logged trace is not a behaviour of the pool model: trace_ok says %s (event #%s of the log)" % (
                m, m.split()[-1] if m else "?")
        if r is not None:
            bad.append((c, o, m, r))
    return bad


def correspondence(ctx, broken_obligations=()):
    import time
    t0 = time.time()
    hb = diff.Engines.harness()
    mb = diff.Engines.model()
    probe, cases, hist = gen_cases(ctx)
    stats = collections.Counter()
    procs = min(8, core.NCPU)
    done_cases, done_outs, done_mods = [], [], []

    def cov():
        allc = done_cases
        samples = []
        for i in (0, len(allc) // 3, len(allc) - 1):
            if 0 <= i < len(allc):
                samples.append({"scenario": allc[i][:300], "log": done_outs[i][:300], "model": done_mods[i]})
        return {
            "programs": len(allc), "evaluations": len(allc),
            "distinct_nontrivial": len(set(c for c in allc if nontrivial(c))),
            "disagreements_checked": sum(1 for m in done_mods if m is not None and m != "OK"),
            "traces_validated_by_model": sum(1 for m in done_mods if m == "OK"),
            "engine": "pool", "diff_wall_s": round(time.time() - t0, 2),
            "rule": ("scenario = pool size n in 1..8 x job list of 0..200 jobs (instant / sleeping 1-5 ms / rendezvous groups of "
                     "m<=n jobs that block until all m are inside their closure) x drop issued after the first d submissions, d "
                     "anywhere in 0..len x pacing seed (0 = back to back, else random yields/spins/50-300us sleeps between "
                     "submissions); per pool size a systematic set (empty, 3n instant, rendezvous of all n workers, sleeping with "
                     "drop at the end and in the middle, mixed, 200 jobs) plus random scenarios; each run on the real ThreadPool, "
                     "log fed to the extracted trace_ok and to the Python oracle; non-trivial = distinct scenario with (>=2 "
                     "submitted jobs and >=2 workers) or a rendezvous"),
            "samples": samples,
            "scenario_histogram": dict(sorted(hist.items())),
            "observed": dict(sorted(stats.items())),
        }

    for wave in (probe, cases):
        outs = run_impl(hb, wave, 16 if wave is probe else procs)
        mods = run_model(mb, wave, outs)
        done_cases += wave
        done_outs += outs
        done_mods += mods
        bad = judge(wave, outs, mods, stats)
        if bad:
            c, o, m, r = min(bad, key=lambda t: (t[1].startswith("HANG"), len(t[0])))
            path = core.write_replay(ctx.pid, ctx.seed, {
                "engine": "pool", "case": c, "case_readable": describe(c), "observed": o, "model": m,
                "expected": r, "n_failing_cases": len(bad),
                "other_failures": [{"case": b[0][:200], "why": b[3][:200]} for b in bad[1:6]]})
            v = core.Violation(r, path, True)
            v.coverage = cov()
            raise v
    return cov()


def replay(ctx, rep):
    case = rep["case"]
    hb = diff.Engines.harness()
    mb = diff.Engines.model()
    worst = None
    print("case:", case)
    print(describe(case))
    for i in range(5):      # timing dependent: a few runs
        out = core.run_lines(hb, "pool", [case], shards=1)[0]
        mod = run_model(mb, [case], [out])[0]
        bad = judge([case], [out], [mod], None)
        print("run %d implementation: %s" % (i, out[:400]))
        print("run %d model: %s  oracle: %s" % (i, mod, bad[0][3] if bad else "property holds on this log"))
        if bad:
            worst = bad[0]
            break
    if worst:
        print("VIOLATION property=C20 replay=%s" % rep.get("how_to_rerun", "").split()[-1])
        return 1
    return 0
