"""C16  Rule-based warnings match their stated rules."""
import itertools, os, random, re, shutil, tempfile
from vlib import core, diff

MANIFEST = dict(
    engine="E-lints",
    technique="Coq proof: the four checker models flag exactly the declarations that satisfy the declarative rule predicates "
              "(list equality, each once) for ALL trees whose root is not itself a function; the inherited and the purge rule "
              "are unguarded exact characterisations (both checkers decide a method on the method node's own subtree); "
              "unguarded locality / permutation / idempotence theorems; the checker steps as they were before the repair of "
              "D15-D19 kept as regression theorems; tied to the code by a two-phase differential run through the public "
              "diagnostic request",
    text=("Theorems over Gallina models (on the dumped syntax tree) of FunctionReturnTypeChecker in the v1 AstWalker and of "
          "UnpurgedVarByteArrayChecker, NamingConventionChecker, InheritedChecker in the v2 pre-order annotated walker: "
          "inherited_lint file = flat_map spec_inh (methods file) and unpurged_lint file = flat_map spec_purge (methods file) for "
          "EVERY tree (R3: a method named Init/Terminate/NotifyInit/NotifyTerminate is flagged iff no node below it is a `pass` "
          "token or `inherited` applied to <self>.<its name, identifier or call>, receiver / dot operator / name all checked, "
          "case ignored; R4: one diagnostic per local tVarByteArray DECLARATION with no call Purge(<plain identifier equal to "
          "the name ignoring case>) anywhere below the method node); lints file = lints_spec file = one diagnostic per "
          "declaration satisfying R_ret / R_inh / R_purge / R_name under the single structural hypothesis RootNotFunction "
          "(the v1 walker does not visit the root; the parser's root is an AstRoot); NoNestedMethods (a parser-shape fact) is "
          "needed only to read `its method` as the unique method of a declaration; the report of a file is the union of "
          "decl_verdicts over its top-level declarations (a function of each declaration's subtree), removing / adding a "
          "declaration changes it by that declaration's list, permuting the declarations permutes it, any number of repeated "
          "requests return the same list -- all without guard. Regression theorems C16_old_*_refuted: the checker steps before "
          "the repair (streaming flag / map flushed at the next method node) falsify the statement on the real-parser dumps of "
          "inherited other.Init / x.y.Init / (a + Init), a duplicate local, Purge before the declaration, Purge('v') / "
          "Purge(v(1)) / Purge(v[1]), a `pass` terminal in the declaration following Init (and permutation invariance). "
          "Tie: generated Gold programs (every trigger and near-miss toggled independently, method permutations, malformed "
          "stream) written to a temp workspace, ProjectManager::generate_document_diagnostic_report twice; the dumped tree is fed "
          "to the extracted model; observations (sorted class:severity:range:key lists + idempotence flag) must be equal; an "
          "independent oracle computes the expected verdicts from the TEXT by the property statement; the witnesses of the "
          "seven repaired defects run first as a regression corpus and must satisfy the property with no deviation."),
    note="Trusted: Coq kernel, translators T1/T5, extraction, harness (tree dump + message classification), the line-oriented "
         "oracle of checks/c16.py. Identifiers ASCII; str::to_uppercase modelled as ASCII upper-casing plus the ten non-ASCII "
         "scalars whose upper-casing is ASCII where token values are compared (pass, self, the method name). Unused-variable, "
         "parser and annotator diagnostics belong to other properties and are dropped by the canonicaliser. No deviation is "
         "tolerated: the findings D15-D19 (inherited-any-receiver, purge-dup-local, purge-before-decl, purge-literal-arg, "
         "inherited-leak-next-decl) are repaired in /repo by tools/c16_proposed_fix.diff; against a tree without that repair "
         "the regression corpus reports them as VIOLATIONs.",
    design="6 C16",
    engines=[dict(name="E-lints", path="harness/src/eng_lints.rs + coq/extract/eng_lints.ml",
                  kind_free_text="two-phase differential: real diagnostic report (requested twice) through ProjectManager on a temp "
                                 "workspace + tree dump vs extracted Coq lint models on that tree"),
             dict(name="E-report", path="harness/src/eng_report.rs + coq/extract/eng_report.ml",
                  kind_free_text="two-phase differential on the ASSEMBLED response: generate_document_diagnostic_report twice on one "
                                 "manager, the document's parser diagnostics, the five real checkers driven one by one vs the extracted "
                                 "Report.request on the dumped tree + parser diagnostics; items compared in order (range, severity, source, "
                                 "tags, full message text); oracle on the implementation's output alone"),
             dict(name="E-reportranges", path="coq/extract/eng_reportranges.ml",
                  kind_free_text="model-only: the two range hypotheses of C16_response_in_range_partial evaluated by the extracted "
                                 "contrib / in_range_of / report on every dumped tree of the report stage")],
)

ASSUMPTIONS = [
    "assembled response (Model/Report.v, C16_response_* / C15_response_*): the items are compared IN ORDER except that every maximal "
    "run of consecutive `Unused var` warnings is compared as a multiset (UnusedVarAnalyzer::check_unused_vars iterates a HashMap: the "
    "order of ONE method's warnings is unspecified; the model lists them in declaration order); parser diagnostics, `Var name already "
    "declared` errors, the return-type list and the shared collector of the three annotated-tree checkers (per node of the pre-order "
    "walk: unpurged, naming, inherited) are order-exact; lsp_types::Diagnostic fields code / code_description / related_information / "
    "data are None in every producer and not compared; the parser diagnostics are an input of the model (dumped from the document)",
    "C16_response_in_range_partial assumes that the items about a top-level declaration lie in its range and the items about the "
    "other declarations do not: checked on every tree of the report stage (coverage key range_hypotheses); they hold on every tree "
    "parsed without diagnostics and fail on some trees with syntax errors (a method whose end keyword is missing or swallowed by an "
    "unterminated string has a range that does not cover its body)",
    "identifiers are ASCII ([A-Za-z0-9_] by construction of the lexer): char::is_uppercase is modelled as A-Z and "
    "str::to_uppercase as ASCII upper-casing; where a string literal's content is compared with an ASCII word (PASS, the "
    "method name after `inherited x.`) the ten non-ASCII scalar values with an ASCII full upper-casing (sharp s, dotless i, "
    "long s, ff/fi/fl/ffi/ffl/st ligatures) are modelled too (upper_rs; 'pa\u00df' counts as pass in code and model)",
    "the annotated tree mirrors get_children_arc, which equals get_children_ref (the dump marks trees where the two views "
    "differ; the check fails if one occurs)",
    "the three v2 checkers share only the append-only diagnostic collector: the report is modelled as the multiset union of "
    "four separate walks (HashMap iteration order and interleaving are unobservable; compared sorted)",
    "`pass` is lexed as an identifier (TokenType::Pass is never produced): the rule predicate reads an identifier token "
    "spelled pass anywhere in the method as `pass`",
    "`inherited self.<name>` is read at any depth of the method (inside a block, on the right of an assignment); the "
    "argument list after <name> is not looked at",
]

CLASSES = ["RET", "INH", "PURGE", "NPROC", "NFUNC", "NFIELD", "NPARAM", "NLOCAL", "NTYPE", "NCONST"]

# repaired defects: their minimal witnesses run first on every run and must satisfy the oracle with no deviation
REGRESSION = [
    # /repo ef936ba, 44578d5
    "class aCase\nproc P\n  var v : tVarByteArray\n  Purge(V)\nendproc\n",
    "class aCase\nproc Init\n  foo('pass')\nendproc\n",
    # D15 inherited-any-receiver
    "class aCase\nproc Init\n  inherited other.Init\nendproc\n",
    "class aCase\nproc Init\n  inherited x.y.Init\nendproc\n",
    "class aCase\nproc Init\n  x = inherited (a + Init)\nendproc\n",
    # D16 purge-dup-local
    "class aCase\nproc P\n  var v : tVarByteArray\n  var v : tVarByteArray\nendproc\n",
    # D17 purge-before-decl
    "class aCase\nproc P\n  Purge(v)\n  var v : tVarByteArray\nendproc\n",
    # D18 purge-literal-arg
    "class aCase\nproc P\n  var v : tVarByteArray\n  Purge('v')\nendproc\n",
    "class aCase\nproc P\n  var v : tVarByteArray\n  Purge(v(1))\nendproc\n",
    "class aCase\nproc P\n  var v : tVarByteArray\n  Purge(v[1])\nendproc\n",
    # D19 inherited-leak-next-decl (and the same declarations in the other order)
    "class aCase\nproc Init\nendproc\nFld : int4 absolute pass\n",
    "class aCase\nFld : int4 absolute pass\nproc Init\nendproc\n",
    "class aCase\nproc Terminate\nendproc\nFld : int4 absolute Pass\nproc After\nendproc\n",
    # the accepted forms stay accepted
    "class aCase\nproc Init\n  if x\n    inherited SELF.init(1)\n  endif\nendproc\nfunc Terminate return int4\n  x = inherited Self.TERMINATE\nendfunc\n"
    "proc P\n  Purge(V)\n  var v : tVarByteArray\n  var u : tVarByteArray\n  var u : tVarByteArray\n  OcsByteArray.purge(U, 2)\nendproc\n",
]


def cps(s):
    return ".".join(str(ord(c)) for c in s)


def uncps(s):
    return "".join(chr(int(x)) for x in s.split(".")) if s else ""


# =============================================================================================
# the oracle: the property statement evaluated on the TEXT (line-oriented mini grammar of the
# generator's language; a text outside it yields None = no expectation)
# =============================================================================================
ID = r"[A-Za-z_][A-Za-z0-9_]*"
RE_CLASS = re.compile(r"^class (%s)(?:\((%s)\))?$" % (ID, ID))
RE_CONST = re.compile(r"^const (%s) = (\d+|'[^']*')( multilang)?$" % ID)
RE_TYPE = re.compile(r"^type (%s) : (%s|'[^']*' to '[^']*')$" % (ID, ID))
RE_TYPEPROC = re.compile(r"^type (%s) : proc(\([^()]*\))$" % ID)
RE_FIELD = re.compile(r"^(memory )?(%s) : (%s)((?: (?:private|protected|override))*)(?: absolute (%s))?$" % (ID, ID, ID))
RE_PROC = re.compile(r"^proc (%s(?:#%s)?)(\([^()]*\))?((?: (?:override|private|protected|final|forward))*)$" % (ID, ID))
RE_FUNC = re.compile(r"^func (%s)(\([^()]*\))? return (%s)((?: (?:override|private|protected|final|forward))*)$" % (ID, ID))
RE_PARAM = re.compile(r"^(?:(?:inout|var|const) )?(%s) : (%s)$" % (ID, ID))
RE_VAR = re.compile(r"^var (%s) : (%s)$" % (ID, ID))
INH_OPERAND = r"(?:(%s(?:\.%s)*)\.)?(%s)(\(\d*\))?" % (ID, ID, ID)          # <receiver chain>.<name>[(args)]
RE_INH = re.compile(r"^inherited %s$" % INH_OPERAND)
RE_ASSIGN_INH = re.compile(r"^(%s) = inherited %s$" % (ID, INH_OPERAND))
RE_ASSIGN_INH_SUM = re.compile(r"^(%s) = inherited \((%s) \+ (%s)\)$" % (ID, ID, ID))
ARG = r"(?:%s\.%s|%s\(\d*\)|%s\[\d+\]|%s|\d+|'[^']*')" % (ID, ID, ID, ID, ID)
RE_CALL = re.compile(r"^(?:(%s)\.)?(%s)\(((?:%s(?:, %s)*)?)\)$" % (ID, ID, ARG, ARG))
RE_ASSIGN = re.compile(r"^(%s) = (%s|\d+|'[^']*')$" % (ID, ID))
RE_BLOCK = re.compile(r"^(if|while) (%s)$" % ID)
KEYWORDS = {"IF", "ENDIF", "WHILE", "ENDWHILE", "VAR", "INHERITED", "PROC", "FUNC", "ENDPROC", "ENDFUNC", "RETURN",
            "CONST", "TYPE", "CLASS", "MEMORY", "OVERRIDE", "PRIVATE", "PROTECTED", "FINAL", "FORWARD", "INOUT", "TO",
            "ABSOLUTE", "MULTILANG", "SELF"}


def analyse(text):
    """-> list of top-level items, or None when the text is outside the mini grammar.
    item: dict(kind=..., line=...) ; methods carry body events."""
    lines = text.split("\n")
    if lines and lines[-1] == "":
        lines.pop()
    if not lines or not RE_CLASS.match(lines[0]):
        return None
    items = []
    i = 1
    while i < len(lines):
        ln = lines[i]
        if ln.strip() == "" or ln.startswith(";"):
            i += 1
            continue
        m = RE_CONST.match(ln)
        if m:
            items.append(dict(kind="const", line=i, name=m.group(1), col=m.start(1), value=m.group(2)))
            i += 1
            continue
        m = RE_TYPE.match(ln)
        if m:
            items.append(dict(kind="type", line=i, name=m.group(1), col=m.start(1), typ=m.group(2), params=[]))
            i += 1
            continue
        m = RE_TYPEPROC.match(ln)
        if m:
            # a procedure type: its parameters are parameters too (of no method: no override exemption can apply)
            params = []
            inner = m.group(2)[1:-1]
            off = m.start(2) + 1
            if inner.strip() == "":
                return None
            for part in inner.split(", "):
                pm = RE_PARAM.match(part)
                if not pm:
                    return None
                params.append((pm.group(1), off + pm.start(1)))
                off += len(part) + 2
            items.append(dict(kind="type", line=i, name=m.group(1), col=m.start(1), typ="proc", params=params))
            i += 1
            continue
        m = RE_PROC.match(ln) or RE_FUNC.match(ln)
        if m:
            isf = ln.startswith("func ")
            name = m.group(1)
            params = []
            if m.group(2):
                inner = m.group(2)[1:-1]
                off = m.start(2) + 1
                if inner.strip() == "":
                    return None
                for part in inner.split(", "):
                    pm = RE_PARAM.match(part)
                    if not pm:
                        return None
                    params.append((pm.group(1), off + pm.start(1)))
                    off += len(part) + 2
            mods = (m.group(4) if isf else m.group(3)).split()
            it = dict(kind="func" if isf else "proc", line=i, name=name, col=m.start(1), params=params, mods=mods,
                      events=[], ret=(m.group(3), m.start(3)) if isf else None)
            items.append(it)
            i += 1
            if "forward" in mods:
                continue
            end = "endfunc" if isf else "endproc"
            depth = []
            closed = False
            while i < len(lines):
                b = lines[i]
                s = b.strip()
                if b == end:
                    if depth:
                        return None
                    closed = True
                    i += 1
                    break
                if s == "" or s.startswith(";"):
                    i += 1
                    continue
                if not b.startswith("  ") or b != " " * (len(b) - len(b.lstrip())) + s:
                    return None
                ind = len(b) - len(s)
                mm = RE_VAR.match(s)
                if mm:
                    it["events"].append(("var", i, mm.group(1), ind + mm.start(1), mm.group(2)))
                    i += 1
                    continue
                if s.upper() == "PASS":
                    it["events"].append(("pass", i))
                    i += 1
                    continue
                mm = RE_INH.match(s)
                if mm:
                    it["events"].append(("inherited", i, mm.group(1), mm.group(2)))
                    i += 1
                    continue
                mm = RE_BLOCK.match(s)
                if mm:
                    depth.append(mm.group(1))
                    it["events"].append(("ref", i, [mm.group(2)]))
                    i += 1
                    continue
                if s in ("endif", "endwhile"):
                    if not depth or depth.pop() != {"endif": "if", "endwhile": "while"}[s]:
                        return None
                    i += 1
                    continue
                mm = RE_CALL.match(s)
                if mm and mm.group(2).upper() not in KEYWORDS:
                    args = mm.group(3).split(", ") if mm.group(3) else []
                    it["events"].append(("call", i, mm.group(1), mm.group(2), args))
                    i += 1
                    continue
                mm = RE_ASSIGN.match(s)
                if mm and mm.group(1).upper() not in KEYWORDS:
                    it["events"].append(("ref", i, [mm.group(1), mm.group(2)]))
                    i += 1
                    continue
                mm = RE_ASSIGN_INH.match(s)
                if mm and mm.group(1).upper() not in KEYWORDS:
                    it["events"].append(("ref", i, [mm.group(1)]))
                    it["events"].append(("inherited", i, mm.group(2), mm.group(3)))
                    i += 1
                    continue
                mm = RE_ASSIGN_INH_SUM.match(s)
                if mm and mm.group(1).upper() not in KEYWORDS:
                    # `inherited` applied to a sum: not a call of the inherited implementation, whatever the operands
                    it["events"].append(("ref", i, [mm.group(1), mm.group(2), mm.group(3)]))
                    i += 1
                    continue
                return None
            if not closed:
                return None
            continue
        m = RE_FIELD.match(ln)
        if m and m.group(2).upper() not in KEYWORDS:
            items.append(dict(kind="field", line=i, name=m.group(2), col=m.start(2), mods=m.group(4).split(),
                              absolute=m.group(5)))
            i += 1
            continue
        return None
    return items


def is_ident(a):
    return re.fullmatch(ID, a) is not None


def terminals_of_event(ev):
    """the plain operands (identifiers / literals) an event contributes, as source spellings"""
    if ev[0] == "pass":
        return ["pass"]
    if ev[0] == "ref":
        return list(ev[2])
    if ev[0] == "call":
        out = []
        for a in ev[4]:
            if a.startswith("'"):
                out.append(a)
            elif a.endswith(")"):                    # f(1): a call, its name is not an operand
                out.append(a[a.index("(") + 1:-1])
            elif a.endswith("]"):                    # v[1]: the indexed variable and the index
                out += [a[:a.index("[")], a[a.index("[") + 1:-1]]
            elif "." in a:
                out += a.split(".")
            else:
                out.append(a)
        return ([ev[2]] if ev[2] else []) + [x for x in out if x]
    if ev[0] == "inherited":
        # the operands of the dot chain (the member itself is an operand unless it carries arguments)
        return (ev[2].split(".") if ev[2] else []) + [ev[3]]
    return []


def counts_as_pass(tok):
    """`pass` is an identifier token spelled pass (any letter case, any position); a string literal is not"""
    return is_ident(tok) and tok.upper() == "PASS"


RET_KEYS = {"TEXT": "Text", "TVARBYTEARRAY": "tVarByteArray", "ALISTOFINSTANCES": "aListOfInstances"}
INH_NAMES = {"INIT", "TERMINATE", "NOTIFYINIT", "NOTIFYTERMINATE"}


def d(cls, line, col, name, key=""):
    return "%s:2:%d:%d:%d:%d:%s" % (cls, line, col, line, col + len(name), cps(key) if key else "-")


def expected(text):
    """sorted canonical diagnostics the property statement requires for this text (None: outside the grammar)"""
    items = analyse(text)
    if items is None:
        return None
    out = []
    for idx, it in enumerate(items):
        k = it["kind"]
        nm = it["name"]
        if k == "const":
            if not (nm.startswith("c") or nm.startswith("ml")):
                out.append(d("NCONST", it["line"], it["col"], nm))
        elif k == "type":
            if not nm.startswith("t"):
                out.append(d("NTYPE", it["line"], it["col"], nm))
            for (pn, pc) in it.get("params", []):
                if pn[0].islower():
                    out.append(d("NPARAM", it["line"], pc, pn))
        elif k == "field":
            if "override" not in it["mods"] and nm[0].islower():
                out.append(d("NFIELD", it["line"], it["col"], nm))
        else:
            ov = "override" in it["mods"]
            if not ov and nm[0].islower():
                out.append(d("NFUNC" if k == "func" else "NPROC", it["line"], it["col"], nm))
            for (pn, pc) in it["params"]:
                if not ov and pn[0].islower():
                    out.append(d("NPARAM", it["line"], pc, pn))
            if k == "func" and it["ret"][0].upper() in RET_KEYS:
                out.append(d("RET", it["line"], it["ret"][1], it["ret"][0], RET_KEYS[it["ret"][0].upper()]))
            evs = it["events"]
            # --- inherited rule ---
            if nm.upper() in INH_NAMES:
                called = False
                for ev in evs:
                    # the statement `inherited self.<same name>`: the receiver is `self` itself, nothing else
                    if ev[0] == "inherited" and ev[3].upper() == nm.upper() and ev[2] is not None and ev[2].upper() == "SELF":
                        called = True
                    if any(counts_as_pass(t) for t in terminals_of_event(ev)):
                        called = True
                if not called:
                    out.append(d("INH", it["line"], it["col"], nm, nm))
            # --- unpurged rule ---
            decls = [(j, ev) for j, ev in enumerate(evs) if ev[0] == "var" and ev[4].upper() == "TVARBYTEARRAY"]
            for (j, ev) in decls:                    # every declaration is judged, also a repeated name
                vname = ev[2]
                keyf = lambda s: s.upper()           # names are case-insensitive
                purged = False
                for j2, e2 in enumerate(evs):        # anywhere in the method, before or after the declaration
                    if e2[0] != "call" or e2[3].upper() != "PURGE" or not e2[4]:
                        continue
                    a = e2[4][0]                     # the first argument, a plain identifier (no literal, call, index)
                    purged = purged or (is_ident(a) and keyf(a) == keyf(vname))
                if not purged:
                    out.append(d("PURGE", ev[1], ev[3], vname, vname))
            for ev in evs:
                if ev[0] == "var" and ev[2][0].isupper():
                    out.append(d("NLOCAL", ev[1], ev[3], ev[2]))
    return sorted(out)


def obs_of(lst):
    return ";".join(lst) + "|IDEM-OK"


def oracle(case, impl_out):
    """the property's statement evaluated on the implementation's own (canonicalised) output"""
    if impl_out.startswith("PANIC") or impl_out in ("CRASH", "HANG") or impl_out.startswith("ERR") \
            or impl_out.startswith("VIEWS"):
        return "the diagnostic request failed: " + impl_out[:200]
    parts = impl_out.split("|")
    if len(parts) < 2 or parts[1] != "IDEM-OK":
        return "repeating the request does not repeat the same list: first %r, second %r" % (parts[0], "|".join(parts[2:]))
    exp = expected(uncps(case))
    if exp is None:
        return None
    got = [x for x in parts[0].split(";") if x]
    if got == exp:
        return None
    missing = multiset_minus(exp, got)
    extra = multiset_minus(got, exp)
    return "expected by the rules but not reported: %s; reported but not expected: %s" % (
        [show_diag(x) for x in missing], [show_diag(x) for x in extra])


def multiset_minus(a, b):
    b = list(b)
    out = []
    for x in a:
        if x in b:
            b.remove(x)
        else:
            out.append(x)
    return out


def show_diag(x):
    f = x.split(":")
    return "%s@%s:%s-%s:%s%s" % (f[0], f[2], f[3], f[4], f[5], ("'" + uncps(f[6]) + "'") if f[6] != "-" else "")


# =============================================================================================
# generator
# =============================================================================================
RET_TYPES = ["Text", "text", "TEXT", "tVarByteArray", "tvarbytearray", "aListOfInstances", "alistofinstances",
             "int4", "cString", "Texts", "tText"]
INH_METHOD_NAMES = ["Init", "init", "INIT", "Terminate", "NotifyInit", "NotifyTerminate", "notifyterminate",
                    "InitX", "Other", "Init#Evt"]
LOCAL_TYPES = ["tVarByteArray", "tvarbytearray", "TVARBYTEARRAY", "int4", "tVarByteArrays"]
OTHER_OF = {"INIT": "Terminate", "TERMINATE": "Init", "NOTIFYINIT": "NotifyTerminate", "NOTIFYTERMINATE": "NotifyInit"}


def inh_bodies(name):
    base = name.split("#")[0]
    other = OTHER_OF.get(base.upper(), "Init")
    return {
        "none": [],
        "self-same": ["inherited self.%s" % base],
        "self-lower": ["inherited self.%s" % base.lower()],
        "SELF-upper": ["inherited SELF.%s" % base.upper()],
        "self-other": ["inherited self.%s" % other],
        "self-same-args": ["inherited self.%s(1)" % base],
        "no-receiver": ["inherited %s" % base],
        "pass": ["pass"],
        "Pass": ["Pass"],
        "nested-inherited": ["if x", "  while y", "    inherited self.%s" % base, "  endwhile", "endif"],
        "nested-pass": ["while y", "  pass", "endwhile"],
        "filler-only": ["x = 1", "foo(x, 2)"],
        "pass-arg": ["foo(pass)"],
        # string literals are not `pass` (repaired by 44578d5)
        "lit-pass-arg": ["foo('pass')"],
        "lit-pass-assign": ["x = 'PASS'"],
        "lit-pass-sharp-s": ["foo('pa\u00df')"],          # Rust: "pa\u00df".to_uppercase() == "PASS"
        "lit-pass-long-s": ["x = 'Pa\u017f\u017f'"],
        "lit-not-pass": ["foo('p\u00e1ss')"],
        # the receiver must be `self` itself, the operator the dot, the member the method (repaired: D15)
        "other-receiver": ["inherited other.%s" % base],
        "chain-receiver": ["inherited x.y.%s" % base],
        "self-chain": ["inherited self.x.%s" % base],
        "member-of-self-name": ["inherited self.%s.foo" % base],
        "sum-operand": ["x = inherited (a + %s)" % base],
        "assign-self-same": ["x = inherited self.%s" % base],
        "assign-other": ["x = inherited other.%s(2)" % base],
    }


def purge_variants(v, w):
    return {
        "none": [],
        "Purge(v)": ["Purge(%s)" % v],
        "purge(v)": ["purge(%s)" % v],
        "PURGE(v)": ["PURGE(%s)" % v],
        "x.Purge(v)": ["OcsByteArray.Purge(%s)" % v],
        "Purge(v,1)": ["Purge(%s, 1)" % v],
        "Purge(w)": ["Purge(%s)" % w],
        "Purge(1,v)": ["Purge(1, %s)" % v],
        "Purge()": ["Purge()"],
        "Purge(x.v)": ["Purge(x.%s)" % v],
        "Purged(v)": ["Purged(%s)" % v],
        "nested": ["if x", "  while y", "    o.purge(%s)" % v, "  endwhile", "endif"],
        "Purge(V)": ["Purge(%s)" % v.swapcase()],          # letter case differs (repaired by ef936ba)
        # the first argument must be the variable itself (repaired: D18)
        "Purge('v')": ["Purge('%s')" % v],
        "Purge(v(1))": ["Purge(%s(1))" % v],
        "Purge(v[1])": ["Purge(%s[1])" % v],
        "x.Purge(V,'v')": ["x.purge(%s, '%s')" % (v.swapcase(), v)],
    }


class Method:
    def __init__(self, kind="proc", name="Work", params=(), ret="int4", mods=(), body=()):
        self.kind, self.name, self.params, self.ret, self.mods, self.body = kind, name, list(params), ret, list(mods), list(body)

    def render(self):
        ps = "(%s)" % ", ".join(self.params) if self.params else ""
        ms = "".join(" " + m for m in self.mods)
        if self.kind == "func":
            head = "func %s%s return %s%s" % (self.name, ps, self.ret, ms)
        else:
            head = "proc %s%s%s" % (self.name, ps, ms)
        if "forward" in self.mods:
            return [head]
        return [head] + ["  " + b for b in self.body] + ["endfunc" if self.kind == "func" else "endproc"]


def render(items, header="class aCase(aRoot)"):
    """items: list of list-of-lines blocks -> (text, spans) with spans[i] = (first line, number of lines)"""
    lines = [header]
    spans = []
    for blk in items:
        spans.append((len(lines), len(blk)))
        lines += blk
    return "\n".join(lines) + "\n", spans


def rand_decl(rng):
    k = rng.random()
    if k < 0.3:
        n = rng.choice(["cGood", "Bad", "mlText", "MlText", "mX", "_cX", "C", "cx"])
        v = rng.choice(["1", "'a'", "'héllo'"])
        return ["const %s = %s%s" % (n, v, " multilang" if v != "1" and rng.random() < 0.5 else "")]
    if k < 0.45:
        return ["type %s : %s" % (rng.choice(["tGood", "TBad", "Bad", "bad", "_tX", "t"]), rng.choice(["int4", "cString"]))]
    if k < 0.55:
        ps = ", ".join("%s%s : int4" % (rng.choice(["", "", "inout ", "const "]), rng.choice(["Good", "bad", "aB", "X", "wrongParam"]))
                       for _ in range(rng.randint(1, 2)))
        return ["type %s : proc(%s)" % (rng.choice(["tCb", "tHandler", "Cb"]), ps)]
    if k < 0.9:
        n = rng.choice(["Good", "bad", "_x", "X", "xY", "Init"])
        m = rng.choice(["", "", " override", " private", " private override"])
        return ["%s%s : %s%s" % ("memory " if rng.random() < 0.15 else "", n, rng.choice(["int4", "tVarByteArray", "Text"]), m)]
    return ["; a comment with pass and Purge(v) and inherited self.Init"]


def rand_method(rng):
    kind = rng.choice(["proc", "proc", "func"])
    name = rng.choice(INH_METHOD_NAMES[:9] + ["Work", "work", "_w", "Helper", "compute", "handle#Click", "Handle#click", "init#Evt"])
    if kind == "func":
        name = name.split("#")[0]
    mods = []
    if rng.random() < 0.35:
        mods.append("override")
    if rng.random() < 0.15:
        mods.append(rng.choice(["private", "protected", "final"]))
    params = []
    for _ in range(rng.choice([0, 0, 1, 2, 3])):
        params.append("%s%s : %s" % (rng.choice(["", "", "inout ", "var ", "const "]),
                                     rng.choice(["Good", "bad", "_p", "P", "pX", "v"]), rng.choice(["int4", "tVarByteArray", "Text"])))
    body = []
    locs = []
    for _ in range(rng.choice([0, 1, 1, 2, 3])):
        v = rng.choice(["v", "w", "buf", "Vx", "_b", "k9"])
        locs.append(v)                               # a name may be declared twice: each declaration is judged
        body.append(["var %s : %s" % (v, rng.choice(LOCAL_TYPES[:3] + LOCAL_TYPES))])
    stm = []
    ib = inh_bodies(name)
    keys = list(ib)
    for _ in range(rng.choice([0, 1, 1, 2])):
        stm.append(ib[rng.choice(keys)])
    for v in locs:
        pv = purge_variants(v, rng.choice(["w", "zz", "buf"]))
        keys = list(pv)
        if rng.random() < 0.7:
            stm.append(pv[rng.choice(keys)])
    if rng.random() < 0.4:
        stm.append(rng.choice([["x = 1"], ["foo(x)"], ["y = 'text'"], ["; comment pass"], ["x = 'hé'"]]))
    # statement groups (small lists, block structure kept) in any order: a Purge may precede the declaration
    groups = body + [g for g in stm if g]
    if rng.random() < 0.5:
        rng.shuffle(groups)
    body = [ln for g in groups for ln in g]
    m = Method(kind, name, params, rng.choice(RET_TYPES), mods, body)
    if rng.random() < 0.06:
        m.mods.append("forward")
    return m.render()


def gen_programs(ctx):
    """-> (cases, perm_pairs, histogram)"""
    rng = random.Random(ctx.seed)
    texts = []
    hist = {}

    def add(fam, blocks):
        t, spans = render(blocks)
        texts.append(t)
        hist[fam] = hist.get(fam, 0) + 1
        return t, spans

    def context(n=1):
        return [rand_decl(rng) if rng.random() < 0.6 else rand_method(rng) for _ in range(n)]

    def place(blk, n=1):
        blocks = context(n) + [blk]
        rng.shuffle(blocks)
        return blocks

    # A. return-type rule: type x name casing x override x params (exhaustive)
    for rt, nm, ov, ps in itertools.product(RET_TYPES, ["Get", "get"], [False, True], [False, True]):
        add("ret", place(Method("func", nm, ["P : int4"] if ps else [], rt, ["override"] if ov else [], ["x = 1"]).render()))
    # B. inherited rule: name x kind x body (exhaustive), the findings' near-misses included
    for nm, kind in itertools.product(INH_METHOD_NAMES, ["proc", "func"]):
        if kind == "func" and "#" in nm:
            continue
        for bk, body in inh_bodies(nm).items():
            add("inh", place(Method(kind, nm, [], "int4", [], body).render()))
        add("inh", place(Method(kind, nm, [], "int4", ["forward"], []).render()))
        add("inh", place(Method(kind, nm, [], "int4", ["override"], []).render()))
    # C. unpurged rule: local type x name x purge variant (exhaustive)
    for ty, v in itertools.product(LOCAL_TYPES, ["v", "buf", "Vx", "_b"]):
        for pk, stm in purge_variants(v, "w").items():
            add("purge", place(Method("proc", "Work", [], "int4", [], ["var %s : %s" % (v, ty)] + stm).render()))
    #    two locals, one purged; purge in ANOTHER method (state is per method)
    for a, b in itertools.product(["v", "buf"], ["w", "Zed"]):
        add("purge", place(Method("proc", "Work", [], "int4", [], ["var %s : tVarByteArray" % a, "var %s : tVarByteArray" % b, "Purge(%s)" % a]).render()))
        add("purge", [Method("proc", "First", [], "int4", [], ["var %s : tVarByteArray" % a]).render(),
                      Method("proc", "Second", [], "int4", [], ["Purge(%s)" % a]).render()])
        add("purge", [Method("proc", "First", [], "int4", [], ["Purge(%s)" % a]).render()] + context(1) +
            [Method("func", "Second", [], "int4", [], ["var %s : tVarByteArray" % a]).render()])
    # D. naming rule
    for nm, mod, kind in itertools.product(["Good", "bad", "_x", "X", "xY", "Z9"], [[], ["override"], ["private"], ["private", "override"]],
                                           ["proc", "func", "field", "memory"]):
        if kind in ("proc", "func"):
            add("name", place(Method(kind, nm, [], "int4", mod, []).render()))
        else:
            add("name", place(["%s%s : int4%s" % ("memory " if kind == "memory" else "", nm, "".join(" " + m for m in mod))]))
    #    methods named <name>#<event>: the casing rule reads the name in front of the '#'
    for nm, mod in itertools.product(["Good#Evt", "bad#Evt", "bad#evt", "Good#evt", "_x#E", "init#Click", "Init#click", "xY#Z9"],
                                     [[], ["override"], ["private"], ["private", "override"]]):
        add("name", place(Method("proc", nm, [], "int4", mod, []).render()))
        add("name", place(Method("proc", nm, ["Arg : int4", "low : int4"], "int4", mod, ["var Loc : int4", "Loc = 1"]).render()))
    for pn, pm, ov, kind in itertools.product(["Good", "bad", "_p", "P"], ["", "inout ", "var ", "const "], [False, True], ["proc", "func"]):
        add("name", place(Method(kind, "Work", ["%s%s : int4" % (pm, pn), "Second : int4"], "int4", ["override"] if ov else [], []).render()))
    for ln in ["good", "Bad", "_B", "_b", "X", "x9"]:
        add("name", place(Method("proc", "Work", [], "int4", [], ["var %s : int4" % ln]).render()))
    for tn in ["tX", "TX", "X", "x", "_tX", "t", "T"]:
        add("name", place(["type %s : int4" % tn]))
    for cn, ml in itertools.product(["cX", "mlX", "X", "CX", "MlX", "mX", "_cX", "c", "ml", "m"], [False, True]):
        add("name", place(["const %s = %s" % (cn, "'a' multilang" if ml else "1")]))
    # E. random mixed programs: every toggle drawn independently, declarations between methods
    nmixed = 700 if ctx.quick else 22000
    mixed = []
    for _ in range(nmixed):
        blocks = []
        for _ in range(rng.randint(2, 7)):
            blocks.append(rand_method(rng) if rng.random() < 0.65 else rand_decl(rng))
        t, spans = add("mixed", blocks)
        mixed.append((blocks, t, spans))
    # F. permutations of the top-level declarations of mixed programs
    nperm = 150 if ctx.quick else 3000
    pairs = []
    for (blocks, t, spans) in mixed[:nperm]:
        order = list(range(len(blocks)))
        rng.shuffle(order)
        t2, spans2 = add("perm", [blocks[j] for j in order])
        pairs.append((t, spans, t2, spans2, order))
    # G. probes of the repaired defect classes (duplicate local, purge before declaration, literal argument,
    #    `pass` terminal in the declaration following a method), independent of the sweeps above
    for v in ["v", "buf"]:
        for body in (["var %s : tVarByteArray" % v, "var %s : tVarByteArray" % v],
                     ["var %s : tVarByteArray" % v, "Purge(%s)" % v, "var %s : tVarByteArray" % v],
                     ["Purge(%s)" % v, "var %s : tVarByteArray" % v],
                     ["var %s : tVarByteArray" % v, "Purge('%s')" % v],
                     ["var %s : tVarByteArray" % v, "Purge(%s(1))" % v],
                     ["var %s : tVarByteArray" % v, "Purge(%s[1])" % v],
                     ["if x", "  Purge(%s)" % v.upper(), "endif", "var %s : tVarByteArray" % v, "var %s : tVarByteArray" % v],
                     ["var %s : tVarByteArray" % v, "var %s : tVarByteArray" % v.upper(), "Purge(%s)" % v]):
            add("probe", place(Method("proc", "Work", [], "int4", [], body).render()))
    for nm in ["Init", "Terminate", "Work"]:
        for follower in (["Fld : int4 absolute pass"], ["type tS : 'pass' to 'z'"], ["Fld : int4 absolute other"], ["type tS : 'a' to 'z'"]):
            blocks = [Method("proc", nm, [], "int4", [], ["x = 1"]).render(), follower, Method("proc", "After", [], "int4", [], []).render()]
            t, sp = add("probe", blocks)
            order = [1, 0, 2]                # the same declarations, the follower moved in front of the method
            t2, sp2 = add("probe", [blocks[j] for j in order])
            pairs.append((t, sp, t2, sp2, order))
    nprobe = 60 if ctx.quick else 1500
    for _ in range(nprobe):
        add("probe", [rand_method(rng) if rng.random() < 0.8 else rand_decl(rng) for _ in range(rng.randint(1, 4))])
    # H. malformed stream: line / character damage of valid programs (model vs implementation only where the text
    #    leaves the oracle's grammar)
    nbad = 150 if ctx.quick else 3000
    valid = list(texts)
    for _ in range(nbad):
        t = rng.choice(valid)
        ls = t.split("\n")
        k = rng.random()
        if k < 0.35 and len(ls) > 2:
            del ls[rng.randrange(1, len(ls) - 1)]
            t2 = "\n".join(ls)
        elif k < 0.55 and len(ls) > 2:
            j = rng.randrange(1, len(ls) - 1)
            ls.insert(j, ls[j])
            t2 = "\n".join(ls)
        elif k < 0.8:
            j = rng.randrange(len(t))
            t2 = t[:j] + t[j + 1:]
        else:
            j = rng.randrange(len(t))
            t2 = t[:j] + rng.choice(["(", ")", "'", ";", ":", "\n", " endproc\n", "#", ".", "é", "proc "]) + t[j:]
        texts.append(t2)
        hist["malformed"] = hist.get("malformed", 0) + 1
    return [cps(t) for t in texts], pairs, hist


# =============================================================================================
# running
# =============================================================================================
def split(out):
    if "#" not in out:
        return ("", out)
    tree, obs = out.split("#", 1)
    if "99=n1" in tree:
        return (tree, "VIEWS-DISAGREE " + obs)
    return (tree, obs)


def canon(obs):
    """drops the diagnostics of other properties (class OTHER) from every list of the observation"""
    if "|" not in obs:
        return obs
    parts = obs.split("|")
    for i in (0, 2):
        if i < len(parts):
            parts[i] = ";".join(x for x in parts[i].split(";") if x and not x.startswith("OTHER:"))
    return "|".join(parts)


def nontrivial(case):
    items = analyse(uncps(case))
    return bool(items) and any(it["kind"] in ("proc", "func") for it in items)


def shrinker(case):
    t = uncps(case)
    ls = t.split("\n")
    if ls and ls[-1] == "":
        ls.pop()
    # whole top-level blocks first, then single lines
    i = 1
    while i < len(ls):
        if ls[i].startswith(("proc ", "func ")) and "forward" not in ls[i]:
            j = i
            while j < len(ls) and ls[j] not in ("endproc", "endfunc"):
                j += 1
            yield cps("\n".join(ls[:i] + ls[j + 1:]) + "\n")
            i = j + 1
        else:
            i += 1
    for i in range(1, len(ls)):
        yield cps("\n".join(ls[:i] + ls[i + 1:]) + "\n")


def describe(case):
    return uncps(case)


class TmpWorkspace:
    """the harness creates its per-case workspaces under std::env::temp_dir(): point it to a directory of ours"""
    def __enter__(self):
        self.old = os.environ.get("TMPDIR")
        self.dir = tempfile.mkdtemp(prefix="c16-")
        os.environ["TMPDIR"] = self.dir
        return self

    def __exit__(self, *a):
        if self.old is None:
            os.environ.pop("TMPDIR", None)
        else:
            os.environ["TMPDIR"] = self.old
        shutil.rmtree(self.dir, ignore_errors=True)


def relative(obs, spans):
    """diagnostics keyed by (index of the top-level block, line offset inside it)"""
    out = []
    for x in obs.split("|")[0].split(";"):
        if not x:
            continue
        f = x.split(":")
        sl = int(f[2])
        blk = [k for k, (s, n) in enumerate(spans) if s <= sl < s + n]
        out.append((blk[0] if blk else -1, f[0], f[1], sl - (spans[blk[0]][0] if blk else 0), f[3], int(f[4]) - sl, f[5], f[6]))
    return out


def permutation_check(ctx, pairs):
    """the implementation's own answers on a program and on a permutation of its top-level declarations"""
    if not pairs:
        return 0
    hb = diff.Engines.harness()
    cases = []
    for (t, spans, t2, spans2, order) in pairs:
        cases += [cps(t), cps(t2)]
    outs = [canon(split(o)[1]) for o in core.run_lines(hb, "lints", cases)]
    bad = []
    for k, (t, spans, t2, spans2, order) in enumerate(pairs):
        a = relative(outs[2 * k], spans)
        b = [(order[x[0]],) + x[1:] if x[0] >= 0 else x for x in relative(outs[2 * k + 1], spans2)]
        if sorted(a) != sorted(b):
            bad.append((t, t2, outs[2 * k], outs[2 * k + 1]))
    if bad:
        t, t2, o1, o2 = min(bad, key=lambda x: len(x[0]))
        path = core.write_replay(ctx.pid, ctx.seed, {
            "engine": "lints", "case": cps(t), "case_readable": t, "permuted_case": cps(t2), "permuted_readable": t2,
            "observed": o1, "observed_permuted": o2,
            "expected": "permuting the top-level declarations permutes the report (same diagnostics relative to each declaration)",
            "n_failing_cases": len(bad)})
        raise core.Violation("method permutation changes the verdicts", path, True)
    return len(pairs)


# =============================================================================================
# the ASSEMBLED response (engine `report`, Model/Report.v, Proofs/ReportProofs.v, C15_response_* / C16_response_*)
# =============================================================================================
GOLD = cps("gold")
U_PREFIX = cps("Unused var: ")
REPORT_BAD_LINES = ["proc Q(", "x = = 1", "var : int4", "func F return", "'unterminated", "@", "endif", "proc", "type T :",
                    "const = 3", "x = (1 + ", "foo(1, ", "if", "a.b. = 2", "var v tVarByteArray", "\"open", "?", "endproc", "class", "x = 1 +"]


def report_item(x):
    """sev, src, tags, (sl, sc, el, ec), message text"""
    f = x.split(":")
    return f[0], f[1], f[2], tuple(f[3:7]), (uncps(f[7]) if f[7] != "-" else "")


def is_unused_item(x):
    f = x.split(":")
    return f[0] == "2" and (f[7] == U_PREFIX or f[7].startswith(U_PREFIX + "."))


def report_canon_list(lst):
    """every maximal run of consecutive "Unused var" warnings sorted (UnusedVarAnalyzer::check_unused_vars iterates a
    HashMap: the order of ONE method's warnings is unspecified); every other position is compared as it is"""
    items = [x for x in lst.split(";") if x]
    out, run = [], []
    for x in items:
        if is_unused_item(x):
            run.append(x)
        else:
            out += sorted(run) + [x]
            run = []
    return ";".join(out + sorted(run))


def report_canon(obs):
    parts = obs.split("|")
    if len(parts) != 3:
        return obs
    parts[0] = report_canon_list(parts[0])
    if parts[1].startswith("IDEM-BAD!"):
        parts[1] = "IDEM-BAD!" + report_canon_list(parts[1][9:])
    return "|".join(parts)


def report_split(out):
    """-> (model input = tree dump @ parser diagnostics, observation).  The parser diagnostics the document holds are
    the engine's own dump: that the response STARTS with them, in their order, as ERROR / "gold" / untagged items is
    checked here (the model receives them as input) and reported through the observation"""
    if "#" not in out:
        return ("", out)
    left, obs = out.split("#", 1)
    if obs.startswith("ERR"):
        return ("", obs)
    tree, pd = left.split("@", 1) if "@" in left else (left, "")
    if "99=n1" in tree:
        return (left, "VIEWS-DISAGREE " + obs)
    want = ["1:%s:-:%s" % (GOLD, x) for x in pd.split(";") if x]
    got = [x for x in obs.split("|")[0].split(";") if x]
    if got[:len(want)] != want:
        return (left, "PARSER-PREFIX-BAD expected the response to start with %r|%s" % (want, obs))
    return (left, obs)


def report_oracle(case, impl_out):
    """the statement on the implementation's output alone: response vs. what the real checkers say one by one"""
    if impl_out.startswith("PANIC") or impl_out in ("CRASH", "HANG") or impl_out.startswith("ERR") \
            or impl_out.startswith("VIEWS") or impl_out == "":
        return "the diagnostic request failed: " + impl_out[:200]
    if impl_out.startswith("PARSER-PREFIX-BAD"):
        return "the response does not start with the document's parser diagnostics in parser order: " + impl_out[:400]
    parts = impl_out.split("|")
    if len(parts) != 3:
        return "unreadable observation " + impl_out[:200]
    if parts[1] != "IDEM-OK":
        return "repeating the request does not repeat the same list: first %r, second %r" % (parts[0][:300], parts[1][9:][:300])
    if "NO-ANNOTATED-TREE" in parts[2]:
        return "the document has no annotated tree: the response lacks the three annotated-tree checkers"
    resp = [x for x in parts[0].split(";") if x]
    groups = [[x for x in g.split(";") if x] for g in parts[2].split("/")]
    if len(groups) != 5:
        return "unreadable checker section " + parts[2][:200]
    # (i) the parser's items (ERROR, source gold, no tag) first: none of them after any other item
    k = 0
    while k < len(resp) and resp[k].split(":")[0] == "1" and resp[k].split(":")[2] == "-":
        k += 1
    for x in resp[k:]:
        f = x.split(":")
        if f[0] == "1" and f[2] == "-":
            return "a parser diagnostic (ERROR, untagged) after an analyser's diagnostic: %s" % (report_item(x),)
    for x in resp:
        if x.split(":")[1] != GOLD:
            return "an item whose source is not \"gold\": %s" % (report_item(x),)
    rest = resp[k:]
    # (iii) nothing dropped, nothing invented, nothing doubled: the analysers' part of the response is, as a multiset,
    #       the union of what the five real checkers say one by one ...
    from collections import Counter
    union = Counter()
    for g in groups:
        union.update(g)
    got = Counter(rest)
    if got != union:
        missing = sorted((union - got).elements())
        extra = sorted((got - union).elements())
        return "flagged by a checker but not in the response: %s; in the response but flagged by no checker (or more often than flagged): %s" % (
            [report_item(x) for x in missing[:4]], [report_item(x) for x in extra[:4]])
    # ... in the fixed order of the groups: all of UnusedVarAnalyzer's, all of FunctionReturnTypeChecker's, then the
    #     shared collector of the three annotated-tree checkers
    a, b = len(groups[0]), len(groups[1])
    if Counter(rest[:a]) != Counter(groups[0]):
        return "the items after the parser's are not UnusedVarAnalyzer's: %s" % ([report_item(x) for x in rest[:a]][:4],)
    if Counter(rest[a:a + b]) != Counter(groups[1]):
        return "the items after UnusedVarAnalyzer's are not FunctionReturnTypeChecker's: %s" % ([report_item(x) for x in rest[a:a + b]][:4],)
    # every WARNING is one of the analysers' (a parser item is an ERROR): follows from the above; severity sanity
    for x in resp[:k]:
        if x.split(":")[0] != "1":
            return "a parser diagnostic that is not an ERROR: %s" % (report_item(x),)
    return None


def report_multi_rule_programs():
    """several rules on ONE name / ONE range: casing + inherited on a method name; unpurged + casing + unused on a local;
    a local declared twice (error + warnings on both tokens); return type + casing + inherited on one function"""
    out = []
    for nm, kind, ov in itertools.product(["init", "terminate", "notifyInit", "Init", "work"], ["proc", "func"], [False, True]):
        for ln, ty, used, purged, twice in itertools.product(["Vx", "vx", "_v"], ["tVarByteArray", "int4"], [False, True], [False, True], [False, True]):
            body = ["var %s : %s" % (ln, ty)]
            if twice:
                body.append("var %s : %s" % (ln.swapcase() if ln != "_v" else ln, ty))
            if used:
                body.append("x = %s" % ln)
            if purged:
                body.append("Purge(%s)" % ln)
            m = Method(kind, nm, ["bad : int4"] if used else [], "Text" if purged else "int4", ["override"] if ov else [], body)
            out.append(render([m.render()])[0])
    # two methods with the same local names: the same message text at two ranges; a field and a method of one name
    for ln in ["Vx", "k"]:
        out.append(render([Method("proc", "first", [], "int4", [], ["var %s : tVarByteArray" % ln]).render(),
                           Method("func", "init", [], "tVarByteArray", [], ["var %s : tVarByteArray" % ln, "var %s : int4" % ln]).render(),
                           ["init : int4"], ["const Bad = 1"], ["type Bad : int4"]])[0])
    return out


def report_cases(ctx):
    """-> (cases, histogram)"""
    import glob
    from checks import c15
    rng = random.Random(ctx.seed * 7919 + 16)
    hist = {}
    texts = []

    def add(fam, t):
        texts.append(t)
        hist[fam] = hist.get(fam, 0) + 1

    # the generators of C16 and C15 (their whole streams, sampled with the run's seed)
    c16_cases, _, _ = gen_programs(ctx)
    c16_texts = [uncps(c) for c in c16_cases]
    n16 = 420 if ctx.quick else 9000
    for t in (rng.sample(c16_texts, n16) if len(c16_texts) > n16 else c16_texts):
        add("c16-generators", t)
    c15_cases, c15_meta = c15.gen_cases(ctx)
    n15 = 380 if ctx.quick else 9000
    for c in (rng.sample(c15_cases, n15) if len(c15_cases) > n15 else c15_cases):
        add("c15-generators", c15.dec(c))
    # the repository's own test files
    for f in sorted(glob.glob(os.path.join(core.REPO, "test", "*.god")) + glob.glob(os.path.join(core.REPO, "test", "workspace", "*.god"))):
        with open(f, "rb") as fh:
            add("repo-test-files", fh.read().decode("utf-8", "replace"))
    # several rules on one name / one range
    multi = report_multi_rule_programs()
    for t in (rng.sample(multi, 350) if ctx.quick else multi):
        add("multi-rule", t)
    # syntax errors (parser diagnostics present), in and between methods, one to three per program; lexer errors too
    valid = [t for t in c16_texts[:2000] if expected(t) is not None] + multi
    nbad = 300 if ctx.quick else 6000
    for _ in range(nbad):
        ls = rng.choice(valid).split("\n")
        for _ in range(rng.choice([1, 1, 2, 3])):
            j = rng.randrange(1, len(ls) + 1)
            bad = rng.choice(REPORT_BAD_LINES)
            ls.insert(j, ("  " if rng.random() < 0.5 else "") + bad)
        add("syntax-errors", "\n".join(ls))
    # regression corpora of both properties
    for t in REGRESSION + c15.REGRESSION:
        add("regression", t)
    return [cps(t) for t in texts], hist


def report_nontrivial(case):
    return True


def report_stage(ctx):
    """the assembled response: real generate_document_diagnostic_report (twice, one manager) + the five real checkers one
    by one + the document's parser diagnostics vs Report.request on the dumped tree; oracle on the implementation alone"""
    cases, hist = report_cases(ctx)
    seen = {}

    def oracle(case, out):
        seen[case] = out
        return report_oracle(case, out)

    cov = diff.differential(ctx, "report", cases, split=report_split, canon=report_canon, oracle=oracle,
                            shrinker=shrinker, nontrivial=report_nontrivial, describe=describe)
    # what the explored responses contained (non-vacuity of the run)
    stats = dict(with_parser_diagnostics=0, with_unused=0, with_return_type=0, with_unpurged=0, with_naming=0, with_inherited=0,
                 with_two_items_on_one_range=0, with_all_six_sources=0, with_observable_interleaving=0, items=0)
    for c, out in seen.items():
        parts = out.split("|")
        if len(parts) != 3:
            continue
        resp = [x for x in parts[0].split(";") if x]
        groups = [[x for x in g.split(";") if x] for g in parts[2].split("/")]
        stats["items"] += len(resp)
        flags = [any(x.split(":")[0] == "1" and x.split(":")[2] == "-" for x in resp)] + [bool(g) for g in groups]
        for key, fl in zip(["with_parser_diagnostics", "with_unused", "with_return_type", "with_unpurged", "with_naming", "with_inherited"], flags):
            stats[key] += 1 if fl else 0
        stats["with_all_six_sources"] += 1 if all(flags) else 0
        rngs = [tuple(x.split(":")[3:7]) for x in resp]
        stats["with_two_items_on_one_range"] += 1 if len(set(rngs)) < len(rngs) else 0
        # the shared collector's part is not the three checkers' lists one after the other
        v2 = resp[len(resp) - sum(len(g) for g in groups[2:]):]
        seq = [0 if report_item(x)[4].startswith("Local tVarByteArray") else (2 if report_item(x)[4].startswith("Method '") else 1) for x in v2]
        stats["with_observable_interleaving"] += 1 if seq != sorted(seq) else 0
    # the range hypotheses of C16_response_in_range_partial, evaluated by the extracted model on every dumped tree
    # (model-only engine `reportranges`): for every top-level declaration m with a non-empty contribution, every item
    # of contrib m lies in m's range and no item about the other declarations does.  They are facts about the parser's
    # ranges, not theorems: a tree parsed WITHOUT diagnostics on which they fail breaks the reading of the partial theorem
    raws = core.run_lines(diff.Engines.harness(), "report", cases)
    lefts = [report_split(o)[0] if not (o.startswith("PANIC") or o == "CRASH") else "" for o in raws]
    rr = core.run_lines(diff.Engines.model(), "reportranges", lefts)
    ranges = dict(declarations_with_items=0, items_inside_own_range=0, and_no_foreign_item_inside=0,
                  failing_files=0, failing_files_without_parser_diagnostics=0)
    clean_fail = []
    for c, left, r in zip(cases, lefts, rr):
        f = r.split(":")
        if len(f) != 3 or not all(x.isdigit() for x in f):
            continue
        n, a, ab = [int(x) for x in f]
        ranges["declarations_with_items"] += n
        ranges["items_inside_own_range"] += a
        ranges["and_no_foreign_item_inside"] += ab
        if ab < n:
            ranges["failing_files"] += 1
            if "@" in left and left.split("@", 1)[1] == "":
                ranges["failing_files_without_parser_diagnostics"] += 1
                clean_fail.append((c, r))
    if clean_fail:
        c, r = min(clean_fail, key=lambda t: len(t[0]))
        path = core.write_replay(ctx.pid, ctx.seed, {
            "engine": "report", "broken": "range hypotheses of C16_response_in_range_partial fail on a tree parsed without diagnostics",
            "case": c, "case_readable": describe(c), "model": r, "n_failing_cases": len(clean_fail)})
        v = core.Violation("the range hypotheses of the partial locality theorem fail on a cleanly parsed tree", path, False)
        v.coverage = cov
        raise v
    cov.update(dict(histogram=hist, content=stats, range_hypotheses=ranges,
                    rule=("texts written to <tmp>/aCase.god; ProjectManager::generate_document_diagnostic_report twice on one manager; the "
                          "document's parser diagnostics and tree dumped; UnusedVarAnalyzer, FunctionReturnTypeChecker (own AstWalker) and "
                          "UnpurgedVarByteArrayChecker, NamingConventionChecker, InheritedChecker (own walker, own collector) driven one by "
                          "one; the extracted Report.request on the dumped tree + parser diagnostics must print the same response ITEM BY "
                          "ITEM IN ORDER (range, severity, source, tags, full message text; maximal runs of `Unused var` warnings compared "
                          "as multisets: HashMap iteration), the same idempotence flag and the same five per-checker lists (sorted). Oracle "
                          "on the implementation alone: starts with the parser diagnostics in parser order (ERROR/gold/untagged), none "
                          "later; second request identical; the remainder = multiset union of the five checkers' own lists, first all of "
                          "UnusedVarAnalyzer's, then all of FunctionReturnTypeChecker's. Cases: samples of the C16 and C15 generator streams, "
                          "/repo/test/*.god and /repo/test/workspace/*.god, programs with 1-3 injected syntax / lexical errors, programs "
                          "where several rules hit one name or one range (exhaustive product), both regression corpora")))
    return cov


def regression_corpus(ctx):
    """the witnesses of the repaired defects: implementation = model = the property's expectation, no deviation"""
    hb = diff.Engines.harness()
    cs = [cps(t) for t in REGRESSION]
    raws = [split(o) for o in core.run_lines(hb, "lints", cs, shards=1)]
    mods = core.run_lines(diff.Engines.model(), "lints", [r[0] for r in raws], shards=1)
    failing = []
    for c, (tree, obs), m in zip(cs, raws, mods):
        out = canon(obs)
        r = oracle(c, out)
        if r is None and expected(uncps(c)) is None:
            r = "a regression case left the oracle's grammar: the check would be vacuous on it"
        if r is None and canon(m) != out:
            r = "model and implementation disagree on a regression case"
        if r:
            failing.append({"case": c, "case_readable": uncps(c), "observed": out, "model": canon(m), "expected": r})
    if failing:
        first = dict(failing[0])
        first.update({"engine": "lints", "note": "regression corpus: witness of a defect repaired in /repo",
                      "n_failing_cases": len(failing), "all_failing_regression_cases": failing})
        path = core.write_replay(ctx.pid, ctx.seed, first)
        raise core.Violation(first["expected"], path, True)


def correspondence(ctx, broken_obligations=()):
    cases, pairs, hist = gen_programs(ctx)
    cases = [cps(t) for t in REGRESSION] + cases
    hist["regression"] = len(REGRESSION)
    meta = {
        "histogram": hist,
        "rule": ("Gold programs written to <tmp>/aCase.god and analysed through ProjectManager::generate_document_diagnostic_report "
                 "(twice): regression corpus first (witnesses of the seven repaired defects, accepted forms); exhaustive sweeps "
                 "return type x name casing x override x params (ret); method name x proc/func x 26 bodies incl. inherited "
                 "self.X / other method's / other receiver / receiver chain / self.x.X / self.X.foo / (a + X) / on the right of "
                 "an assignment / pass / 'pass' / nested / forward (inh); local type x name x 17 purge variants incl. other "
                 "variable, other callee, second argument, letter case, literal / call / index argument, nested, other method "
                 "(purge); member / parameter / local / type / constant names x modifiers (name); random mixed programs with "
                 "every toggle drawn independently, repeated local names, statements in any order (a Purge may precede the "
                 "declaration) and declarations between methods; permutations of their top-level declarations (also compared "
                 "pairwise on the implementation's own answers); probes of the repaired classes; a malformed stream "
                 "(line/character damage). non-trivial = inside the oracle's grammar with at least one method"),
        "samples": [describe(cases[0]), describe(cases[len(cases) // 2])[:600], describe(cases[-1])[:400]],
        "regression_theorems": ["C16_old_R3_inherited_other_refuted", "C16_old_R4_duplicate_local_refuted",
                                "C16_old_R4_purge_before_decl_refuted", "C16_old_R4_purge_literal_arg_refuted",
                                "C16_old_R5_leak_refuted", "C16_old_local_refuted",
                                "C16_old_R1_case_refuted (code before ef936ba)"],
        "regression_corpus": REGRESSION,
    }
    try:
        with TmpWorkspace():
            # a stage that breaks without a failing input (a witness that no longer reproduces, a model/implementation
            # disagreement the oracle accepts) is kept pending while the later stages search for a concrete one
            pending = []
            try:
                regression_corpus(ctx)
            except core.Violation as v:
                if v.found_input:
                    raise
                pending.append(v)
            try:
                cov = diff.differential(ctx, "lints", cases, split=split, canon=canon, oracle=oracle,
                                        shrinker=shrinker, nontrivial=nontrivial, describe=describe)
            except core.Violation as v:
                if v.found_input:
                    raise
                pending.append(v)
                cov = dict(getattr(v, "coverage", None) or {})
            cov["permutation_pairs_checked"] = permutation_check(ctx, pairs)
            cov["report"] = report_stage(ctx)
            if pending:
                pending[0].coverage = cov
                raise pending[0]
    except core.Violation as v:
        c = dict(getattr(v, "coverage", None) or {})
        c.update(meta)
        v.coverage = c
        raise
    cov.update(meta)
    return cov


def replay_report(ctx, rep):
    case = rep["case"]
    with TmpWorkspace():
        raw = core.run_lines(diff.Engines.harness(), "report", [case], shards=1)[0]
        left, obs = report_split(raw)
        out = report_canon(obs)
        mod = report_canon(core.run_lines(diff.Engines.model(), "report", [left], shards=1)[0])
    r = report_oracle(case, out)
    print("text:\n" + describe(case))
    for name, o in (("implementation", out), ("model", mod)):
        print(name + ":")
        parts = o.split("|")
        for x in [y for y in parts[0].split(";") if y]:
            try:
                print("   ", report_item(x))
            except Exception:
                print("   ", x)
        print("   ", "|".join(parts[1:])[:300])
    print("oracle:", r or "property holds on this case")
    if r or out != mod:
        print("VIOLATION property=C16 replay=%s" % rep.get("how_to_rerun", "?").split()[-1])
        return 1
    return 0


def replay(ctx, rep):
    if rep.get("engine") == "report":
        return replay_report(ctx, rep)
    case = rep["case"]
    with TmpWorkspace():
        hb = diff.Engines.harness()
        raw = core.run_lines(hb, "lints", [case], shards=1)[0]
        tree, obs = split(raw)
        out = canon(obs)
        mod = canon(core.run_lines(diff.Engines.model(), "lints", [tree], shards=1)[0])
        bad = None
        if rep.get("permuted_case"):
            raw2 = core.run_lines(hb, "lints", [rep["permuted_case"]], shards=1)[0]
            print("permuted text:\n" + uncps(rep["permuted_case"]))
            print("implementation (permuted):", canon(split(raw2)[1]))
    r = oracle(case, out)
    print("text:\n" + describe(case))
    print("implementation:", out)
    print("model:         ", mod)
    print("expected:      ", obs_of(expected(describe(case)) or []) if expected(describe(case)) is not None else "(outside the oracle's grammar)")
    print("oracle:", r or "property holds on this case")
    if r or out != mod:
        print("VIOLATION property=C16 replay=%s" % rep.get("how_to_rerun", "?").split()[-1])
        return 1
    return 0
