"""C13  The type hierarchy equals the declared inheritance relation."""
import itertools, random, re
from vlib import core, diff
from checks import forest_common as fc
from checks.forest_common import FileD

MANIFEST = dict(
    engine="E-sem + E-sched (engine forest)",
    technique=("Coq proof over an executable model of EntityTreeService / TypeHierarchyService: heap of nodes + name map, "
               "sequential builder as a fold, parallel builder as a small-step interleaving of per-chunk threads whose atomic steps "
               "are the regions between lock operations (look-up / insert-if-still-absent / look-up / insert-if-still-absent / "
               "check-and-link); invariant over all reachable interleaving states; tied to the code by a differential run of the "
               "extracted model against the in-process ProjectManager on materialised workspaces (both builders, every chunk size, "
               "forced schedules through the yield point of the hooks build) plus an independent oracle (the generated parent map)"),
    text=("Theorems (all file lists whose class declarations form a forest: one file per class name ignoring case, acyclic declared "
          "parents; at most 5000 files so that is_self_or_ancestor's 10 000-step cut-off is out of reach): for ANY enumeration order "
          "the sequential builder yields exactly one node per declared or referenced name and parent/children equal the declared "
          "relation (children as duplicate-free lists, compared up to permutation); two orders and two letter-casings of the names "
          "give the same relation; supertypes/subtypes of a class are its declared parent / the classes declaring it; member "
          "supertypes = the nearest declaration up, member subtypes = the frontier of declarations down (both walkers return, "
          "fuel bounds proved); for ALL chunkings and ALL schedules of the parallel builder the final relation equals the "
          "sequential one, by an invariant over every reachable interleaving state (every allocated node is the map's node for "
          "its name, children lists are duplicate-free inverses of the parent links, links are declared links, chains end); the "
          "cycle check never refuses a link on a forest (builders with and without it coincide step by step). Refutation "
          "witnesses for the code before e20acc7 (unconditional insert: a child is lost under a 10-step schedule) and before "
          "3e4a84d (item named after the first spelling met: order dependent). Correspondence: every forest on <= 4 classes "
          "(quick: <= 3 and a sample of 4) and random forests on <= 6 classes with random member overriding and re-cased "
          "references x both builders x every chunk size x pools of 1..7 workers, forced two-step orderings on every "
          "workspace in which two children share a parent (hooks build), 7-worker stress."),
    note=("PARTIAL: real OS schedules are sampled (chunk sizes, pool sizes, a rendezvous controller at the yield point that parks a "
          "worker whose look-up missed until another worker's look-up has missed too); the theorem is about the interleaving model "
          "whose atomic steps are the regions between lock operations -- that this granularity is faithful (RwLock regions are "
          "atomic, the Arc<Mutex<node>> updates of check-and-link happen under the map's write lock) is an assumption. Trusted: Coq "
          "kernel, extraction (ExtrOcamlBasic), harness, generators. Assumes file stem = class name ignoring case (classes are "
          "found through their stem), ASCII names, member names distinct from class names, the 5000-file bound."),
    design="6 C13",
    engines=[dict(name="E-forest", path="harness/src/eng_forest.rs + coq/extract/eng_forest.ml",
                  kind_free_text="differential: in-process ProjectManager on a materialised workspace (build_tree / build_tree_parallel with a chosen chunk size and pool / forced schedule through the hooks build, then prepare + supertypes + subtypes on every class and member; C14: every request kind on its own thread with a deadline, two rounds) vs extracted Coq models Forest (class tree, walkers) and Locks (lock-aware analysis)"),
             dict(name="E-hiertree", path="harness/src/eng_hiertree.rs + coq/extract/eng_hiertree.ml",
                  kind_free_text="two-phase differential at tree level: documents (stem + text) -> real lexer + parser -> tree dumps; in-process ProjectManager on the materialised workspace (index, class tree as main_loop builds it, prepareTypeHierarchy at every identifier position of every file, supertypes / subtypes of every prepared item) vs extracted HierTree.prepare / supertypes_of / subtypes_of = Forest's builder and walkers on HierTree.forest_input_of_ws of the dumped trees; oracle from the texts")],
)

MANIFEST["text"] += " Fourth session: Model/HierTree.v derives the forest input, the prepared items and their uris/ranges from the REAL trees (engine hiertree); C13_class_super_tree, C13_class_sub_tree, C13_member_up_tree, C13_member_down_tree, C13_order_independent_tree, C13_case_independent_tree are ForestProofs' theorems as statements about trees; C13_tree_item_uri; C13_old_class_item_uri_refuted (the repaired defect 6242e0e). Member-edit histories under a warm cache (engine mode edit:<k>)."

ASSUMPTIONS = [
    "a class is found through its file stem (DocumentService::get_uri_for_class): generated files have stem = class name ignoring letter case; names are ASCII ([A-Za-z0-9_]) so str::to_uppercase is ASCII upper-casing",
    "member names differ from class names and from `self`; one declaration per member name and class (search_symbol_info answers any symbol kind of that name)",
    "atomicity of the modelled steps: a region under the map's RwLock (read: look-up; write: second look-up + insert; write: is_self_or_ancestor + link) commutes with other threads' steps; the per-node Mutexes are only taken inside such a region by the builders",
    "real schedules are sampled, not enumerated: chunk sizes 1..n, pools of 1..7 workers, and (hooks build) a controller that pairs the workers up at `entity:between_lookup_and_insert`; HashMap enumeration order of the files is whatever the run produces (the theorems quantify over all orders)",
    "at most 5000 class files (two nodes per file at most): beyond 10 000 ancestors is_self_or_ancestor refuses a link by its step bound",
    "the controller cannot see WHICH name a worker is about to insert (the hook passes the point name only): it pairs any two workers that both missed a look-up; on workspaces with a shared parent and one worker per file this forces `look-up, look-up, insert, insert` on the parent's name",
]

NAMES = ["aKa", "aKb", "aKc", "aKd", "aKe", "aKf"]
MISSING = "aGone"
MEMBERS = [("Foo", "p"), ("Fld", "v"), ("Calc", "f")]


# --------------------------------------------------------------------------------------------
# generators
# --------------------------------------------------------------------------------------------
def forests(n, with_missing=True):
    """all parent assignments on n labelled classes without a cycle: parent = None | 'x' (a class that has no file) | index"""
    opts = [None] + (["x"] if with_missing else []) + list(range(n))
    for ps in itertools.product(opts, repeat=n):
        ok = True
        for i in range(n):
            seen = set()
            j = i
            while isinstance(j, int):
                if j in seen:
                    ok = False
                    break
                seen.add(j)
                j = ps[j]
            if not ok:
                break
        if ok:
            yield ps


def make_ws(ps, rng, members=True):
    """workspace for the parent assignment ps; parent references and member names re-cased at random"""
    n = len(ps)
    files = []
    decl = [[(nm, k) for (nm, k) in MEMBERS if members and rng.random() < 0.55] for _ in range(n)]
    for i in range(n):
        cls = NAMES[i]
        par = None
        if ps[i] == "x":
            par = fc.recase(MISSING, rng) if rng.random() < 0.5 else MISSING
        elif ps[i] is not None:
            par = fc.recase(NAMES[ps[i]], rng) if rng.random() < 0.6 else NAMES[ps[i]]
        mem = []
        for (nm, k) in decl[i]:
            # an ancestor declares it too? then this is an override (the keyword does not matter to the walkers)
            j, up = ps[i], False
            while isinstance(j, int):
                if any(x[0] == nm for x in decl[j]):
                    up = True
                j = ps[j]
            spelled = nm if rng.random() < 0.6 else fc.recase(nm, rng)
            mem.append((spelled, k, up and rng.random() < 0.8))
        stem = cls if rng.random() < 0.7 else fc.recase(cls, rng)
        files.append(FileD(stem, cls, par, members=mem))
    return files


def shared_parent(ps):
    cnt = {}
    for p in ps:
        if p is not None:
            cnt[p] = cnt.get(p, 0) + 1
    return any(v >= 2 for v in cnt.values())


def modes_for(n, rng, quick):
    ms = ["seq"]
    for c in range(1, n + 1):
        nchunks = (n + c - 1) // c
        ks = sorted(set([1, min(2, nchunks), nchunks]))
        if quick and len(ks) > 2:
            ks = [1, nchunks]
        for k in ks:
            ms.append("par:%d:%d" % (c, k))
    ms.append("par:1:7")
    return ms


def gen(ctx):
    """-> (plain cases, hooks cases, workspace ids per case)"""
    rng = random.Random(ctx.seed)
    plain, hooks = [], []
    wsid = {}
    nws = [0]

    def add(files, ps, stress=1):
        nws[0] += 1
        wid = nws[0]
        n = len(files)
        for m in modes_for(n, rng, ctx.quick):
            order = list(files)
            rng.shuffle(order)
            for _ in range(stress if m == "par:1:7" else 1):
                c = fc.encode_case(m, order)
                plain.append(c)
                wsid[c] = wid
        if shared_parent(ps):
            for m in ("sched:rvA", "sched:rvB"):
                order = list(files)
                rng.shuffle(order)
                c = fc.encode_case(m, order)
                hooks.append(c)
                wsid[c] = wid

    exhaustive_upto = 3 if ctx.quick else 4
    for n in range(1, exhaustive_upto + 1):
        for ps in forests(n):
            add(make_ws(ps, rng), ps)
    if ctx.quick:
        four = list(forests(4))
        for ps in rng.sample(four, 80):
            add(make_ws(ps, rng), ps)
    # random forests on 5 and 6 classes, random member overriding, stress with 7 workers
    nrand = 100 if ctx.quick else 5000
    for _ in range(nrand):
        n = rng.choice([5, 6, 6])
        while True:
            ps = tuple(rng.choice([None, None, "x"] + list(range(n))) for _ in range(n))
            if ps in set(forests_check([ps])):
                break
        add(make_ws(ps, rng), ps, stress=3)
    return plain, hooks, wsid, nws[0]


def forests_check(cands):
    for ps in cands:
        n = len(ps)
        ok = True
        for i in range(n):
            seen, j = set(), i
            while isinstance(j, int):
                if j in seen:
                    ok = False
                    break
                seen.add(j)
                j = ps[j]
            if not ok:
                break
        if ok:
            yield ps


# --------------------------------------------------------------------------------------------
# the property's own statement as an executable oracle (independent of the Coq model): the declared
# parent map of the workspace decides every answer
# --------------------------------------------------------------------------------------------
def item(name, stem, line, col):
    return "%s@%s@%d:%d-%d:%d=%s" % (name.upper(), stem, line, col, line, col + len(name), name)


def expected(files):
    """{tag: (prepare, sup, sub)} from the declarations alone"""
    bycls = dict((f["cls"][0].upper(), f) for f in files if f["cls"])
    parent = {}
    for f in files:
        if f["cls"] and f["par"]:
            parent[f["cls"][0].upper()] = f["par"][0].upper()
    children = {}
    for c, p in parent.items():
        children.setdefault(p, []).append(c)

    def cls_item(k):
        f = bycls.get(k)
        if f is None or f["stem"].upper() != k:
            return []
        return [item(f["cls"][0], f["stem"], f["cls"][1], f["cls"][2])]

    def decl(k, m):
        f = bycls.get(k)
        if f is None:
            return None
        for (nm, kind, l, c) in f["members"]:
            if nm.upper() == m:
                return item(nm, f["stem"], l, c)
        return None

    def down(k, m):
        d = decl(k, m)
        if d is not None:
            return [d]
        out = []
        for c in children.get(k, []):
            out += down(c, m)
        return out

    exp = {}
    for f in files:
        if not f["cls"]:
            continue
        k = f["cls"][0].upper()
        sup = cls_item(parent[k]) if k in parent else []
        sub = []
        for c in children.get(k, []):
            sub += cls_item(c)
        exp["c." + f["stem"]] = ([item(f["cls"][0], f["stem"], f["cls"][1], f["cls"][2])], sorted(sup), sorted(sub))
        for (nm, kind, l, c) in f["members"]:
            m = nm.upper()
            up = []
            j = parent.get(k)
            while j is not None:
                d = decl(j, m)
                if d is not None:
                    up = [d]
                    break
                if j not in bycls:
                    break
                j = parent.get(j)
            dn = []
            for ch in children.get(k, []):
                dn += down(ch, m)
            exp["m.%s.%s" % (f["stem"], nm)] = ([item(nm, f["stem"], l, c)], up, sorted(dn))
    return exp


SEEN = {}


def oracle(case, impl_out):
    try:
        mode, files = fc.decode_case(case)
    except Exception:
        return None
    if impl_out.startswith("PANIC") or impl_out in ("CRASH", "HANG") or impl_out.startswith("ERR") or impl_out == "NOHOOKS":
        return "mode %s: the hierarchy was not answered: %s" % (mode, impl_out[:200])
    exp = expected(files)
    got = fc.parse_hier(impl_out)
    if set(got) != set(exp):
        return "mode %s: answers for %s, expected for %s" % (mode, sorted(got), sorted(exp))
    for tag in sorted(exp):
        for what, g, e in zip(("prepareTypeHierarchy", "supertypes", "subtypes"), got[tag], exp[tag]):
            if g != e:
                return ("mode %s: %s of %s is %s, the declarations say %s (name upper-cased @ file stem @ selection range = name as "
                        "declared)" % (mode, what, tag, g, e))
    return None


def nontrivial(case):
    try:
        mode, files = fc.decode_case(case)
    except Exception:
        return False
    withpar = [f for f in files if f["par"]]
    return len(withpar) >= 2 and any(f["members"] for f in files)


def to_filed(f):
    lines = f["text"].split("\n")
    mem = []
    for (nm, kind, l, c) in f["members"]:
        mem.append((nm, kind, lines[l].rstrip().endswith(" override")))
    return FileD(f["stem"], f["cls"][0] if f["cls"] else None, f["par"][0] if f["par"] else None, f["uses"], mem)


def shrinker(case):
    try:
        mode, files = fc.decode_case(case)
    except Exception:
        return
    fds = [to_filed(f) for f in files]
    for i in range(len(fds)):
        yield fc.encode_case(mode, fds[:i] + fds[i + 1:])
    for i, fd in enumerate(fds):
        for j in range(len(fd.members)):
            g = FileD(fd.stem, fd.cls, fd.par, fd.uses, fd.members[:j] + fd.members[j + 1:])
            yield fc.encode_case(mode, fds[:i] + [g] + fds[i + 1:])
        if fd.par is not None:
            g = FileD(fd.stem, fd.cls, None, fd.uses, fd.members)
            yield fc.encode_case(mode, fds[:i] + [g] + fds[i + 1:])


# classes of open findings this check knows how to recognise (none is listed at the moment; the two
# defects of this property, e20acc7 and 3e4a84d, and the POSIX-path defect of build_tree, 8bd8521, are repaired)
def make_known(ctx):
    listed = dict((f.get("class"), f.get("id")) for f in ctx.open_findings())

    def known(case, impl_out, model_out):
        if not listed:
            return None
        mode = case.split("|", 1)[0]
        if "seq-builder-posix-path" in listed and mode == "seq":
            got = fc.parse_hier(impl_out)
            if got and all(v[1] in ([], "-") and v[2] in ([], "-") for v in got.values()):
                return "%s: build_tree left the class tree empty (every file skipped)" % listed["seq-builder-posix-path"]
        return None
    return known



# =============================================================================================
# tree-level tie (several documents): Model/HierTree.v, Proofs/HierTreeProofs.v, C13_tree_*
# engine `hiertree` (two-phase): documents (stem + text) -> real lexer + parser -> tree dumps + every identifier position
# -> real ProjectManager on the materialised workspace (index, class tree as main_loop builds it, prepare at every
# position, supertypes / subtypes of every prepared item) vs the extracted HierTree.prepare / supertypes_of /
# subtypes_of (Forest.v's builder and walkers on HierTree.forest_input_of_ws of the dumped trees)
# =============================================================================================
import glob, os

HT_HEADER = re.compile(r"^\s*(class|module)\s+(\w+)\s*(?:\(\s*(\w+)\s*\))?", re.I)
HT_METHOD = re.compile(r"^\s*(procedure|function|proc|func)\s+(\w+)", re.I)
HT_END = re.compile(r"^\s*(endproc|endfunc)\b", re.I)
HT_CONST = re.compile(r"^\s*(const|type)\s+(\w+)", re.I)
HT_FIELD = re.compile(r"^(\s*)(\w+)\s*:")


def ht_cps(t):
    return ".".join(str(ord(c)) for c in t)


def ht_case(files, kind):
    return ";".join("%s~%s" % (st, ht_cps(tx)) for st, tx in files) + "@" + kind


def ht_files(case):
    out = []
    for f in case.split("@")[0].split(";"):
        if not f:
            continue
        st, cp = f.split("~", 1)
        out.append((st, "".join(chr(int(x)) for x in cp.split(".")) if cp else ""))
    return out


def ht_describe(case):
    try:
        return {"kind": case.rsplit("@", 1)[1], "files": dict((st + ".god", tx) for st, tx in ht_files(case))}
    except Exception:
        return case


def ht_read(stem, text):
    """what the declarations of one text say, read off the text alone:
       entity = first header (kind, name, parent); root = {NAME: [(name, kind letter, line, col)]} the names the root table
       holds (headers / constants / types / fields written before the first method, every method); plain = header is the
       first declaration, named like the stem, no second header, nothing but methods after the first method, every root
       name declared once"""
    entity, headers, root, decls = None, [], {}, []
    in_m, seen_m, first_decl, in_rec, late = False, False, None, False, False
    for l, line in enumerate(text.split("\n")):
        code = line.split(";")[0]
        if not code.strip():
            continue
        if in_rec:
            if re.match(r"^\s*endrecord\b", code, re.I):
                in_rec = False
            continue
        if not in_m and re.search(r":\s*record\s*$", code, re.I):
            in_rec = True                      # the fields of a record type are not declarations of the document
        m = HT_METHOD.match(code)
        if m and not in_m:
            in_m, seen_m = True, True
            first_decl = first_decl or "method"
            root.setdefault(m.group(2).upper(), []).append((m.group(2), "f", l, m.start(2), code))
            continue
        if HT_END.match(code):
            in_m = False
            continue
        if in_m:
            continue
        m = HT_HEADER.match(code)
        if m:
            first_decl = first_decl or "header"
            headers.append((m.group(1).lower(), m.group(2), m.group(3)))
            if entity is None:
                entity = (m.group(1).lower(), m.group(2), m.group(3) if m.group(1).lower() == "class" else None)
            if not seen_m:
                root.setdefault(m.group(2).upper(), []).append((m.group(2), "c" if m.group(1).lower() == "class" else "o", l, m.start(2), code))
                if m.group(1).lower() == "class":
                    root.setdefault("SELF", []).append(("self", "c", l, m.start(2), code))
            continue
        m = HT_CONST.match(code)
        if m:
            first_decl = first_decl or "member"
            if not seen_m:
                root.setdefault(m.group(2).upper(), []).append((m.group(2), "o", l, m.start(2), code))
            else:
                late = True
            continue
        m = HT_FIELD.match(code)
        if m:
            first_decl = first_decl or "member"
            if not seen_m:
                root.setdefault(m.group(2).upper(), []).append((m.group(2), "v", l, m.start(2), code))
            else:
                late = True
            continue
    plain = (entity is not None and first_decl == "header" and len(headers) == 1 and entity[1].upper() == stem.upper()
             and not late and all(len(v) == 1 for v in root.values()))
    return dict(stem=stem, entity=entity, root=root, plain=plain, text=text)


def ht_items(s):
    """items of one part -> list of (kind, name, stem, sel, range) | 'ERR' | '!' | '~'"""
    if s in ("ERR", "!", "~") or s.startswith("MODEL"):
        return s
    if s in ("-", ""):
        return []
    out = []
    for it in s.split(","):
        k, n, st, a, b = it.split("/")
        dec = lambda x: "" if x == "-" else "".join(chr(int(c)) for c in x.split("."))
        out.append((k, dec(n), dec(st), tuple(int(x) for x in a.split(":")), tuple(int(x) for x in b.split(":"))))
    return out


def ht_parts(a):
    i, j = a.index("S"), a.index("B")
    return a[1:i], a[i + 1:j], a[j + 1:]


HT_FOREIGN = "link-names-the-stem-file-of-the-class-name"
HT_FOREIGN_LISTED = [any(f.get("property") == "C13" and f.get("id") == HT_FOREIGN for f in core.load_known_findings().get("findings", []))]
HT_FOREIGN_SEEN = [0]


def ht_oracle(case, obs):
    """C13's statement on the implementation's answers alone: the relation declared by the texts decides supertypes and
       subtypes of every prepared item; an item's selection range selects its own name in the file it points to"""
    if obs == "" or obs.startswith("X"):
        return None
    if obs.startswith("PANIC") or obs == "CRASH" or "#" not in obs:
        return "the case was not answered: %s" % obs[:100]
    try:
        files = ht_files(case)
    except Exception:
        return None
    infos = [ht_read(st, tx) for st, tx in files]
    bystem = dict((i["stem"].upper(), i) for i in infos)
    parent, seen = {}, set()
    for i in infos:
        if i["entity"]:
            k = i["entity"][1].upper()
            if k in seen:
                return None                      # two files declare one class: not a forest, the answer depends on the order
            seen.add(k)
            if i["entity"][2]:
                parent[k] = i["entity"][2].upper()
    for k in parent:
        j, n = k, 0
        while j in parent:
            j, n = parent[j], n + 1
            if n > len(parent) + 1:
                return None                      # a cycle: not a forest
    children = {}
    for c, p in parent.items():
        children.setdefault(p, []).append(c)
    poss_s, ans_s = obs.split("#", 1)
    poss, answers = poss_s.split("|"), ans_s.split("|")
    lines_of = dict((i["stem"].upper(), i["text"].split("\n")) for i in infos)
    import re as _re2
    not_at_home = any(len(_re2.findall(r"^\s*(?:class|module)\b", i["text"], _re2.I | _re2.M)) > 1
                      or (i["entity"] and i["entity"][1].upper() != i["stem"].upper()) for i in infos)

    def sel_ok(it):
        k, n, st, sel, rg = it
        ls = lines_of.get(st.upper())
        if ls is None:
            return "item %r points to the file %s.god that is not in the workspace" % (n, st)
        if sel[0] != sel[2] or sel[0] >= len(ls) or ls[sel[0]][sel[1]:sel[3]] != n.split("#")[0] and n != "self":
            if HT_FOREIGN_LISTED[0] and not_at_home:
                # listed finding (known_findings.json, C08/C13): a table knows its class NAME; a file with two headers, or
                # whose class is not called like the file, is named through the stem index by that name
                HT_FOREIGN_SEEN[0] += 1
                return None
            return "the selection range %r of item %r does not select that name in %s.god" % (sel, n, st)
        if not ((rg[0], rg[1]) <= (sel[0], sel[1]) and (sel[2], sel[3]) <= (rg[2], rg[3])):
            return "selection range %r of item %r outside its range %r" % (sel, n, rg)
        return None

    def up(c, m):
        """nearest declaration strictly above class c -> [(NAME, STEM)] | None when a document on the way is not plain"""
        j = parent.get(c)
        while j is not None:
            d = bystem.get(j)
            if d is None:
                return []
            if not d["plain"]:
                return None
            if m in d["root"]:
                return [(m, j)]
            j = parent.get(j)
        return []

    def down(c, m):
        out = []
        for ch in children.get(c, []):
            d = bystem.get(ch)
            if d is None:
                continue
            if not d["plain"]:
                return None
            if m in d["root"]:
                out.append((m, ch))
            else:
                r = down(ch, m)
                if r is None:
                    return None
                out += r
        return out

    for k, info in enumerate(infos):
        ps = [tuple(int(x) for x in p.split(":")) for p in poss[k].split(",")] if k < len(poss) and poss[k] else []
        an = answers[k].split(";") if k < len(answers) and answers[k] else []
        if len(an) != len(ps):
            return "file %s: %d positions, %d answers" % (info["stem"], len(ps), len(an))
        # the declared names of a plain document, by position
        expect_at = {}
        if info["plain"]:
            for key, v in info["root"].items():
                (nm, kd, l, c, code) = v[0]
                if key == "SELF" or len(re.findall(r"\b%s\b" % re.escape(nm), code, re.I)) != 1:
                    continue
                for col in range(c, c + len(nm) + 1):
                    expect_at[(l, col)] = (nm, kd, c)
        for (l, c), a in zip(ps, an):
            where = "%s.god %d:%d" % (info["stem"], l, c)
            if "!" in a:
                return "%s: a request panicked: %s" % (where, a[:80])
            pp, sp, bp = ht_parts(a)
            prep, sup, sub = ht_items(pp), ht_items(sp), ht_items(bp)
            if (l, c) in expect_at:
                nm, kd, col = expect_at[(l, c)]
                if kd == "o":
                    if prep != []:
                        return "%s: on the declared name of the constant / type / module %s an item is prepared: %s" % (where, nm, pp)
                else:
                    if not (isinstance(prep, list) and len(prep) == 1 and prep[0][0] == kd and prep[0][1] == nm
                            and prep[0][2].upper() == info["stem"].upper() and prep[0][3] == (l, col, l, col + len(nm))):
                        return "%s: on the declared name %s (%s) prepareTypeHierarchy gives %s" % (where, nm, kd, pp)
            if not (isinstance(prep, list) and len(prep) == 1):
                continue
            it = prep[0]
            r = sel_ok(it)
            if r:
                return "%s: prepared %s" % (where, r)
            for part, name in ((sup, "supertypes"), (sub, "subtypes")):
                if not isinstance(part, list):
                    d = bystem.get(it[2].upper())
                    if d is not None and d["plain"]:
                        return "%s: %s of %s not answered: %s" % (where, name, it[1], part)
                    continue
                for x in part:
                    r = sel_ok(x)
                    if r:
                        return "%s: %s: %s" % (where, name, r)
            if not (isinstance(sup, list) and isinstance(sub, list)):
                continue
            gs = sorted((x[1].upper(), x[2].upper()) for x in sup)
            gb = sorted((x[1].upper(), x[2].upper()) for x in sub)
            if it[0] == "c":
                n = it[1].upper()
                if n == "SELF":
                    continue
                es = [parent[n]] if n in parent else []
                if [x[1] for x in gs if x[1] not in es] or len(gs) > 1:
                    return "%s: supertypes of class %s are %s, the headers declare %s" % (where, it[1], gs, es)
                for key in es:
                    d = bystem.get(key)
                    if d is not None and d["plain"] and gs != [(key, key)]:
                        return "%s: supertypes of class %s are %s, the header declares %s (which has a file)" % (where, it[1], gs, key)
                    if d is None and gs:
                        return "%s: supertypes of class %s are %s, its parent %s has no file" % (where, it[1], gs, key)
                eb = children.get(n, [])
                if [x for x in gb if x[1] not in eb] or len(set(gb)) != len(gb):
                    return "%s: subtypes of class %s are %s, the classes declaring it as parent are %s" % (where, it[1], gb, sorted(eb))
                for key in eb:
                    d = bystem.get(key)
                    if d is not None and d["plain"] and (key, key) not in gb:
                        return "%s: subtypes of class %s are %s: %s declares it as parent and is missing" % (where, it[1], gb, key)
            else:
                d = bystem.get(it[2].upper())
                if d is None or not d["plain"]:
                    continue
                c0, m = d["entity"][1].upper(), it[1].upper()
                eu, ed = up(c0, m), down(c0, m)
                if eu is not None and gs != sorted(eu):
                    return "%s: supertypes of member %s of %s are %s, the nearest declaration above is %s" % (where, it[1], d["entity"][1], gs, eu)
                if ed is not None and gb != sorted(ed):
                    return "%s: subtypes of member %s of %s are %s, the nearest declarations below are %s" % (where, it[1], d["entity"][1], gb, sorted(ed))
    return None


def ht_texts(fds):
    return [(f.stem, f.render()[0]) for f in fds]


def ht_mutate(rng, files, how):
    """documents the forest generators never make: header not the first declaration, module, no class, second header,
       a constant / type named like a member, stem unlike the class name"""
    files = [list(f) for f in files]
    k = rng.randrange(len(files))
    st, tx = files[k]
    ls = tx.split("\n")
    hdr = [i for i, l in enumerate(ls) if HT_HEADER.match(l)]
    meth = [i for i, l in enumerate(ls) if HT_METHOD.match(l)]
    if how == "late_header" and hdr:
        h = ls.pop(hdr[0])
        at = (meth[0] - 1) if meth else len(ls) - 1
        ls.insert(max(at, 0), h)                       # after the fields, in front of the first method
    elif how == "header_after_method" and hdr and meth:
        h = ls.pop(hdr[0])
        ends = [i for i, l in enumerate(ls) if HT_END.match(l)]
        ls.insert(ends[0] + 1, h)
    elif how == "const_first" and hdr:
        ls.insert(0, "const cFirst = 1")
    elif how == "module" and hdr:
        m = HT_HEADER.match(ls[hdr[0]])
        ls[hdr[0]] = "module %s" % m.group(2)
    elif how == "two_headers" and hdr:
        ls.insert(hdr[0] + 1, "class aSecondHeader (%s)" % rng.choice(NAMES))
    elif how == "const_member" and hdr:
        nm = rng.choice(MEMBERS)[0]
        ls.insert(hdr[0] + 1, rng.choice(["const %s = 1", "type %s : int4"]) % fc.recase(nm, rng))
    elif how == "stem_mismatch":
        st = st + "X"
    elif how == "body":
        # references inside a method body: own members, inherited members, self, a dot
        if meth:
            refs = ["   Fld = p1", "   self.Foo(p1)", "   Foo(1)", "   p1 = Calc(2) + Fld", "   self.Fld = 1", "   zz = self"]
            ls.insert(meth[0] + 1, rng.choice(refs))
            ls.insert(meth[0] + 1, rng.choice(refs))
    elif how == "dup_member" and hdr:
        nm = rng.choice(MEMBERS)[0]
        ls.insert(hdr[0] + 1, "%s : int4" % fc.recase(nm, rng))
        ls.insert(hdr[0] + 1, "%s : cstring" % fc.recase(nm, rng))
    elif how == "member_named_class" and hdr:
        ls.insert(hdr[0] + 1, "%s : int4" % rng.choice(NAMES + ["self", "SELF", st]))
    elif how == "decl_after_method" and meth:
        ls.append(rng.choice(["Late : int4", "const Foo = 2", "Fld : int4", "type Calc : int4"]))
    elif how == "xref":
        # a reference to an ANCESTOR class in a type annotation (found through the chain of parent tables), the
        # declaring file's header below comment lines: the item must name the declaring file (6242e0e)
        kids = [i for i, (s_, t_) in enumerate(files) if (HT_HEADER.match(t_.split("\n")[0]) or [None] * 4)[3]]
        byname = dict((s_.upper(), i) for i, (s_, t_) in enumerate(files))
        kids = [i for i in kids if HT_HEADER.match(files[i][1].split("\n")[0]).group(3).upper() in byname]
        if kids:
            k = rng.choice(kids)
            st, tx = files[k]
            ls = tx.split("\n")
            par = HT_HEADER.match(ls[0]).group(3)
            j = byname[par.upper()]
            ls.insert(1, "RefUp : %s" % (par if rng.random() < 0.5 else fc.recase(par, rng)))
            if j != k:
                files[j][1] = "".join("; comment line %d\n" % n for n in range(rng.randrange(1, 4))) + files[j][1]
    elif how == "no_class":
        files.append(["aNoClass%d" % rng.randrange(9), "; no class in this file\nFld : int4\n\nproc Foo(p1 : int4)\n   ; body\nendproc\n"])
    elif how == "empty":
        files.append(["aEmpty", ""])
    files[k] = [st, "\n".join(ls)]
    return [tuple(f) for f in files]


HT_MUTS = ["late_header", "header_after_method", "const_first", "module", "two_headers", "const_member", "stem_mismatch",
           "body", "no_class", "empty", "dup_member", "member_named_class", "decl_after_method", "xref", "xref"]


def ht_cases(ctx):
    rng = random.Random(ctx.seed * 7919 + 13)
    cases, hist = [], {}

    def add(kind, files):
        # stems pairwise distinct ignoring case (class_uri_map keeps one of two such files, which one depends on read_dir)
        if len(set(s.upper() for s, _ in files)) != len(files):
            return
        cases.append(ht_case(files, kind))
        hist[kind] = hist.get(kind, 0) + 1

    scale = 1 if ctx.quick else 8
    base = []
    # the regression of 6242e0e (C13_old_class_item_uri_refuted): the declaring class's header on line 2, a two-line
    # referring file; before the repair the class item prepared on `aKa` in aKb.god named aKb.god with aKa.god's ranges
    add("xref_fixed", [("aKa", "; c1\n; c2\nclass aKa\n\nFld : int4\n"), ("aKb", "class aKb (aKa)\nRef : aKa\n")])
    add("xref_fixed", [("aKb", "class aKb (AKA)\nRef : akA\n"),
                       ("aKa", "; c1\n; c2\n; c3\n; c4\n; c5\n   class aKa\n\nFld : int4\n")])
    for n in (1, 2, 3):
        fs = list(forests(n))
        for ps in (fs if len(fs) <= 30 else rng.sample(fs, 30 * scale if 30 * scale < len(fs) else len(fs))):
            w = make_ws(ps, rng)
            base.append(w)
            add("forest_%d" % n, ht_texts(w))
    four = list(forests(4))
    for ps in rng.sample(four, min(len(four), 60 * scale)):
        w = make_ws(ps, rng)
        base.append(w)
        add("forest_4", ht_texts(w))
    for _ in range(60 * scale):
        n = rng.choice([5, 6])
        while True:
            ps = tuple(rng.choice([None, None, "x"] + list(range(n))) for _ in range(n))
            if list(forests_check([ps])):
                break
        w = make_ws(ps, rng)
        base.append(w)
        add("forest_5_6", ht_texts(w))
    for _ in range(240 * scale):
        w = rng.choice(base)
        how = rng.choice(HT_MUTS)
        files = ht_mutate(rng, ht_texts(w), how)
        r = rng.random()
        if r < 0.3:
            files = ht_mutate(rng, files, "body")
        elif r < 0.45:
            files = ht_mutate(rng, files, rng.choice(HT_MUTS))
        add(how, files)
    # the repository's own test workspace: the top-level files, and those together with TypeHierarchyTest/
    top = sorted(glob.glob("/repo/test/workspace/*.god"))
    sub = sorted(glob.glob("/repo/test/workspace/TypeHierarchyTest/*.god"))
    rd = lambda f: (os.path.splitext(os.path.basename(f))[0], open(f, "rb").read().decode("utf-8", errors="replace"))
    if top:
        add("repo_workspace", [rd(f) for f in top])
        add("repo_workspace", [rd(f) for f in top + sub])
        add("repo_workspace", [rd(f) for f in reversed(top)])
    if sub:
        add("repo_workspace", [rd(f) for f in sub])
    return cases, hist


def ht_split(out):
    # the model receives the whole line; the observation = "<positions>#<answers>" (the model echoes the positions)
    return (out, out.split("@", 1)[1]) if "@" in out and "#" in out else (out, out)


def ht_canon(x):
    return x.replace("?", "")


def ht_shrinker(case):
    try:
        files = ht_files(case)
        kind = case.rsplit("@", 1)[1]
    except Exception:
        return
    for i in range(len(files)):
        if len(files) > 1:
            yield ht_case(files[:i] + files[i + 1:], kind)
    for i, (st, tx) in enumerate(files):
        ls = tx.split("\n")
        for j in range(len(ls)):
            if ls[j].strip() and not HT_HEADER.match(ls[j]):
                yield ht_case(files[:i] + [(st, "\n".join(ls[:j] + ls[j + 1:]))] + files[i + 1:], kind)


def ht_nontrivial(case):
    try:
        infos = [ht_read(st, tx) for st, tx in ht_files(case)]
    except Exception:
        return False
    return len([i for i in infos if i["entity"] and i["entity"][2]]) >= 2


def hiertree_stage(ctx):
    HT_FOREIGN_LISTED[0] = any(f.get("id") == HT_FOREIGN for f in ctx.open_findings())
    HT_FOREIGN_SEEN[0] = 0
    try:
        return _hiertree_stage(ctx)
    finally:
        if HT_FOREIGN_SEEN[0]:
            ctx.known("%s: %d items of workspaces with a two-header file / a file not named after its class name the stem file of the table's class name" % (HT_FOREIGN, HT_FOREIGN_SEEN[0]))


def _hiertree_stage(ctx):
    cases, hist = ht_cases(ctx)
    cov = diff.differential(ctx, "hiertree", cases, split=ht_split, oracle=ht_oracle, canon=ht_canon,
                            shrinker=ht_shrinker, nontrivial=ht_nontrivial, describe=ht_describe)
    # how much the model answers itself (not Outside), how many items are prepared and walked
    hb = diff.Engines.harness()
    raw = core.run_lines(hb, "hiertree", cases)
    mod = core.run_lines(diff.Engines.model(), "hiertree", raw)
    st = {"positions": 0, "prepare_outside": 0, "prepared_class": 0, "prepared_member": 0, "prepare_err": 0,
          "walks": 0, "walks_outside": 0, "walks_nonempty": 0, "documents": 0, "plain_documents": 0}
    for c, m in zip(cases, mod):
        try:
            infos = [ht_read(s_, t_) for s_, t_ in ht_files(c)]
            st["documents"] += len(infos)
            st["plain_documents"] += len([i for i in infos if i["plain"]])
        except Exception:
            pass
        if "#" not in m:
            continue
        for fa in m.split("#", 1)[1].split("|"):
            for a in (fa.split(";") if fa else []):
                pp, sp, bp = ht_parts(a)
                st["positions"] += 1
                if pp.startswith("?"):
                    st["prepare_outside"] += 1
                if pp.lstrip("?") == "ERR":
                    st["prepare_err"] += 1
                if pp.lstrip("?").startswith("c/"):
                    st["prepared_class"] += 1
                if pp.lstrip("?")[:2] in ("f/", "v/"):
                    st["prepared_member"] += 1
                for w in (sp, bp):
                    if w != "~":
                        st["walks"] += 1
                        if w.startswith("?"):
                            st["walks_outside"] += 1
                        if w.lstrip("?") not in ("-", "ERR"):
                            st["walks_nonempty"] += 1
    cov["workspaces"] = len(cases)
    cov["input_histogram"] = hist
    cov["requests"] = st
    cov["rule"] = ("workspaces of c13's own generators (every forest on 1-2 classes, samples of those on 3-6; parent references, "
                   "stems and member names re-cased, parents without a file, members Foo / Fld / Calc overridden at random) as "
                   "documents (stem + text); the same with one document made irregular (header after the fields / after a method, a "
                   "constant in front of the header, module, second header, a constant or type named like a member, stem unlike "
                   "the class name, a field typed with an ancestor class whose header stands below comment lines (cross-file "
                   "class item: its uri must name the declaring file), references in a method body, a file without class, an empty file); /repo/test/workspace (top "
                   "level, with TypeHierarchyTest/, reversed). Per workspace: every tree dumped, the class tree built as main_loop "
                   "does, prepareTypeHierarchy at start / middle / end of EVERY identifier token of every file, then supertypes and "
                   "subtypes of every prepared item, vs HierTree.prepare / supertypes_of / subtypes_of on the dumps (items = kind, "
                   "name, stem of the uri, selection range, range; supertypes / subtypes sorted). Parts the model classifies as "
                   "Outside (a look-up that leaves the document, the right operand of a dot) are skipped and counted. Oracle "
                   "(implementation alone): the headers and declarations read off the TEXTS decide supertypes / subtypes of every "
                   "prepared class and member item (exactly, where the documents concerned are plain: header first, named like the "
                   "stem, names declared once; as an upper bound otherwise), on a declared name of a plain document the item of "
                   "that declaration is prepared, every item's selection range selects its name in the file of its uri and lies "
                   "inside its range")
    cov["samples"] = [ht_describe(cases[0]), ht_describe(cases[len(cases) // 2])]
    return cov


def correspondence(ctx, broken_obligations=()):
    plain, hooks, wsid, nws = gen(ctx)
    known = make_known(ctx)
    cov = fc.batched_differential(ctx, "forest", plain, oracle, shrinker, known=known,
                                  nontrivial=nontrivial, describe=fc.describe)
    covh = fc.batched_differential(ctx, "forest", hooks, oracle, shrinker, known=known,
                                   nontrivial=nontrivial, describe=fc.describe, hooks=True)
    for k in ("programs", "evaluations", "distinct_nontrivial", "disagreements_checked", "oracle_failures"):
        cov[k] = cov[k] + covh[k]
    cov["diff_wall_s"] = round(cov["diff_wall_s"] + covh["diff_wall_s"], 2)
    cov["forced_schedule_cases"] = len(hooks)
    cov["workspaces"] = nws
    hist = {}
    for c in plain + hooks:
        m = c.split("|", 1)[0].split(":")[0]
        hist[m] = hist.get(m, 0) + 1
    cov["input_histogram"] = hist
    upto = 3 if ctx.quick else 4
    cov["exhaustive"] = True
    cov["rule"] = ("every parent assignment without a cycle on 1..%d classes (parent = none / a class without a file / another class), "
                   "%s, and random forests on 5-6 classes; per workspace: classes aKa.., members Foo (proc) / Fld (field) / Calc (func) "
                   "declared by a random subset of the classes with random letter case and override flags, parent references and file "
                   "stems re-cased at random, file order shuffled per case; modes: seq, par:<chunk>:<workers> for every chunk size "
                   "1..n with 1 / 2 / as many workers as chunks, par:1:7 (x3 on the random forests), and on every workspace where two "
                   "classes share a parent the forced schedules sched:rvA / sched:rvB on the hooks build; observation = "
                   "prepare/supertypes/subtypes of every class and member as sorted sets of (NAME@stem@selection range=name); "
                   "non-trivial = at least two classes with a parent and some member; %d workspaces; answers of all modes of a "
                   "workspace are compared with the same declaration-derived expectation, hence with each other"
                   % (upto, "a sample of 80 of the 4-class ones" if ctx.quick else "all of them exhaustively", nws))
    cov["samples"] = [fc.describe(plain[0]), fc.describe(plain[len(plain) // 2]), fc.describe(hooks[-1]) if hooks else None]
    cov["refuted_or_partial"] = [
        "C13_old_par_refuted (code before e20acc7: unconditional insert after the missed look-up loses a child; the invariant needs the repair)",
        "C13_old_name_refuted (code before 3e4a84d: item named after the first spelling met)",
        "partial: real OS schedules sampled; theorem about the interleaving model (see level_note)"]
    cov["regressions_replayed"] = [
        "fixed: property=C13 e20acc7 lost child under the forced look-up/look-up/insert/insert schedule (sched:rvA, sched:rvB cases)",
        "fixed: property=C13 3e4a84d order-dependent item name (re-cased parent references, shuffled orders)",
        "fixed: property=C13 8bd8521 build_tree skipped every file on POSIX paths (mode seq)"]
    # a member set changing under a warm cache: file k starts without its members, every query is asked once, then a
    # didChange brings k's members and every query is asked again; the second round must be the hierarchy of the full
    # texts (the class headers never change, so the forest is the same throughout). Implementation + oracle only.
    erng = random.Random(ctx.seed + 13)
    seen_ws, ecases = set(), []
    chain = [FileD("aKa", "aKa", None, members=[("Foo", "p", False), ("Fld", "v", False)]),
             FileD("aKb", "aKb", "aKa", members=[("Foo", "p", True), ("Fld", "v", True)]),
             FileD("aKc", "aKc", "aKb", members=[]),
             FileD("aKd", "aKd", "aKc", members=[("Foo", "p", True), ("Fld", "v", True), ("Calc", "f", False)])]
    for k in range(4):
        ecases.append(fc.encode_case("edit:%d" % k, chain))
        ecases.append(fc.encode_case("edit:%d" % (3 - k), list(reversed(chain))))
    for c in plain:
        w = wsid[c]
        if w in seen_ws:
            continue
        seen_ws.add(w)
        _, fds = fc.decode_case(c)
        ks = [i for i, f in enumerate(fds) if f["members"]]
        erng.shuffle(ks)
        for k in ks[: (1 if ctx.quick else 3)]:
            ecases.append(fc.with_mode(c, "edit:%d" % k))
    if ctx.quick:
        ecases = ecases[:8] + erng.sample(ecases[8:], min(len(ecases) - 8, 400))
    eouts = core.run_lines(diff.Engines.harness(), "forest", ecases)
    for c, o in zip(ecases, eouts):
        r = oracle(c, o)
        if r and not known(c, o, None):
            path = core.write_replay(ctx.pid, ctx.seed, {"engine": "forest", "case": c, "case_readable": fc.describe(c),
                                                         "observed": o, "expected": r})
            v = core.Violation(r, path, True)
            v.coverage = cov
            raise v
    cov["member_edit_histories"] = len(ecases)
    # the tree build overlapping a notification that holds a document's write lock: the builder waits, it does not skip the file
    hb_hooks = diff.Engines.harness(hooks=True)
    outs = core.run_lines(hb_hooks, "sched", ["tree_vs_change;x"] * (3 if ctx.quick else 20), shards=3)
    for o in outs:
        if o != "tree=aBase hook=true":
            bad = ("the class tree built while a change notification held aDoc's write lock lost or mangled aDoc's parent link: "
                   "supertypes(aDoc) observed as %r, expected aBase" % o)
            path = core.write_replay(ctx.pid, ctx.seed, {"engine": "E-sched", "case": "tree_vs_change;x", "observed": o, "expected": bad})
            v = core.Violation(bad, path, True)
            v.coverage = cov
            raise v
    cov["tree_build_vs_change_schedules"] = len(outs)
    try:
        cov["hiertree"] = hiertree_stage(ctx)
    except core.Violation as v:
        cv = getattr(v, "coverage", {}) or {}
        cov["hiertree"] = cv
        v.coverage = cov
        raise
    return cov


def replay(ctx, rep):
    case = rep["case"]
    if rep.get("engine") == "hiertree":
        out = core.run_lines(diff.Engines.harness(), "hiertree", [case], shards=1)[0]
        obs = ht_split(out)[1]
        mod = core.run_lines(diff.Engines.model(), "hiertree", [out], shards=1)[0]
        r = ht_oracle(case, obs)
        print("case:", ht_describe(case))
        print("implementation:", obs)
        print("model:", mod)
        print("oracle:", r or "property holds on this case")
        if r:
            print("VIOLATION property=C13 replay=%s" % rep.get("how_to_rerun", "").split()[-1])
            return 1
        if ht_canon(mod) != obs:
            print("model and implementation disagree")
            return 1
        return 0
    if rep.get("engine") == "E-sched":
        o = core.run_lines(diff.Engines.harness(hooks=True), "sched", [case], shards=1)[0]
        print("forced schedule:", case, "->", o)
        if o != "tree=aBase hook=true":
            print("VIOLATION property=C13 replay=%s" % rep.get("how_to_rerun", "?").split()[-1])
            return 1
        print("property holds on this schedule")
        return 0
    hooks = case.startswith("sched")
    hb = diff.Engines.harness(hooks=hooks)
    r, out = None, None
    for out in core.run_lines(hb, "forest", [case] * 12, shards=1):     # schedule / enumeration order vary
        r = oracle(case, out)
        if r:
            break
    print("case:", fc.describe(case))
    print("implementation:", out)
    print("oracle:", r or "property holds on this case")
    if r:
        print("VIOLATION property=C13 replay=%s" % rep.get("how_to_rerun", "").split()[-1])
        return 1
    return 0
