"""C13  The type hierarchy equals the declared inheritance relation."""
import itertools, random, re
from vlib import core, diff
from checks import forest_common as fc
from checks.forest_common import FileD

MANIFEST = dict(
    engine="E-sem + E-sched (engine forest)",
    technique=("Coq proof over an executable model of EntityTreeService / TypeHierarchyService: heap of nodes + name map, "
               "sequential builder as a fold, parallel builder as a small-step interleaving of per-chunk threads whose atomic steps "
               "are the regions between lock operations (look-up / insert-if-still-absent / look-up / insert-if-still-absent / "
               "check-and-link); invariant over all reachable interleaving states; tied to the code by a differential run of the "
               "extracted model against the in-process ProjectManager on materialised workspaces (both builders, every chunk size, "
               "forced schedules through the yield point of the hooks build) plus an independent oracle (the generated parent map)"),
    text=("Theorems (all file lists whose class declarations form a forest: one file per class name ignoring case, acyclic declared "
          "parents; at most 5000 files so that is_self_or_ancestor's 10 000-step cut-off is out of reach): for ANY enumeration order "
          "the sequential builder yields exactly one node per declared or referenced name and parent/children equal the declared "
          "relation (children as duplicate-free lists, compared up to permutation); two orders and two letter-casings of the names "
          "give the same relation; supertypes/subtypes of a class are its declared parent / the classes declaring it; member "
          "supertypes = the nearest declaration up, member subtypes = the frontier of declarations down (both walkers return, "
          "fuel bounds proved); for ALL chunkings and ALL schedules of the parallel builder the final relation equals the "
          "sequential one, by an invariant over every reachable interleaving state (every allocated node is the map's node for "
          "its name, children lists are duplicate-free inverses of the parent links, links are declared links, chains end); the "
          "cycle check never refuses a link on a forest (builders with and without it coincide step by step). Refutation "
          "witnesses for the code before e20acc7 (unconditional insert: a child is lost under a 10-step schedule) and before "
          "3e4a84d (item named after the first spelling met: order dependent). Correspondence: every forest on <= 4 classes "
          "(quick: <= 3 and a sample of 4) and random forests on <= 6 classes with random member overriding and re-cased "
          "references x both builders x every chunk size x pools of 1..7 workers, forced two-step orderings on every "
          "workspace in which two children share a parent (hooks build), 7-worker stress."),
    note=("PARTIAL: real OS schedules are sampled (chunk sizes, pool sizes, a rendezvous controller at the yield point that parks a "
          "worker whose look-up missed until another worker's look-up has missed too); the theorem is about the interleaving model "
          "whose atomic steps are the regions between lock operations -- that this granularity is faithful (RwLock regions are "
          "atomic, the Arc<Mutex<node>> updates of check-and-link happen under the map's write lock) is an assumption. Trusted: Coq "
          "kernel, extraction (ExtrOcamlBasic), harness, generators. Assumes file stem = class name ignoring case (classes are "
          "found through their stem), ASCII names, member names distinct from class names, the 5000-file bound."),
    design="6 C13",
    engines=[dict(name="E-forest", path="harness/src/eng_forest.rs + coq/extract/eng_forest.ml",
                  kind_free_text="differential: in-process ProjectManager on a materialised workspace (build_tree / build_tree_parallel with a chosen chunk size and pool / forced schedule through the hooks build, then prepare + supertypes + subtypes on every class and member; C14: every request kind on its own thread with a deadline, two rounds) vs extracted Coq models Forest (class tree, walkers) and Locks (lock-aware analysis)")],
)

ASSUMPTIONS = [
    "a class is found through its file stem (DocumentService::get_uri_for_class): generated files have stem = class name ignoring letter case; names are ASCII ([A-Za-z0-9_]) so str::to_uppercase is ASCII upper-casing",
    "member names differ from class names and from `self`; one declaration per member name and class (search_symbol_info answers any symbol kind of that name)",
    "atomicity of the modelled steps: a region under the map's RwLock (read: look-up; write: second look-up + insert; write: is_self_or_ancestor + link) commutes with other threads' steps; the per-node Mutexes are only taken inside such a region by the builders",
    "real schedules are sampled, not enumerated: chunk sizes 1..n, pools of 1..7 workers, and (hooks build) a controller that pairs the workers up at `entity:between_lookup_and_insert`; HashMap enumeration order of the files is whatever the run produces (the theorems quantify over all orders)",
    "at most 5000 class files (two nodes per file at most): beyond 10 000 ancestors is_self_or_ancestor refuses a link by its step bound",
    "the controller cannot see WHICH name a worker is about to insert (the hook passes the point name only): it pairs any two workers that both missed a look-up; on workspaces with a shared parent and one worker per file this forces `look-up, look-up, insert, insert` on the parent's name",
]

NAMES = ["aKa", "aKb", "aKc", "aKd", "aKe", "aKf"]
MISSING = "aGone"
MEMBERS = [("Foo", "p"), ("Fld", "v"), ("Calc", "f")]


# --------------------------------------------------------------------------------------------
# generators
# --------------------------------------------------------------------------------------------
def forests(n, with_missing=True):
    """all parent assignments on n labelled classes without a cycle: parent = None | 'x' (a class that has no file) | index"""
    opts = [None] + (["x"] if with_missing else []) + list(range(n))
    for ps in itertools.product(opts, repeat=n):
        ok = True
        for i in range(n):
            seen = set()
            j = i
            while isinstance(j, int):
                if j in seen:
                    ok = False
                    break
                seen.add(j)
                j = ps[j]
            if not ok:
                break
        if ok:
            yield ps


def make_ws(ps, rng, members=True):
    """workspace for the parent assignment ps; parent references and member names re-cased at random"""
    n = len(ps)
    files = []
    decl = [[(nm, k) for (nm, k) in MEMBERS if members and rng.random() < 0.55] for _ in range(n)]
    for i in range(n):
        cls = NAMES[i]
        par = None
        if ps[i] == "x":
            par = fc.recase(MISSING, rng) if rng.random() < 0.5 else MISSING
        elif ps[i] is not None:
            par = fc.recase(NAMES[ps[i]], rng) if rng.random() < 0.6 else NAMES[ps[i]]
        mem = []
        for (nm, k) in decl[i]:
            # an ancestor declares it too? then this is an override (the keyword does not matter to the walkers)
            j, up = ps[i], False
            while isinstance(j, int):
                if any(x[0] == nm for x in decl[j]):
                    up = True
                j = ps[j]
            spelled = nm if rng.random() < 0.6 else fc.recase(nm, rng)
            mem.append((spelled, k, up and rng.random() < 0.8))
        stem = cls if rng.random() < 0.7 else fc.recase(cls, rng)
        files.append(FileD(stem, cls, par, members=mem))
    return files


def shared_parent(ps):
    cnt = {}
    for p in ps:
        if p is not None:
            cnt[p] = cnt.get(p, 0) + 1
    return any(v >= 2 for v in cnt.values())


def modes_for(n, rng, quick):
    ms = ["seq"]
    for c in range(1, n + 1):
        nchunks = (n + c - 1) // c
        ks = sorted(set([1, min(2, nchunks), nchunks]))
        if quick and len(ks) > 2:
            ks = [1, nchunks]
        for k in ks:
            ms.append("par:%d:%d" % (c, k))
    ms.append("par:1:7")
    return ms


def gen(ctx):
    """-> (plain cases, hooks cases, workspace ids per case)"""
    rng = random.Random(ctx.seed)
    plain, hooks = [], []
    wsid = {}
    nws = [0]

    def add(files, ps, stress=1):
        nws[0] += 1
        wid = nws[0]
        n = len(files)
        for m in modes_for(n, rng, ctx.quick):
            order = list(files)
            rng.shuffle(order)
            for _ in range(stress if m == "par:1:7" else 1):
                c = fc.encode_case(m, order)
                plain.append(c)
                wsid[c] = wid
        if shared_parent(ps):
            for m in ("sched:rvA", "sched:rvB"):
                order = list(files)
                rng.shuffle(order)
                c = fc.encode_case(m, order)
                hooks.append(c)
                wsid[c] = wid

    exhaustive_upto = 3 if ctx.quick else 4
    for n in range(1, exhaustive_upto + 1):
        for ps in forests(n):
            add(make_ws(ps, rng), ps)
    if ctx.quick:
        four = list(forests(4))
        for ps in rng.sample(four, 80):
            add(make_ws(ps, rng), ps)
    # random forests on 5 and 6 classes, random member overriding, stress with 7 workers
    nrand = 100 if ctx.quick else 5000
    for _ in range(nrand):
        n = rng.choice([5, 6, 6])
        while True:
            ps = tuple(rng.choice([None, None, "x"] + list(range(n))) for _ in range(n))
            if ps in set(forests_check([ps])):
                break
        add(make_ws(ps, rng), ps, stress=3)
    return plain, hooks, wsid, nws[0]


def forests_check(cands):
    for ps in cands:
        n = len(ps)
        ok = True
        for i in range(n):
            seen, j = set(), i
            while isinstance(j, int):
                if j in seen:
                    ok = False
                    break
                seen.add(j)
                j = ps[j]
            if not ok:
                break
        if ok:
            yield ps


# --------------------------------------------------------------------------------------------
# the property's own statement as an executable oracle (independent of the Coq model): the declared
# parent map of the workspace decides every answer
# --------------------------------------------------------------------------------------------
def item(name, stem, line, col):
    return "%s@%s@%d:%d-%d:%d=%s" % (name.upper(), stem, line, col, line, col + len(name), name)


def expected(files):
    """{tag: (prepare, sup, sub)} from the declarations alone"""
    bycls = dict((f["cls"][0].upper(), f) for f in files if f["cls"])
    parent = {}
    for f in files:
        if f["cls"] and f["par"]:
            parent[f["cls"][0].upper()] = f["par"][0].upper()
    children = {}
    for c, p in parent.items():
        children.setdefault(p, []).append(c)

    def cls_item(k):
        f = bycls.get(k)
        if f is None or f["stem"].upper() != k:
            return []
        return [item(f["cls"][0], f["stem"], f["cls"][1], f["cls"][2])]

    def decl(k, m):
        f = bycls.get(k)
        if f is None:
            return None
        for (nm, kind, l, c) in f["members"]:
            if nm.upper() == m:
                return item(nm, f["stem"], l, c)
        return None

    def down(k, m):
        d = decl(k, m)
        if d is not None:
            return [d]
        out = []
        for c in children.get(k, []):
            out += down(c, m)
        return out

    exp = {}
    for f in files:
        if not f["cls"]:
            continue
        k = f["cls"][0].upper()
        sup = cls_item(parent[k]) if k in parent else []
        sub = []
        for c in children.get(k, []):
            sub += cls_item(c)
        exp["c." + f["stem"]] = ([item(f["cls"][0], f["stem"], f["cls"][1], f["cls"][2])], sorted(sup), sorted(sub))
        for (nm, kind, l, c) in f["members"]:
            m = nm.upper()
            up = []
            j = parent.get(k)
            while j is not None:
                d = decl(j, m)
                if d is not None:
                    up = [d]
                    break
                if j not in bycls:
                    break
                j = parent.get(j)
            dn = []
            for ch in children.get(k, []):
                dn += down(ch, m)
            exp["m.%s.%s" % (f["stem"], nm)] = ([item(nm, f["stem"], l, c)], up, sorted(dn))
    return exp


SEEN = {}


def oracle(case, impl_out):
    try:
        mode, files = fc.decode_case(case)
    except Exception:
        return None
    if impl_out.startswith("PANIC") or impl_out in ("CRASH", "HANG") or impl_out.startswith("ERR") or impl_out == "NOHOOKS":
        return "mode %s: the hierarchy was not answered: %s" % (mode, impl_out[:200])
    exp = expected(files)
    got = fc.parse_hier(impl_out)
    if set(got) != set(exp):
        return "mode %s: answers for %s, expected for %s" % (mode, sorted(got), sorted(exp))
    for tag in sorted(exp):
        for what, g, e in zip(("prepareTypeHierarchy", "supertypes", "subtypes"), got[tag], exp[tag]):
            if g != e:
                return ("mode %s: %s of %s is %s, the declarations say %s (name upper-cased @ file stem @ selection range = name as "
                        "declared)" % (mode, what, tag, g, e))
    return None


def nontrivial(case):
    try:
        mode, files = fc.decode_case(case)
    except Exception:
        return False
    withpar = [f for f in files if f["par"]]
    return len(withpar) >= 2 and any(f["members"] for f in files)


def to_filed(f):
    lines = f["text"].split("\n")
    mem = []
    for (nm, kind, l, c) in f["members"]:
        mem.append((nm, kind, lines[l].rstrip().endswith(" override")))
    return FileD(f["stem"], f["cls"][0] if f["cls"] else None, f["par"][0] if f["par"] else None, f["uses"], mem)


def shrinker(case):
    try:
        mode, files = fc.decode_case(case)
    except Exception:
        return
    fds = [to_filed(f) for f in files]
    for i in range(len(fds)):
        yield fc.encode_case(mode, fds[:i] + fds[i + 1:])
    for i, fd in enumerate(fds):
        for j in range(len(fd.members)):
            g = FileD(fd.stem, fd.cls, fd.par, fd.uses, fd.members[:j] + fd.members[j + 1:])
            yield fc.encode_case(mode, fds[:i] + [g] + fds[i + 1:])
        if fd.par is not None:
            g = FileD(fd.stem, fd.cls, None, fd.uses, fd.members)
            yield fc.encode_case(mode, fds[:i] + [g] + fds[i + 1:])


# classes of open findings this check knows how to recognise (none is listed at the moment; the two
# defects of this property, e20acc7 and 3e4a84d, and the POSIX-path defect of build_tree, 8bd8521, are repaired)
def make_known(ctx):
    listed = dict((f.get("class"), f.get("id")) for f in ctx.open_findings())

    def known(case, impl_out, model_out):
        if not listed:
            return None
        mode = case.split("|", 1)[0]
        if "seq-builder-posix-path" in listed and mode == "seq":
            got = fc.parse_hier(impl_out)
            if got and all(v[1] in ([], "-") and v[2] in ([], "-") for v in got.values()):
                return "%s: build_tree left the class tree empty (every file skipped)" % listed["seq-builder-posix-path"]
        return None
    return known


def correspondence(ctx, broken_obligations=()):
    plain, hooks, wsid, nws = gen(ctx)
    known = make_known(ctx)
    cov = fc.batched_differential(ctx, "forest", plain, oracle, shrinker, known=known,
                                  nontrivial=nontrivial, describe=fc.describe)
    covh = fc.batched_differential(ctx, "forest", hooks, oracle, shrinker, known=known,
                                   nontrivial=nontrivial, describe=fc.describe, hooks=True)
    for k in ("programs", "evaluations", "distinct_nontrivial", "disagreements_checked", "oracle_failures"):
        cov[k] = cov[k] + covh[k]
    cov["diff_wall_s"] = round(cov["diff_wall_s"] + covh["diff_wall_s"], 2)
    cov["forced_schedule_cases"] = len(hooks)
    cov["workspaces"] = nws
    hist = {}
    for c in plain + hooks:
        m = c.split("|", 1)[0].split(":")[0]
        hist[m] = hist.get(m, 0) + 1
    cov["input_histogram"] = hist
    upto = 3 if ctx.quick else 4
    cov["exhaustive"] = True
    cov["rule"] = ("every parent assignment without a cycle on 1..%d classes (parent = none / a class without a file / another class), "
                   "%s, and random forests on 5-6 classes; per workspace: classes aKa.., members Foo (proc) / Fld (field) / Calc (func) "
                   "declared by a random subset of the classes with random letter case and override flags, parent references and file "
                   "stems re-cased at random, file order shuffled per case; modes: seq, par:<chunk>:<workers> for every chunk size "
                   "1..n with 1 / 2 / as many workers as chunks, par:1:7 (x3 on the random forests), and on every workspace where two "
                   "classes share a parent the forced schedules sched:rvA / sched:rvB on the hooks build; observation = "
                   "prepare/supertypes/subtypes of every class and member as sorted sets of (NAME@stem@selection range=name); "
                   "non-trivial = at least two classes with a parent and some member; %d workspaces; answers of all modes of a "
                   "workspace are compared with the same declaration-derived expectation, hence with each other"
                   % (upto, "a sample of 80 of the 4-class ones" if ctx.quick else "all of them exhaustively", nws))
    cov["samples"] = [fc.describe(plain[0]), fc.describe(plain[len(plain) // 2]), fc.describe(hooks[-1]) if hooks else None]
    cov["refuted_or_partial"] = [
        "C13_old_par_refuted (code before e20acc7: unconditional insert after the missed look-up loses a child; the invariant needs the repair)",
        "C13_old_name_refuted (code before 3e4a84d: item named after the first spelling met)",
        "partial: real OS schedules sampled; theorem about the interleaving model (see level_note)"]
    cov["regressions_replayed"] = [
        "fixed: property=C13 e20acc7 lost child under the forced look-up/look-up/insert/insert schedule (sched:rvA, sched:rvB cases)",
        "fixed: property=C13 3e4a84d order-dependent item name (re-cased parent references, shuffled orders)",
        "fixed: property=C13 8bd8521 build_tree skipped every file on POSIX paths (mode seq)"]
    # a member set changing under a warm cache: file k starts without its members, every query is asked once, then a
    # didChange brings k's members and every query is asked again; the second round must be the hierarchy of the full
    # texts (the class headers never change, so the forest is the same throughout). Implementation + oracle only.
    erng = random.Random(ctx.seed + 13)
    seen_ws, ecases = set(), []
    chain = [FileD("aKa", "aKa", None, members=[("Foo", "p", False), ("Fld", "v", False)]),
             FileD("aKb", "aKb", "aKa", members=[("Foo", "p", True), ("Fld", "v", True)]),
             FileD("aKc", "aKc", "aKb", members=[]),
             FileD("aKd", "aKd", "aKc", members=[("Foo", "p", True), ("Fld", "v", True), ("Calc", "f", False)])]
    for k in range(4):
        ecases.append(fc.encode_case("edit:%d" % k, chain))
        ecases.append(fc.encode_case("edit:%d" % (3 - k), list(reversed(chain))))
    for c in plain:
        w = wsid[c]
        if w in seen_ws:
            continue
        seen_ws.add(w)
        _, fds = fc.decode_case(c)
        ks = [i for i, f in enumerate(fds) if f["members"]]
        erng.shuffle(ks)
        for k in ks[: (1 if ctx.quick else 3)]:
            ecases.append(fc.with_mode(c, "edit:%d" % k))
    if ctx.quick:
        ecases = ecases[:8] + erng.sample(ecases[8:], min(len(ecases) - 8, 400))
    eouts = core.run_lines(diff.Engines.harness(), "forest", ecases)
    for c, o in zip(ecases, eouts):
        r = oracle(c, o)
        if r and not known(c, o, None):
            path = core.write_replay(ctx.pid, ctx.seed, {"engine": "forest", "case": c, "case_readable": fc.describe(c),
                                                         "observed": o, "expected": r})
            v = core.Violation(r, path, True)
            v.coverage = cov
            raise v
    cov["member_edit_histories"] = len(ecases)
    # the tree build overlapping a notification that holds a document's write lock: the builder waits, it does not skip the file
    hb_hooks = diff.Engines.harness(hooks=True)
    outs = core.run_lines(hb_hooks, "sched", ["tree_vs_change;x"] * (3 if ctx.quick else 20), shards=3)
    for o in outs:
        if o != "tree=aBase hook=true":
            bad = ("the class tree built while a change notification held aDoc's write lock lost or mangled aDoc's parent link: "
                   "supertypes(aDoc) observed as %r, expected aBase" % o)
            path = core.write_replay(ctx.pid, ctx.seed, {"engine": "E-sched", "case": "tree_vs_change;x", "observed": o, "expected": bad})
            v = core.Violation(bad, path, True)
            v.coverage = cov
            raise v
    cov["tree_build_vs_change_schedules"] = len(outs)
    return cov


def replay(ctx, rep):
    case = rep["case"]
    if rep.get("engine") == "E-sched":
        o = core.run_lines(diff.Engines.harness(hooks=True), "sched", [case], shards=1)[0]
        print("forced schedule:", case, "->", o)
        if o != "tree=aBase hook=true":
            print("VIOLATION property=C13 replay=%s" % rep.get("how_to_rerun", "?").split()[-1])
            return 1
        print("property holds on this schedule")
        return 0
    hooks = case.startswith("sched")
    hb = diff.Engines.harness(hooks=hooks)
    r, out = None, None
    for out in core.run_lines(hb, "forest", [case] * 12, shards=1):     # schedule / enumeration order vary
        r = oracle(case, out)
        if r:
            break
    print("case:", fc.describe(case))
    print("implementation:", out)
    print("oracle:", r or "property holds on this case")
    if r:
        print("VIOLATION property=C13 replay=%s" % rep.get("how_to_rerun", "").split()[-1])
        return 1
    return 0
