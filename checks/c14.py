"""C14  Analysis terminates on every workspace shape."""
import itertools, random, re
from vlib import core, diff
from checks import forest_common as fc
from checks.forest_common import FileD

MANIFEST = dict(
    engine="E-sem (engine forest, modes req / conc)",
    technique=("Coq proof over a lock-aware executable model: symbol tables as heap objects with per-table mutexes (a look-up takes "
               "the table's lock, then -- still holding it -- the parent's, ...; taking a held lock = Deadlock; following links needs "
               "fuel), annotate_doc's publish-before-fill order and handle_class's link rule; invariant `the parent links of the "
               "tables contain no cycle` by induction over all sequences of (nested) analyses; the class tree of C13's model for the "
               "hierarchy walkers; tied to the code by running every request kind on every file of generated workspaces in-process, "
               "each request on its own thread with a deadline, in both analysis orders and twice"),
    text=("Theorems, for ALL workspaces (any parent assignment: itself, another class in any letter case, mutual, longer cycles, a "
          "missing class; files without a class; any uses lists): after any sequence of full / definitions-only analyses in any "
          "order, each nesting the analyses of parents that have no table yet against half-filled (published-before-filled) tables, "
          "every analysis returns (fuel = number of files + 1 proved sufficient) and the table graph is acyclic (the link rule "
          "refuses exactly the links that would close a cycle); in an acyclic graph a look-up from any table takes each lock at "
          "most once, at most `number of tables` locks, and holds nothing afterwards; every request of every request sequence of "
          "the model is answered; several look-ups running at the same time cannot deadlock (lock order child -> parent: from every "
          "state some thread can move, every move decreases that thread's measure); analyses running at the same time keep the "
          "graph acyclic because check and link are one step (LINK_LOCK); the ANNOTATION-FLAG PROTOCOL (annotation_done / "
          "annotating_thread / wait_until_annotated, Model/Flags.v: any number of request threads, any dependency lists per "
          "Document object, change / save / close notifications at any moment) cannot deadlock: invariant over all reachable "
          "states, every wait-for edge of a look-up points to a thread whose walk began after the look-up did, so look-ups get "
          "younger along wait-for paths, there is no wait-for cycle, some thread can always move, and every chain of moves is "
          "finite (lexicographic measure: notifications still to come, cost of the work still to do), hence every request returns "
          "under any scheduler; the re-entry paths of the code are provably never taken; the class tree built from ANY file list by any schedule "
          "of any chunking has no parent cycle and children lists that mirror the parent links, so both member walkers return and "
          "never re-lock a node. Refutation witnesses for the rules before 03f6c4d (mutual parents; self-parent in another letter "
          "case: Deadlock), the tree before 8e84a43 (cycle: unbounded recursion / re-lock), before 17b78d0 (class declared twice: "
          "children cycle, re-lock) and the two-step check/link before 2465f70 (schedule check,check,link,link installs a cycle)."),
    note=("PARTIAL as far as cross-thread claims go: proved ON THE MODELS are (a) no circular wait among concurrent LOOK-UPS in an "
          "acyclic graph (lock order child -> parent; the one call site that violated it, class_level_table before d98ed2d, is a "
          "refutation witness), (b) acyclicity under concurrent ANALYSES with an atomic check-and-link step, (c) deadlock freedom and "
          "termination of the annotation-flag protocol. The three models are separate: their COMPOSITION (a thread blocked on a flag "
          "while holding annotated-node RwLocks of its own tree, entity-node mutexes, the Document mutex; LINK_LOCK and table mutexes "
          "are never held across a flag wait) is covered by a lock-nesting audit of every lock site of /repo/src (reported, not "
          "machine-checked) and by forced schedules: real schedules are FORCED at the yield points (analyze:after_cache_check, "
          "annotate:after_publish_tree, entity:between_lookup_and_insert) for 2-3 threads on mutual uses / parent cycles / chains "
          "with notifications in between, and SAMPLED otherwise (conc stress). The audit found the cycle Document -> tree map -> "
          "entity node -> Document (start-up tree build against a hierarchy request), reproduced by the `treerace` schedule. "
          "Stack: the nested-analysis depth equals the longest parent/uses chain (C14_analysis_depth_is_chain_length: instances); "
          "bytes per level are measured on the real server: a linear chain of 150 classes is answered, 300 overflows the 2 MiB "
          "worker stack (finding inheritance-chain-stack-overflow). The model abstracts a request to: full "
          "analysis unless cached, a worst-case (all-miss) look-up from the file's table, the tables of the parent token and of "
          "every `uses` entity with a look-up there, and the member walkers on the class tree; definition / completion internals "
          "beyond that are covered by the in-process runs only. Deadlines define `hangs` (10 s per request). Stack depth is "
          "bounded by the proved recursion depths (number of files / tables / tree nodes), bytes per frame are not modelled."),
    design="6 C14",
    engines=[dict(name="E-forest", path="harness/src/eng_forest.rs + coq/extract/eng_forest.ml",
                  kind_free_text="see C13")],
)

MANIFEST["text"] += ' Fourth session: a parent cycle brought into the RUNNING server by a save (req:s<k>).'

ASSUMPTIONS = [
    "single-threaded part: requests are issued one after the other (as the property's quantifier says: every request kind on every file, in both analysis orders, twice); the concurrent part (mode conc) is a stress test plus model-level theorems, see the PARTIAL note",
    "std::sync::Mutex is not re-entrant (a second lock() by the holder never returns) and is fair enough for a blocked thread to proceed once the holder releases; a request that does not answer within 10 s is counted as hanging",
    "a class is found through its file stem (get_uri_for_class); generated class files have stem = class name; class-less files are addressed by their stem in uses lists and parent references",
    "the workspace is static during a case (no didChange / didSave): every Document is the saved copy parsed from disk",
    "the request abstraction of the model (full analysis unless cached; worst-case look-up from the file's table; parent token and uses entities resolved through their own tables; member walkers) over-approximates the locks the real handlers take on symbol tables and tree nodes; it does not model the RwLocks of annotated nodes and DocumentInfo",
    "the 10 000-step cut-offs of is_own_table_reachable_from / is_self_or_ancestor answer `reachable` (refuse): refusing is always safe for acyclicity, so the theorems need no size bound",
    "flag protocol model (Model/Flags.v): a step is a region that touches the DocumentInfo / Document fields under their own short locks (fetch the current Document object; parse + install; wait for / take the flag; publish annotated_ast; set the table; one look-up of a walk; release); the opened and saved copies, the table bit and a per-object flag + annotating_thread are the whole state; what a walk looks up is an arbitrary list per Document object (so a changed text may depend on other files); notifications replace the Document object and clear the table in one step (99fb95f); the liveness theorem assumes finitely many files (N) and walks of bounded length (D)",
    "forced schedules: the yield points identify a thread by a thread-local role, not by the document it is at; `n-th arrival` selects the document (1 = the request's own, 2.. = nested); a thread that neither reaches its gate nor finishes within 400 ms is taken to be blocked (under load it may just be slow: the schedule then differs from the intended one but must still drain); a request that has not returned 8 s after all gates were opened hangs",
    "treerace draws which parked pool worker is which (the hook does not say): 1 attempt in 6 realises the intended interleaving, 40 (quick) / 200 (thorough) attempts per run",
]

CLS = ["aCa", "aCb", "aCc", "aCd"]
MISSING = "aNowhere"


def spell_parent(name, i, variant):
    """the parent reference, in a letter case that may differ from the declaration"""
    if variant == 0:
        return name
    if variant == 1:
        return name.upper()
    if variant == 2:
        return name.lower()
    return name.swapcase()


def make_ws(ps, uses, rng, casing=None, classless=False):
    """ps[i]: None | 'x' (missing class) | j (class j, possibly i itself);  uses[i]: indices of used entities for the first
    three entities; every class: a field, a proc whose body touches its parent, a used entity and an unknown type"""
    n = len(ps)
    files = []
    ents = [CLS[i] for i in range(n)] + (["aZz"] if classless else [])
    for i in range(n):
        par = None
        if ps[i] == "x":
            par = MISSING
        elif ps[i] is not None:
            v = casing[i] if casing else rng.randrange(4)
            par = spell_parent(CLS[ps[i]], i, v)
        us = [ents[j] for j in uses[i]] if i < len(uses) else []
        tgt = us[0] if us else (CLS[(i + 1) % n])
        body = ["var v1 : %s" % tgt, "var v2 : tNoSuchType", "v1.Fld", "self.Fld", "Helper(v2)", "%s.Fld" % tgt]
        if par:
            body.append("%s.Foo" % par)
        # a top-level field of a type declared nowhere: its resolution falls through to the used entities while the
        # class-level table is being filled (locals of unknown types only exercise the method-level path)
        extra = ["Unk%d : tNoSuchType%d" % (i, i)] if rng.random() < 0.75 else []
        files.append(FileD(CLS[i], CLS[i], par, uses=us,
                           members=[("Fld", "v", False), ("Foo", "p", ps[i] is not None), ("Own%d" % i, "p", False)],
                           body=body, extra=extra))
    if classless:
        k = n
        us = [ents[j] for j in uses[k]] if k < len(uses) else [CLS[0]]
        files.append(FileD("aZz", None, None, uses=us, members=[("Lone", "p", False)],
                           body=["var q : %s" % CLS[0], "q.Fld", "Nothing(q)"], extra=["UnkZ : tNoSuchTypeZ"]))
    return files


def all_graphs(n):
    return itertools.product([None, "x"] + list(range(n)), repeat=n)


def uses_graphs(m):
    """every entity uses any subset of the OTHER entities (m entities)"""
    per = []
    for i in range(m):
        others = [j for j in range(m) if j != i]
        subs = []
        for r in range(len(others) + 1):
            subs += [list(c) for c in itertools.combinations(others, r)]
        per.append(subs)
    return [list(u) for u in itertools.product(*per)]


def shape(ps):
    """cycle structure of a parent assignment: sorted cycle lengths + flags"""
    n = len(ps)
    cyc = []
    seen = set()
    for i in range(n):
        path, j = [], i
        while isinstance(j, int) and j not in path:
            path.append(j)
            j = ps[j]
        if isinstance(j, int) and j in path:
            c = tuple(sorted(path[path.index(j):]))
            if c not in seen:
                seen.add(c)
                cyc.append(len(c))
    return (tuple(sorted(cyc)), "x" in ps, None in ps)


def gen(ctx):
    rng = random.Random(ctx.seed)
    cases = []
    info = dict(graphs=0, shapes=set(), saves=0)

    def add(ps, uses, casing=None, classless=False):
        files = make_ws(ps, uses, rng, casing, classless)
        for order in ("f", "r"):
            cases.append(fc.encode_case("req:" + order, files))
        # a cycle that comes into the RUNNING server by a save: the class closing it is on disk without its parent clause
        # at start-up and during the first round, then saved with it
        for i, par in enumerate(ps):
            j, path = i, []
            while isinstance(j, int) and j not in path:
                path.append(j)
                j = ps[j]
            if isinstance(j, int) and j == i and i < len(files) and info["saves"] < (400 if ctx.quick else 10 ** 9):
                cases.append(fc.encode_case("req:s%d" % i, files))
                info["saves"] += 1
        info["graphs"] += 1
        info["shapes"].add(shape(ps))

    ug3 = uses_graphs(3)
    if ctx.quick:
        # all graphs over <= 3 classes, a rotating sample of uses graphs
        k = 0
        for n in (1, 2, 3):
            for ps in all_graphs(n):
                m = min(n, 3)
                ugs = uses_graphs(m) if m > 1 else [[[]]]
                for u in (ugs[k % len(ugs)], ugs[(k * 7 + 3) % len(ugs)], ugs[(k * 13 + 5) % len(ugs)]):
                    add(ps, u, classless=(k % 5 == 0))
                    k += 1
        # stratified sample of the 4-class graphs: every cycle shape, self-parents in every letter case
        byshape = {}
        for ps in all_graphs(4):
            byshape.setdefault(shape(ps), []).append(ps)
        for sh in sorted(byshape, key=str):
            for ps in rng.sample(byshape[sh], min(10, len(byshape[sh]))):
                add(ps, rng.choice(ug3), classless=rng.random() < 0.3)
        for v in range(4):
            add((0, 1, 2, 3), rng.choice(ug3), casing=[v] * 4)           # everybody its own parent
            add((1, 0, 3, 2), rng.choice(ug3), casing=[v, 3 - v, v, v])  # two mutual pairs
            add((1, 2, 3, 0), rng.choice(ug3), casing=[v] * 4)           # one 4-cycle
    else:
        for n in (1, 2, 3):
            for ps in all_graphs(n):
                m = min(n, 3)
                for u in (uses_graphs(m) if m > 1 else [[[]]]):
                    add(ps, u, classless=rng.random() < 0.2)
        for ps in all_graphs(4):
            for u in ug3:
                add(ps, u, classless=rng.random() < 0.1)
    return cases, info


CANON = re.compile(r"(\d+):\d+:")


def canon(out):
    """the number of requests answered with an error response is not predicted by the model"""
    return CANON.sub(r"\1:", out)


def oracle(case, impl_out):
    mode = case.split("|", 1)[0]
    if impl_out.startswith("PANIC") or impl_out in ("CRASH", "HANG") or impl_out.startswith("ERR"):
        return "mode %s: the case did not run to its end: %s" % (mode, impl_out[:200])
    if mode.startswith("conc"):
        return None if impl_out == "conc=ok" else "concurrent requests: %s (a request did not answer within the deadline / panicked)" % impl_out
    rounds = impl_out.split("#")
    if len(rounds) != 2:
        return "expected two rounds of requests, got %r" % impl_out[:200]
    for k, r in enumerate(rounds):
        # canonical form: <number of requests>:<requests without an answer>
        f = r.split(":", 1)
        if len(f) != 2 or not f[0].isdigit():
            return "unparsable round %r" % r[:100]
        if f[1]:
            return "round %d: requests without an answer: %s (HANG = no response within 10 s, PANIC = the handler panicked, skip = not tried after a hang)" % (k + 1, f[1][:400])
    return None


def nontrivial(case):
    try:
        mode, files = fc.decode_case(case)
    except Exception:
        return False
    names = dict((f["cls"][0].upper(), f) for f in files if f["cls"])
    # some class whose declared parent chain comes back to itself, or a missing parent, plus a uses edge
    cyc = False
    for f in files:
        if not f["cls"]:
            continue
        seen, k = set(), f["cls"][0].upper()
        while k in names and names[k]["par"]:
            if k in seen:
                cyc = True
                break
            seen.add(k)
            k = names[k]["par"][0].upper()
    return cyc or any(f["par"] and f["par"][0].upper() not in names for f in files)


def shrinker(case):
    try:
        mode, files = fc.decode_case(case)
    except Exception:
        return
    from checks.c13 import to_filed
    fds = [to_filed(f) for f in files]
    for i in range(len(fds)):
        yield fc.encode_case(mode, fds[:i] + fds[i + 1:])
    for i, fd in enumerate(fds):
        if fd.uses:
            yield fc.encode_case(mode, fds[:i] + [FileD(fd.stem, fd.cls, fd.par, [], fd.members)] + fds[i + 1:])
        if fd.par is not None:
            yield fc.encode_case(mode, fds[:i] + [FileD(fd.stem, fd.cls, None, fd.uses, fd.members)] + fds[i + 1:])


def make_known(ctx):
    listed = dict((f.get("class"), f.get("id")) for f in ctx.open_findings())

    def known(case, impl_out, model_out):
        if not listed:
            return None
        mode = case.split("|", 1)[0]
        if "concurrent-mutual-parent-link-race" in listed and mode.startswith("conc") and "HANG" in impl_out:
            return "%s: concurrent analyses of classes naming each other as parent installed a table cycle (%s)" % (
                listed["concurrent-mutual-parent-link-race"], impl_out)
        if "duplicate-class-children-cycle" in listed and mode.startswith("par") and impl_out == "HANG":
            _, files = fc.decode_case(case)
            names = [f["cls"][0].upper() for f in files if f["cls"]]
            if len(set(names)) < len(names):
                return "%s: a class declared by two files; member subtypes never returned" % listed["duplicate-class-children-cycle"]
        return None
    return known


# regression corpus: the histories that hung before the repairs
def corpus(ctx):
    body = ["var v1 : aB", "v1.Fld", "self.Fld"]
    mutual = [FileD("aA", "aA", "aB", members=[("Fld", "v", False), ("Foo", "p", False)], body=body),
              FileD("aB", "aB", "aA", members=[("Fld", "v", False), ("Foo", "p", True)], body=[b.replace("aB", "aA") for b in body])]
    three = [FileD("aA", "aA", "AB", uses=["aC"], members=[("Fld", "v", False)], body=["var v1 : aC", "v1.Fld"]),
             FileD("aB", "aB", "ac", uses=["aA"], members=[("Fld", "v", False)], body=["var v1 : aA", "v1.Fld"]),
             FileD("aC", "aC", "Aa", uses=["aB"], members=[("Fld", "v", False)], body=["var v1 : aB", "v1.Fld"])]
    selfcase = [FileD("aA", "aA", "AA", members=[("Fld", "v", False), ("Foo", "p", False)], body=["self.Fld", "AA.Fld"])]
    n = 150 if ctx.quick else 1500
    conc = [fc.encode_case("conc:%d" % n, mutual), fc.encode_case("conc:%d" % n, three)]
    seqs = [fc.encode_case("req:f", selfcase), fc.encode_case("req:r", mutual), fc.encode_case("req:f", three)]
    # 17b78d0: a class declared by two files (1 of the 6 enumeration orders closed a children cycle)
    dup = [FileD("aA", "aA", "aB"), FileD("aA2", "aA", "aC"), FileD("aB", "aB", "aA"),
           FileD("aC", "aC", None, members=[("Bar", "p", False)])]
    dups = [fc.encode_case("par:1:1", dup)] * (24 if ctx.quick else 96) + [fc.encode_case("seq", dup)] * 12
    return seqs, conc, dups


def dup_oracle(case, out):
    if out == "HANG" or out.startswith("PANIC") or out == "CRASH":
        return "a class declared by two files: the hierarchy requests did not return (%s)" % out
    got = fc.parse_hier(out)
    if "m.aC.Bar" not in got:
        return "no answer for the member of aC: %r" % out[:200]
    return None


# --------------------------------------------------------------------------------------------
# the annotation-flag protocol under forced schedules (hooks build; model: coq/theories/Model/Flags.v)
# --------------------------------------------------------------------------------------------
def flags_stage(ctx, cov, known):
    import threading
    from checks import flags_common as fl
    cases, wsn = fl.gen(ctx)
    hb = diff.Engines.harness(hooks=True)
    mb = diff.Engines.model()
    nchunk = 6
    chunks = [cases[i::nchunk] for i in range(nchunk)]
    outs_by = [None] * nchunk

    def work(i):
        outs_by[i] = core.run_lines(hb, "flags", chunks[i], shards=1)
    ths = [threading.Thread(target=work, args=(i,)) for i in range(nchunk)]
    [t.start() for t in ths]
    [t.join() for t in ths]
    impl = {}
    for i in range(nchunk):
        for c, o in zip(chunks[i], outs_by[i]):
            impl[c] = o
    model = dict(zip(cases, core.run_lines(mb, "flags", cases, shards=1)))
    ndiff = 0
    for c in cases:
        o = impl[c]
        r = fl.oracle(c, o, wsn[c])
        if r is None and fl.canon(o) != model[c]:
            r = "the model of the protocol predicts %s, the implementation shows %s" % (model[c], fl.canon(o))
        if r is not None:
            path = core.write_replay(ctx.pid, ctx.seed, {"engine": "flags (hooks build)", "case": c, "case_readable": fl.describe(c),
                                                         "observed": o, "model": model[c], "expected": r})
            v = core.Violation(r, path, True)
            v.coverage = cov
            raise v
        if "diff" in o and wsn[c] in fl.ACYCLIC_PARENTS:
            ndiff += 1
    # the start-up tree build against a type-hierarchy request (Document -> tree map -> entity node -> Document)
    n = 40 if ctx.quick else 200
    tr = core.run_lines(hb, "flags", ["treerace:%d" % n], shards=1)[0]
    cov["treerace"] = tr
    if not tr.startswith("treerace=ok"):
        listed = dict((f.get("class"), f.get("id")) for f in ctx.open_findings())
        what = ("class-tree build against typeHierarchy/supertypes, files aK / aC (aK) / aG (aC) with cached documents: %s (the request is "
                "never answered / the pool workers never finish: build_tree_parallel holds the Document while taking the map write lock, "
                "is_self_or_ancestor locks entity nodes under it, the hierarchy item is made with the entity node locked while the "
                "class's Document is locked)" % tr)
        if "tree-build-vs-hierarchy-lock-cycle" in listed:
            ctx.known("%s: %s" % (listed["tree-build-vs-hierarchy-lock-cycle"], what))
        else:
            path = core.write_replay(ctx.pid, ctx.seed, {"engine": "flags (hooks build)", "case": "treerace:%d" % n,
                                                         "case_readable": {"files": {"aK.god": "class aK", "aC.god": "class aC (aK)", "aG.god": "class aG (aC)"},
                                                                           "schedule": "see harness/src/eng_flags.rs, treerace"},
                                                         "observed": tr, "expected": "treerace=ok: every attempt drains (request answered, pool joined)"})
            v = core.Violation(what, path, True)
            v.coverage = cov
            raise v
    cov["flag_schedules"] = len(cases)
    cov["flag_schedules_answers_differing_from_lone"] = ndiff
    cov["programs"] += len(cases)
    cov["evaluations"] += len(cases)
    cov["flag_schedule_sample"] = fl.describe(cases[len(cases) // 2])
    return cov


# --------------------------------------------------------------------------------------------
# a linear inheritance chain on the real server (debug build, pool workers with a 2 MiB stack)
# --------------------------------------------------------------------------------------------
def chain_files(n):
    files = {}
    for i in range(n):
        head = "class aC%d (aC%d)" % (i, i - 1) if i else "class aC0"
        files["aC%d.god" % i] = "%s\nF%d : int4\nproc P%d\n  self.F0 = 1\n  self.\nendproc\n" % (head, i, i)
    return files


def run_chain(n):
    """-> None when diagnostics, completion and definition on the deepest class are answered and the server exits 0,
    else a description of what went wrong"""
    import os, shutil, tempfile
    from vlib import lsp
    binary = lsp.build_server()
    root = tempfile.mkdtemp(prefix="goldverif-c14-")
    try:
        for name, text in chain_files(n).items():
            open(os.path.join(root, name), "w").write(text)
        s = lsp.Session(binary, root)
        s.initialize(root)
        uri = lsp.file_uri(os.path.join(root, "aC%d.god" % (n - 1)))
        s.request(1, "textDocument/diagnostic", {"textDocument": {"uri": uri}})
        r1 = s.wait_response(1, 90)
        s.request(2, "textDocument/completion", {"textDocument": {"uri": uri}, "position": {"line": 4, "character": 7}})
        r2 = s.wait_response(2, 90)
        s.request(3, "textDocument/definition", {"textDocument": {"uri": uri}, "position": {"line": 3, "character": 8}})
        r3 = s.wait_response(3, 90)
        r4, rc = s.shutdown_exit(4, 30)
        bad = None
        for k, (r, what) in enumerate(((r1, "diagnostic"), (r2, "completion"), (r3, "definition"))):
            if r is None or ("result" not in r and "error" not in r):
                bad = "%s on aC%d.god was not answered" % (what, n - 1)
                break
        if bad is None and rc != 0:
            bad = "the server did not exit with status 0 (status %r)" % rc
        if bad:
            err = [l.strip() for l in s.stderr if "overflow" in l or "panicked" in l or "fatal" in l][:3]
            try:
                s.kill()
            except Exception:
                pass
            return bad + ((" / " + " / ".join(err)) if err else "")
        return None
    finally:
        shutil.rmtree(root, ignore_errors=True)


def deep_chain(ctx, cov):
    listed = dict((f.get("id"), f) for f in ctx.open_findings())
    desc = lambda n: {"workspace": "aC0.god .. aC%d.god, aC<i>.god = class aC<i> (aC<i-1>) / F<i> : int4 / proc P<i> / self.F0 = 1 / self. / endproc" % (n - 1),
                      "requests": "textDocument/diagnostic, completion after `self.`, definition on F0, on aC%d.god; real server, --stdio" % (n - 1)}
    bad = run_chain(150)
    if bad:
        path = core.write_replay(ctx.pid, ctx.seed, {"engine": "server(debug build, pool worker stack)", "case": "deep_chain:150",
                                                     "case_readable": desc(150), "observed": bad,
                                                     "expected": "all three requests answered and exit status 0 on a chain of 150 classes"})
        v = core.Violation("inheritance chain of 150 classes: " + bad, path, True)
        v.coverage = cov
        raise v
    cov["deep_chain_150"] = "answered"
    bad = run_chain(300)
    if bad:
        if "inheritance-chain-stack-overflow" in listed:
            ctx.known("inheritance-chain-stack-overflow: a linear inheritance chain of 300 classes: %s" % bad)
            cov["deep_chain_300"] = "known finding: " + bad
        else:
            path = core.write_replay(ctx.pid, ctx.seed, {"engine": "server(debug build, pool worker stack)", "case": "deep_chain:300",
                                                         "case_readable": desc(300), "observed": bad,
                                                         "expected": "all three requests answered and exit status 0 (the analysis of a class "
                                                                     "analyses its parent from inside its walk: recursion depth = chain length)"})
            v = core.Violation("inheritance chain of 300 classes: " + bad, path, True)
            v.coverage = cov
            raise v
    else:
        cov["deep_chain_300"] = "answered"
    cov["programs"] += 2
    cov["evaluations"] += 2
    return cov


def correspondence(ctx, broken_obligations=()):
    cases, info = gen(ctx)
    seqs, conc, dups = corpus(ctx)
    known = make_known(ctx)
    # the regression corpus first: a tree that hangs on these is reported within seconds instead of after hundreds of deadlines
    cov0 = fc.robust_differential(ctx, "forest", seqs, oracle, shrinker, repeats=1, budget=25, known=known,
                                  nontrivial=nontrivial, describe=fc.describe, canon=canon)
    cov = fc.batched_differential(ctx, "forest", cases, oracle, shrinker, repeats=1, budget=25, known=known,
                                  nontrivial=nontrivial, describe=fc.describe, canon=canon)
    for k in ("programs", "evaluations", "distinct_nontrivial", "disagreements_checked", "oracle_failures"):
        cov[k] = cov[k] + cov0[k]
    # concurrent requests (regression of 2465f70; stress for the annotation flag of d9527e7): plain build, barrier start
    covc = diff.differential(ctx, "forest", conc, oracle=oracle, known=known, describe=fc.describe)
    # duplicate class declarations: implementation only (the enumeration order of the files is not an input)
    hb = diff.Engines.harness()
    outs = core.run_lines(hb, "forest", dups, shards=8)
    for c, o in zip(dups, outs):
        r = dup_oracle(c, o)
        if r is not None:
            k = known(c, o, None)
            if k:
                ctx.known(k)
                continue
            path = core.write_replay(ctx.pid, ctx.seed, {"engine": "forest", "case": c, "case_readable": fc.describe(c),
                                                         "observed": o, "expected": r})
            v = core.Violation(r, path, True)
            v.coverage = cov
            raise v
    for k in ("programs", "evaluations", "distinct_nontrivial", "disagreements_checked", "oracle_failures"):
        cov[k] = cov[k] + covc[k]
    cov["programs"] += len(dups)
    cov["evaluations"] += len(dups)
    cov["diff_wall_s"] = round(cov["diff_wall_s"] + covc["diff_wall_s"], 2)
    cov = flags_stage(ctx, cov, known)
    cov = deep_chain(ctx, cov)
    cov["parent_graphs"] = info["graphs"]
    cov["cycle_shapes"] = sorted(str(s) for s in info["shapes"])
    cov["exhaustive"] = True
    cov["rule"] = (("every parent assignment over 1..3 classes (per class: no parent / a missing class / any class including itself; "
                    "125 + 16 + 3 graphs) x three uses graphs each, a stratified sample of the 6^4 four-class graphs (10 per cycle shape: "
                    "cycle lengths x has-missing x has-root) and the all-self / two-pairs / 4-cycle graphs in the four letter casings"
                    if ctx.quick else
                    "every parent assignment over 1..4 classes (per class: no parent / a missing class / any class including itself; "
                    "6^4 = 1296 four-class graphs) x every uses graph over the first three entities (each entity uses any subset of "
                    "the other two: 64)") +
                   "; parent references in a random letter case; every class has a field, a proc overriding its parent's and a body "
                   "that declares a variable of a used entity's type and of an unknown type and dereferences them; some workspaces "
                   "add a class-less file that is used and uses; per workspace both analysis orders (req:f / req:r); every request "
                   "kind on every file (diagnostics; definition + completion at every probe inside the method, on the parent token and "
                   "on the class token; prepare + supertypes + subtypes on the class, the parent token and every member), each on its "
                   "own 2 MB thread with a 10 s deadline, two rounds; observation = per round the number of requests and the requests "
                   "without an answer; corpus: the histories that hung before 03f6c4d / 8e84a43 / 2465f70 (concurrent diagnostics on "
                   "mutual and 3-cycle parents, %s fresh managers each) / 17b78d0 (class declared twice, %d fresh managers); "
                   "non-trivial = a declared parent cycle or a missing parent" % (conc[0].split("|")[0].split(":")[1], len(dups)))
    cov["samples"] = [fc.describe(cases[0]), fc.describe(cases[len(cases) // 2]), fc.describe(conc[0])]
    cov["refuted_or_partial"] = [
        "C14_old_refuted_mutual / C14_old_refuted_selfcase (rules before 03f6c4d)",
        "C14_old_tree_cycle_refuted (tree before 8e84a43)",
        "C14_old_duplicate_class_children_cycle_refuted (tree before 17b78d0)",
        "C14_old_concurrent_link_race_refuted (two-step check/link before 2465f70)",
        "partial: cross-thread claims beyond concurrent look-ups and atomic check-and-link are not machine-checked (see level_note)"]
    cov["regressions_replayed"] = [
        "fixed: property=C14 03f6c4d mutual parents / self-parent in another letter case deadlocked the look-ups (req cases)",
        "fixed: property=C14 8e84a43 circular class tree (req cases: sup/sub on members)",
        "fixed: property=C14 2465f70 concurrent analyses of mutually-parent classes installed a table cycle (conc cases)",
        "fixed: property=C14 17b78d0 class declared by two files: children cycle, member subtypes never returned (dup cases)"]
    return cov


def replay(ctx, rep):
    case = rep["case"]
    if case.startswith("deep_chain:"):
        bad = run_chain(int(case.split(":")[1]))
        print("deep chain:", bad or "answered")
        return 1 if bad else 0
    if rep.get("engine", "").startswith("flags"):
        from checks import flags_common as fl
        hb = diff.Engines.harness(hooks=True)
        out = core.run_lines(hb, "flags", [case], shards=1)[0]
        if case.startswith("treerace"):
            print("implementation:", out)
            return 0 if out.startswith("treerace=ok") else 1
        r = fl.oracle(case, out, None)
        print("case:", fl.describe(case)); print("implementation:", out); print("oracle:", r or "property holds on this case")
        return 1 if r else 0
    hb = diff.Engines.harness()
    out = core.run_lines(hb, "forest", [case], shards=1)[0]
    mode = case.split("|", 1)[0]
    r = dup_oracle(case, out) if mode.startswith(("par", "seq")) else oracle(case, canon(out))
    print("case:", fc.describe(case))
    print("implementation:", out)
    print("oracle:", r or "property holds on this case")
    if r:
        print("VIOLATION property=C14 replay=%s" % rep.get("how_to_rerun", "").split()[-1])
        return 1
    return 0
