"""C19  The workspace index finds every Gold file, once, and re-indexing is harmless."""
import random, re
from vlib import core, diff

MANIFEST = dict(
    engine="E-index",
    technique="Coq proof: the explicit stack walk of index_files refines a fold of insert-if-absent registrations over the *.god files of the tree (all trees, all fuel >= number of directories), invariants by induction over all histories; tied to the code by a differential run of the extracted model against the real DocumentService / ProjectManager on materialised directory trees",
    text=("Theorems over the Gallina model of DocumentService (all directory trees, all histories of file creation, re-index, "
          "change/parse/save/close and look-ups): the walk terminates within fuel = number of directories; after indexing, every "
          "*.god file under the root at any depth is a key (complete), every key is such a file or a document touched by a request "
          "(sound; exactly the *.god files for a fresh service), keys and record identities are never duplicated, class look-up in "
          "any letter case returns the file (unique stems), look-up by URI returns the registered record, re-indexing keeps every "
          "record (identity and editor state), picks up new files, is idempotent, and never registers another extension "
          "(Path::extension semantics: `.god` has none, `a.b.god` has `god`, `A.GOD` differs). The model is tied to /repo by running "
          "the extracted model and the real code on generated trees (depth 0..4, empty directories, directories named *.god, "
          "extensions god/GOD/God/txt/none/dot-file/trailing) x histories; an independent oracle re-states the property on the "
          "implementation's own output using only the generated tree."),
    note=("Trusted: Coq kernel, extraction (ExtrOcamlBasic), harness, the host file system. Names over [A-Za-z0-9_.] plus a space, %, #, + and a CJK letter (characters a file URI percent-encodes), "
          "no symlinks, readable directories, a case-sensitive file system, unique upper-cased stems among the *.god files under "
          "the root, requests only for paths that exist (a missing file panics in get_key_for_path: finding D2, property C01), a "
          "workspace root that is absent or a directory."),
    design="6 C19",
    engines=[dict(name="E-index", path="harness/src/eng_index.rs + coq/extract/eng_index.ml",
                  kind_free_text="differential: real DocumentService/ProjectManager on a materialised directory tree vs extracted Coq model, per-operation observation = answer + sorted dump of the path map (identity, opened version, saved flag)")],
)

MANIFEST["text"] += " Fourth session: cased non-ASCII letters (escapes whose ASCII case mirrors the letter's) and dot-directories in the generated trees."

ASSUMPTIONS = [
    "file and directory names are over [A-Za-z0-9_.] plus a space, %, #, + and one caseless non-ASCII letter (written ~1..~5 in the model's names and decoded by the harness), none is '.' or '..'; str::to_uppercase on stems is modelled as ASCII upper-casing; four cased non-ASCII letter pairs with one-to-one case mappings (é ü ж ω) are generated through escapes whose ASCII letter case mirrors the letter's, letters with special case mappings (ß, final sigma, dotted I) are not; the map is keyed by file-system paths, so Url::from_file_path/to_file_path must be mutually inverse also on names a URI percent-encodes - checked by the correspondence, not assumed",
    "no symbolic links INSIDE the workspace (15% of the cases reach the whole workspace through a symbolic link: keys must still be the canonical paths); all directories are readable; the file system is case-sensitive and does not change during one index walk",
    "the *.god files under the workspace root have pairwise distinct stems ignoring case (two files with the same stem overwrite each other in class_uri_map, in read_dir order)",
    "requests (change/parse/save/close/get_document_info) are made for existing paths only: get_key_for_path panics on a missing file (finding D2, handled under property C01); the workspace root is absent, missing, or a directory (read_dir on a regular file panics while the map lock is held)",
    "read_dir order is not modelled: observations are compared as sets sorted by path and record identities are numbered by first appearance in that order",
    "files are never deleted or renamed during a history (the property speaks about creation only)",
]

# cases that run first: regressions and hand-written shapes
CORPUS = [
    # fixed by /repo 716a3a6: a new file touched by a request before the walk saw it was never reachable by class name
    "/;;F:/n.god;C:/n.god:1;S:/n.god;L:n",
    "/;;F:/n.god;U:/n.god;R;L:N;L:n",
    "/;a.god,b.txt,d(c.god,e(f.god,g.GOD,.god,x.y.god),h());R;L:A;L:c;L:F;L:X.Y;L:g;N;U:/b.txt;C:/a.god:3;P:/d/c.god;F:/d/new.god;S:/a.god;L:NEW;X:/d/c.god;N",
    "/ws;ws(a.god,sub.god(k.god)),out(o.god);R;C:/out/o.god:2;C:/ws/sub.god:4;P:/ws;P:/ws/a.god;P:/ws/a.god;C:/ws/a.god:9;P:/ws/a.god;X:/ws/a.god;L:o;L:K;L:sub;S:/out/o.god;N",
    "-;a.god;R;N;U:/a.god;S:/a.god;L:a",
    "/nope;a.god;R;N;U:/a.god;S:/a.god;L:a",
    "/;d1(d2(d3(d4(deep.god))));R;L:DEEP;N;R;N",
    "/;a.god;R;C:/a.god:1;R;R;S:/a.god;N",
]


# --------------------------------------------------------------------------------------------
# case syntax
# --------------------------------------------------------------------------------------------
def parse_entries(s, i=0):
    """-> (entries, i); entry = name (file) | (name, [entries]) (dir)"""
    out = []
    n = len(s)
    while True:
        st = i
        while i < n and s[i] not in ",()":
            i += 1
        name = s[st:i]
        if i < n and s[i] == "(":
            sub, i = parse_entries(s, i + 1)
            assert i < n and s[i] == ")"
            i += 1
            out.append((name, sub))
        elif name:
            out.append(name)
        if i < n and s[i] == ",":
            i += 1
            continue
        return out, i


def show_entries(es):
    return ",".join(e if isinstance(e, str) else "%s(%s)" % (e[0], show_entries(e[1])) for e in es)


def walk_tree(es, pre=""):
    """yields (path, is_dir)"""
    for e in es:
        if isinstance(e, str):
            yield (pre + "/" + e, False)
        else:
            yield (pre + "/" + e[0], True)
            yield from walk_tree(e[1], pre + "/" + e[0])


def parse_case(case):
    f = case.split(";")
    root, tree = f[0], f[1]
    es, i = parse_entries(tree)
    assert i == len(tree)
    return root, es, [o for o in f[2:] if o]


# --------------------------------------------------------------------------------------------
# generator
# --------------------------------------------------------------------------------------------
# ~1..~5: a space, %, #, a CJK letter, + (decoded by the harness; see eng_index.rs)
STEM_WORDS = ["aFoo", "aBar", "Main", "x", "Qux_1", "aOcsCard", "zz", "Node", "tEST", "a.b", "lib.core", "K9", "_u", "wam",
              "a~1b", "~2x", "w~3", "~4~4", "p~5q", "a~220b",
              # ~a/~A .. ~d/~D: é/É ü/Ü ж/Ж ω/Ω, cased letters outside ASCII (the escape's letter case mirrors the letter's)
              "a~anit", "~Av~anement", "Gr~b~Be", "~c~C~c", "~d~Dmega", "se~Cal"]
OTHER_EXT = [".GOD", ".God", ".txt", "", ".god.bak", ".", "god", ".gold", ".go", ".god~"]
DIR_WORDS = ["d", "Sub", "pkg", "WAM", "x.god", "deep", "e_1", "Bundle", "My~1Bundle", "B~4ndel", "c~3", "q~2", "B~bndel", "~Ctage", ".archive", ".git", ".d"]


class Gen:
    def __init__(self, rng):
        self.rng = rng
        self.stems = set()      # upper-cased stems in use
        self.nd = 0

    def stem(self):
        rng = self.rng
        while True:
            w = rng.choice(STEM_WORDS)
            if rng.random() < 0.7:
                w += str(rng.randrange(100))
            if rng.random() < 0.3:
                w = w.swapcase()
            if w.upper() not in self.stems and w not in (".", ".."):
                self.stems.add(w.upper())
                return w

    def file_names(self):
        """one stem -> one or more file names; at most one of them is a *.god file"""
        rng = self.rng
        s = self.stem()
        r = rng.random()
        if r < 0.55:
            names = [s + ".god"]
        elif r < 0.85:
            names = [s + rng.choice(OTHER_EXT)]
        else:  # the same stem with another extension next to the Gold file
            names = [s + ".god", s + rng.choice([".GOD", ".txt", ""])]
        return [n for n in names if n not in (".", "..")]

    def dirname(self):
        self.nd += 1
        return "%s%d" % (self.rng.choice(DIR_WORDS), self.nd) if self.rng.random() < 0.8 else "p%d.god" % self.nd

    def entries(self, depth, maxdepth):
        rng = self.rng
        es = []
        for _ in range(rng.choice([0, 1, 1, 2, 2, 3, 4])):
            es += self.file_names()
        if rng.random() < 0.08 and ".god" not in es:
            es.append(".god")           # dot-file: no extension
        if rng.random() < 0.03 and "..god" not in es and "." not in self.stems:
            self.stems.add(".")
            es.append("..god")          # stem ".", extension god
        if depth < maxdepth:
            for _ in range(rng.choice([0, 1, 1, 2, 3])):
                es.append((self.dirname(), self.entries(depth + 1, maxdepth)))
        elif rng.random() < 0.3:
            es.append((self.dirname(), []))     # empty directory
        rng.shuffle(es)
        return es


def casings(stem, rng):
    return [stem, stem.upper(), stem.lower(), stem.swapcase()]


def is_god_name(name):
    """the property's `*.god`: something, then the literal suffix .god"""
    return len(name) > 4 and name.endswith(".god")


def stem_of(name):
    return name[:-4]


def gen_history(rng, g, root, es):
    """a history over the tree es (not modified; created files are tracked locally)"""
    nodes = list(walk_tree(es))
    files = [p for (p, d) in nodes if not d]
    dirs = [""] + [p for (p, d) in nodes if d]
    used_stems = set(g.stems)
    created = []
    ops = []
    if rng.random() < 0.85:
        ops.append("R")
    rootp = "" if root in ("/", "-") else root
    for _ in range(rng.randint(4, 18)):
        r = rng.random()
        allf = files + created
        if r < 0.16:
            # create a file: inside an existing directory or below new directories
            d = rng.choice(dirs)
            if rng.random() < 0.3:
                d = d + "/n%d" % rng.randrange(3) + ("/m" if rng.random() < 0.3 else "")
            while True:
                w = rng.choice(STEM_WORDS) + "N" + str(rng.randrange(1000))
                if w.upper() not in used_stems:
                    used_stems.add(w.upper())
                    break
            name = w + (".god" if rng.random() < 0.75 else rng.choice(OTHER_EXT))
            p = d + "/" + name
            # a directory in the way (x.god style names are directories) is fine; a file in the way is not generated
            if any(p.startswith(f + "/") for f in allf):
                continue
            created.append(p)
            if d not in dirs:
                parts = d.split("/")[1:]
                for k in range(1, len(parts) + 1):
                    dd = "/" + "/".join(parts[:k])
                    if dd not in dirs:
                        dirs.append(dd)
            ops.append("F:" + p)
        elif r < 0.26:
            ops.append("R")
        elif r < 0.44 and allf:
            ops.append("C:%s:%d" % (rng.choice(allf), rng.randrange(1, 50)))
        elif r < 0.52 and allf:
            ops.append("P:" + (rng.choice(allf) if rng.random() < 0.93 else rng.choice(dirs) or "/"))
        elif r < 0.64 and allf:
            ops.append("S:" + rng.choice(allf))
        elif r < 0.70 and allf:
            ops.append("X:" + rng.choice(allf))
        elif r < 0.86:
            if allf and rng.random() < 0.9:
                name = rng.choice(allf).rsplit("/", 1)[1]
                st = name[:-4] if name.endswith(".god") and len(name) > 4 else name.split(".")[0] or name
                ops.append("L:" + rng.choice(casings(st, rng)))
            else:
                ops.append("L:" + rng.choice(["nothing", "GOD", "god", ""]))
        elif r < 0.94 and allf:
            ops.append("U:" + (rng.choice(allf) if rng.random() < 0.9 else rng.choice(dirs) or "/"))
        else:
            ops.append("N")
    # closing battery: re-index (usually), then every Gold file by class in a random casing and by URI
    if rng.random() < 0.8:
        ops.append("R" if rng.random() < 0.5 or not (files + created) else "S:" + rng.choice(files + created))
    gods = [p for p in files + created if is_god_name(p.rsplit("/", 1)[1])]
    rng.shuffle(gods)
    for p in gods[:6]:
        ops.append("L:" + rng.choice(casings(stem_of(p.rsplit("/", 1)[1]), rng)))
    for p in gods[:3]:
        ops.append("U:" + p)
    ops.append("N")
    return [o for o in ops if not o.startswith("L:") or len(o) > 2]


def gen_cases(ctx):
    rng = random.Random(ctx.seed)
    ntrees = 300 if ctx.quick else 10000
    cases = list(CORPUS)
    for _ in range(ntrees):
        g = Gen(rng)
        maxdepth = rng.choice([0, 1, 2, 2, 3, 3, 4, 4])
        r = rng.random()
        if r < 0.72:
            root, es = "/", g.entries(0, maxdepth)
        elif r < 0.94:
            # workspace below the top, siblings outside of it
            ws = g.entries(1, max(1, maxdepth))
            out = g.entries(1, 1)
            root, es = "/ws", [("ws", ws), ("out", out)]
            if rng.random() < 0.5:
                es.reverse()
        elif r < 0.97:
            root, es = "-", g.entries(0, min(maxdepth, 2))
        else:
            root, es = "/missing", g.entries(0, min(maxdepth, 2))
        tree = show_entries(es)
        for _ in range(5):
            # an empty first op: the client reaches the workspace through a symbolic link (see eng_index.rs)
            cases.append(";".join([root, tree] + ([""] if rng.random() < 0.15 else []) + gen_history(rng, g, root, es)))
    return cases


# --------------------------------------------------------------------------------------------
# the property's own statement as an executable oracle (independent of the Coq model)
# --------------------------------------------------------------------------------------------
DOC = re.compile(r"^(\d+)\.(-|\d+)\.([01])$")


def parse_obs(o):
    ans, _, dump = o.partition("|")
    m = []
    if dump:
        for item in dump.split(","):
            k, _, v = item.partition("=")
            mm = DOC.match(v)
            if not mm:
                raise ValueError("bad record %r" % item)
            m.append((k, (int(mm.group(1)), mm.group(2), int(mm.group(3)))))
    return ans, m


def under(root, p):
    return root is not None and (root == "" or p.startswith(root + "/"))


def oracle(case, impl_out):
    try:
        root, es, ops = parse_case(case)
    except Exception:
        return None
    if impl_out.startswith("PANIC") or impl_out == "CRASH":
        return "implementation panicked: " + impl_out
    obs = impl_out.split(";") if ops else []
    if len(obs) != len(ops):
        return "wrong number of observations (%d for %d operations)" % (len(obs), len(ops))
    nodes = dict(walk_tree(es))                      # path -> is_dir
    rootp = None if root == "-" else ("" if root == "/" else root)
    if rootp is not None and rootp != "" and nodes.get(rootp) is not True:
        rootp = None                                  # missing root: nothing is indexed
    def gods_now():
        return set(p for (p, d) in nodes.items() if not d and is_god_name(p.rsplit("/", 1)[1]) and under(rootp, p))
    indexed = set()          # Gold files that were below the root at the latest walk
    touched = set()          # paths handed to a request
    state = {}               # key -> (id, opened, saved) as last observed
    for idx, (op, o) in enumerate(zip(ops, obs)):
        f = op.split(":")
        kind = f[0]
        where = "op #%d %s: " % (idx, op)
        try:
            ans, dump = parse_obs(o)
        except ValueError as e:
            return where + "unparsable observation (%s)" % e
        own = f[1] if kind in ("C", "P", "S", "X", "U") else None
        if own is not None:
            if own != "/" and own not in nodes:
                return None          # request for a missing path: outside the property's guard (C01)
            touched.add(own)
        if kind == "F":
            p = f[1]
            parts = p.split("/")[1:]
            # a file in the way of a directory / an existing name: nothing is created
            ok = True
            for k in range(1, len(parts)):
                dd = "/" + "/".join(parts[:k])
                if nodes.get(dd) is False:
                    ok = False
            if ok and p not in nodes:
                for k in range(1, len(parts)):
                    nodes.setdefault("/" + "/".join(parts[:k]), True)
                nodes[p] = False
        if ans == "PANIC":
            return where + "the implementation panicked"
        keys = [k for (k, _) in dump]
        # nothing is registered twice; identities are not shared
        if len(set(keys)) != len(keys):
            return where + "a path is registered twice: %r" % keys
        idl = [v[0] for (_, v) in dump]
        if len(set(idl)) != len(idl):
            return where + "two paths share one record: %r" % dump
        if kind in ("R", "S"):
            indexed = gods_now()
            missing = indexed - set(keys)
            if missing:
                return where + "after indexing, Gold files are not registered: %s" % sorted(missing)
        # every key is a Gold file below the root or a document touched by a request
        for k in keys:
            if k not in indexed and k not in touched:
                return where + "registered path %s is neither a *.god file below the root at the last walk nor a requested document" % k
        # records: identity never changes, state of the other documents is untouched
        cur = dict(dump)
        for k, old in state.items():
            if k not in cur:
                return where + "registered path %s disappeared" % k
            new = cur[k]
            if new[0] != old[0]:
                return where + "the record of %s was replaced (identity %d -> %d)" % (k, old[0], new[0])
            if k != own and new != old:
                return where + "editor state of another document %s changed: %r -> %r" % (k, old, new)
        ownk = own
        for k, new in cur.items():
            if k not in state and k != ownk and (new[1] != "-" or new[2] != 0):
                return where + "new record %s does not start empty: %r" % (k, new)
        if ownk is not None:
            if ownk not in cur:
                return where + "requested document %s is not registered" % ownk
            new = cur[ownk]
            if kind == "C" and (new[1] != f[2]):
                return where + "in-editor version of %s is %s, expected %s" % (ownk, new[1], f[2])
            if kind == "C" and ownk in state and new[2] != state[ownk][2]:
                return where + "a change altered the saved copy of %s" % ownk
            if kind in ("S", "X") and (new[1] != "-" or new[2] != 0):
                return where + "%s keeps parsed data after save/close: %r" % (ownk, new)
            if kind == "P":
                old = state.get(ownk, (None, "-", 0))
                if new[1] != old[1]:
                    return where + "a read request altered the in-editor text of %s" % ownk
                exp_saved = 1 if (old[2] == 1 or (old[1] == "-" and nodes.get(own) is False)) else 0
                if new[2] != exp_saved:
                    return where + "saved copy of %s: %d, expected %d" % (ownk, new[2], exp_saved)
            if kind == "U":
                if ans != "%d.%s.%d" % new:
                    return where + "get_document_info returned %s, the map holds %r" % (ans, new)
                if ownk in state and new != state[ownk]:
                    return where + "a look-up changed the record of %s" % ownk
        state = cur
        if kind == "N" and ans != str(len(keys)):
            return where + "count_files = %s, %d paths are registered" % (ans, len(keys))
        if kind == "L":
            name = f[1].upper()
            cands = [p for p in indexed if stem_of(p.rsplit("/", 1)[1]).upper() == name]
            anyg = [p for p in gods_now() if stem_of(p.rsplit("/", 1)[1]).upper() == name]
            if len(anyg) > 1:
                return None          # stems not unique: outside the property's quantifier
            if cands:
                if ans != cands[0]:
                    return where + "class %s is defined by %s, look-up returned %s" % (f[1], cands[0], ans)
            elif not anyg:
                if ans != "-":
                    return where + "no Gold file below the root has stem %s, look-up returned %s" % (f[1], ans)
            elif ans not in ("-", anyg[0]):
                return where + "class %s: look-up returned %s, the only candidate is %s" % (f[1], ans, anyg[0])
    return None


def nontrivial(case):
    try:
        root, es, ops = parse_case(case)
    except Exception:
        return False
    deep = [p for (p, d) in walk_tree(es) if not d and is_god_name(p.rsplit("/", 1)[1]) and p.count("/") >= 2]
    kinds = set(o[0] for o in ops)
    return len(deep) >= 1 and ("R" in kinds or "S" in kinds) and "C" in kinds and "L" in kinds


def shrinker(case):
    try:
        root, es, ops = parse_case(case)
    except Exception:
        return
    tree = show_entries(es)
    for i in range(len(ops)):
        yield ";".join([root, tree] + ops[:i] + ops[i + 1:])

    def drop(es):
        for i, e in enumerate(es):
            yield es[:i] + es[i + 1:]
            if not isinstance(e, str):
                for sub in drop(e[1]):
                    yield es[:i] + [(e[0], sub)] + es[i + 1:]
    for es2 in drop(es):
        yield ";".join([root, show_entries(es2)] + ops)


def known(case, impl_out, model_out):
    return None


def describe(case):
    try:
        root, es, ops = parse_case(case)
    except Exception:
        return case
    return {"workspace_root": root, "files": sorted(p + ("/" if d else "") for (p, d) in walk_tree(es)), "history": ops}


def correspondence(ctx, broken_obligations=()):
    cases = gen_cases(ctx)
    cov = diff.differential(ctx, "index", cases, oracle=oracle, known=known, shrinker=shrinker,
                            nontrivial=nontrivial, describe=describe)
    ntrees = len(set(c.split(";")[1] for c in cases))
    cov["rule"] = ("%d generated directory trees (depth 0..4, empty directories, directories named *.god, file extensions "
                   "god/GOD/God/txt/none/.god.bak/trailing dot/`.god` dot-file/`a.b.god`/`..god`, unique stems ignoring case, "
                   "workspace root = top, a sub-directory with siblings outside, absent or missing) x 5 histories of 5..30 "
                   "operations interleaving file creation (also below new directories), re-index, change/parse/save/close of "
                   "Gold and other documents inside and outside the root, class look-ups in four casings, look-ups by URI and "
                   "counts; %d corpus cases first; observation per operation = answer + sorted dump of the path map; "
                   "non-trivial = a Gold file at depth >= 1, a walk, a change and a class look-up" % (ntrees, len(CORPUS)))
    cov["trees"] = ntrees
    hist = {}
    for c in cases:
        for o in c.split(";")[2:]:
            if o:
                hist[o[0]] = hist.get(o[0], 0) + 1
    cov["input_histogram"] = hist
    cov["samples"] = [cases[0], cases[len(CORPUS) + (len(cases) - len(CORPUS)) // 3][:400], cases[-1][:400]]
    cov["refuted_or_partial"] = ["C19_class_lookup_without_unique_stems_refuted (the quantifier's guard `unique file stems` is necessary)",
                                 "C19_uri_lookup_missing_file_refuted (a request for a missing path panics: D2, property C01)",
                                 "C19_root_is_file_refuted (workspace root that is a regular file: read_dir(..).unwrap() panics)"]
    cov["regressions_replayed"] = ["fixed: property=C19 716a3a6 a file registered by a request before the walk saw it was never reachable by class name (%s)" % CORPUS[0]]
    return cov


def replay(ctx, rep):
    case = rep["case"]
    hb = diff.Engines.harness()
    out = core.run_lines(hb, "index", [case], shards=1)[0]
    r = oracle(case, out)
    print("case:", case); print("implementation:", out); print("oracle:", r or "property holds on this case")
    if r:
        print("VIOLATION property=C19 replay=%s" % rep.get("how_to_rerun", "").split()[-1])
        return 1
    return 0
