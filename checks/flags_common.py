"""Forced schedules of the annotation-flag protocol (engine `flags`, hooks build): case generator, oracle.
See harness/src/eng_flags.rs for the case syntax."""
import itertools, random


def cps(text):
    return ".".join(str(ord(c)) for c in text)


def class_text(name, parent, uses, refs):
    """a class with a field, and a method whose walk looks up every entity in refs"""
    lines = ["class %s (%s)" % (name, parent) if parent else "class %s" % name]
    lines.append(("uses " + ", ".join(uses)) if uses else "")
    lines.append("Fld%s : int4" % name[-1])
    lines.append("proc Work%s(p1 : int4)" % name[-1])
    for k, r in enumerate(refs):
        lines.append("   var v%d : %s" % (k, r))
    lines.append("   ;")
    for k, r in enumerate(refs):
        lines.append("   v%d.Fld%s" % (k, r[-1]))
    lines.append("   self.Fld%s" % name[-1])
    lines.append("endproc")
    return "\n".join(lines) + "\n"


# name -> list of (stem, parent, uses/refs)
WORKSPACES = {
    "mutual_uses": [("aA", None, ["aB"]), ("aB", None, ["aA"])],
    "parent_cycle": [("aA", "aB", ["aB"]), ("aB", "aA", ["aA"])],
    "chain3": [("aA", "aB", ["aC"]), ("aB", "aC", []), ("aC", None, [])],
    "uses_cycle3": [("aA", None, ["aB"]), ("aB", None, ["aC"]), ("aC", None, ["aA"])],
    "mixed": [("aA", "aB", ["aC"]), ("aB", None, ["aC", "aA"]), ("aC", "aB", ["aA"])],
}
ACYCLIC_PARENTS = {"mutual_uses", "chain3", "uses_cycle3"}


def encode(ws, threads, order, note):
    files = []
    for (stem, par, refs) in WORKSPACES[ws]:
        deps = ([par] if par else []) + refs
        files.append("%s~%s~%s" % (stem, "+".join(deps) if deps else "-", cps(class_text(stem, par, refs, refs))))
    th = ",".join("%s:%s:%s:%s:%d" % t for t in threads)
    return "%s/%s/%s|%s" % (th, order, note, ";".join(files))


def describe(case):
    spec, rest = case.split("|", 1)
    th, order, note = spec.split("/")
    files = {}
    for f in rest.split(";"):
        q = f.split("~")
        files[q[0] + ".god"] = "".join(chr(int(x)) for x in q[2].split("."))
    return {"threads (id:file:request:hook:nth arrival)": th, "gates opened in order": order, "notification": note, "files": files}


def gen(ctx):
    rng = random.Random(ctx.seed + 77)
    cases = []
    wsn = {}
    def add(ws, threads, order, note):
        c = encode(ws, threads, order, note)
        cases.append(c)
        wsn[c] = ws
    # two threads on two documents that depend on each other / on a chain: every pair of gates, both release orders
    for ws in ("mutual_uses", "parent_cycle", "chain3"):
        stems = [f[0] for f in WORKSPACES[ws]]
        for (ha, na), (hb, nb) in itertools.product([("1", 1), ("0", 1), ("1", 2), ("0", 2)], repeat=2):
            for order in ("ab", "ba"):
                if ctx.quick and rng.random() < 0.55:
                    continue
                kind = rng.choice("dch")
                add(ws, [("a", stems[0], kind, ha, na), ("b", stems[1], rng.choice("dch"), hb, nb)], order, "-")
        # the same document requested twice
        for order in ("ab", "ba"):
            add(ws, [("a", stems[0], "d", "1", 1), ("b", stems[0], "c", "-", 1)], order, "-")
            add(ws, [("a", stems[0], "d", "0", 1), ("b", stems[0], "d", "1", 1)], order, "-")
    # three threads, every release order, with and without a notification while they are parked
    for ws in ("uses_cycle3", "mixed", "chain3"):
        stems = [f[0] for f in WORKSPACES[ws]]
        for order in ("abc", "acb", "bac", "bca", "cab", "cba"):
            for note in ("-", stems[0] + ":c", stems[1] + ":s", stems[2] + ":x"):
                if ctx.quick and rng.random() < 0.6:
                    continue
                hooks = [rng.choice([("1", 1), ("0", 1), ("1", 2)]) for _ in range(3)]
                add(ws, [("a", stems[0], "d", hooks[0][0], hooks[0][1]), ("b", stems[1], "c", hooks[1][0], hooks[1][1]),
                         ("c", stems[2], "d", hooks[2][0], hooks[2][1])], order, note)
    # the same document requested while its annotator is parked IN ITS WALK (at the nested analysis of a
    # dependency): the second request must wait for the flag, it must not return before the gate is opened
    for ws in ("mutual_uses", "chain3", "uses_cycle3"):
        stems = [f[0] for f in WORKSPACES[ws]]
        for kind in "hc":
            add(ws, [("a", stems[0], "d", "0", 2), ("b", stems[0], kind, "-", 1)], "ab", "-")
    return cases, wsn


def oracle(case, out, ws):
    if out in ("CRASH", "NOHOOKS") or out.startswith("PANIC") or out == "BADCASE":
        return "the schedule did not run: " + out
    body = out.split(";")[0]
    for item in body.split(","):
        tid, _, v = item.partition("=")
        st, _, same = v.partition(":")
        if st in ("HANG", "PANIC"):
            return "request %s: %s (no answer within 8 s after every gate was opened / the handler panicked)" % (tid, st)
    th = case.split("|", 1)[0].split("/")[0].split(",")
    if len(th) == 2 and th[0].endswith(":0:2") and th[1].split(":")[1] == th[0].split(":")[1] and "parked=a" in out:
        early = out.split("early=")[1] if "early=" in out else ""
        if "b" in early:
            return ("request b on %s returned while request a was parked inside its walk of the same document: it was handed a tree "
                    "that is still being filled (the annotation flag did not make it wait)" % th[0].split(":")[1])
    return None


def canon(out):
    """the model predicts which requests return; whether an answer equals the lone answer is reported separately"""
    body = out.split(";")[0]
    return ",".join(item.split(":")[0].replace("=er", "=ok") for item in body.split(","))
