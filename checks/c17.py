"""C17  Letter case of keywords and references never changes the analysis.

Metamorphic check: a workspace W and a re-casing W' of it (every keyword and every reference occurrence in
upper / lower / alternating / random-per-letter case, declarations, string literals and comments left exactly as
written) must give the same tree shape, outline, name resolution, completion, type hierarchy and diagnostics
(naming-convention diagnostics exempt).  Engine `recase` prints every observable on both workspaces; the model side
recomputes the file-level observables (tree, outline, diagnostics) with the extracted Coq models on both variants."""
import random, re
from vlib import core, diff, goldgen
from checks import sem_common as S
from checks.c05 import load_keywords

PID = "C17"
ENGINE = "recase"

MANIFEST = dict(
    engine="E-recase",
    technique=("Coq proof in layers, each for ALL inputs: lexer (re-casing letters inside word tokens changes only the spelling of "
               "those tokens), parser (kind-parametricity: a binary logical relation over the combinators and every grammar "
               "function, knot by induction on fuel: similar token lists parse to similar trees with identical diagnostics), "
               "tree consumers (outline, unused-variable rule, lint rules on similar trees), and the case-insensitivity theorems "
               "of the symbol table, scoping, completion, class forest and class index collected; tied to the code by a "
               "metamorphic + differential run: engine `recase` observes W and a re-casing W' through the ProjectManager"),
    text=("Theorems (Properties/C17.v) over the Gallina models, for all inputs: C17_keyword / C17_lexer: a re-cased word has the "
          "same token kind, a text re-cased inside word tokens lexes to pairwise similar tokens (same kind, range, offset; values "
          "equal ignoring case, exactly equal for literals, comments, numbers) with the same lexical errors; non-ASCII letters are "
          "never part of a word, so Rust's Unicode to_uppercase only sees ASCII words; C17_tree_shape: similar token lists parse "
          "(any fuel, memo on or off) to similar trees (same kinds, ranges, offsets, children shape; identifiers and token values "
          "equal ignoring case) with identical parser diagnostics; C17_outline: on similar trees with declarations as written the "
          "outline is identical except for the letter case of the detail strings, and identical when the echoed references are "
          "spelled alike; C17_outline_refuted: the details ARE references echoed as written (parent class, field type, return "
          "type); C17_diagnostics: parser diagnostics, unused-variable warnings (no guard; the rule as it was before the repair of tools/c15_proposed_fix.diff needed: no "
          "later operand of a dot starts where the left one starts, C17_old_unused_var_guard_needed) and all lint rules incl. the naming rules are identical when declarations are as written, the "
          "non-naming rules are invariant even when declarations are re-cased (up to the case of the quoted name); "
          "C17_symbol_table / C17_resolution / C17_resolution_uses / C17_class_index / C17_completion / C17_completion_dotted / "
          "C17_operand_spelling / C17_hierarchy: the look-ups of the symbol table, the scoping model (identifier, enclosing "
          "class, qualifying class, `uses` entities, every name of a dotted operand -- the exact-spelling comparison "
          "for_class_or_module is proved harmless), the completion listing, the class index and the class forest (class and "
          "parent names re-cased) do not depend on letter case. Invariance under re-casing of the QUERY is proved here; invariance "
          "under re-casing of the references STORED in the workspace (parent names, uses lists, declared type names) is "
          "Properties/C10.v C10_workspace_recase / C10_workspace_recase_answers and C11.v C11_workspace_recase (all workspaces, no "
          "well-formedness hypothesis). TREE LEVEL (C17_tree_*, Proofs/RecaseTree.v, RecaseWsTree.v, RecaseHierTree.v; for all trees / "
          "workspaces): t ~ref t' := equal except for the letter case of keywords and references, = node_sim /\\ decl_exact "
          "(C17_tree_ref_sim_is_parser_similarity), reached from re-cased texts (C17_tree_text_to_ref_sim); C17_tree_annot: the "
          "annotator's tables have the same class, the same symbols, uses_entities equal ignoring case (equal: refuted); "
          "C17_tree_report: the whole assembled diagnostics response is identical; C17_tree_deftree / C17_tree_wstree: "
          "go-to-definition and completion of the tree-level models (one document; workspaces with parents, uses, typed "
          "operands) are identical at every position, the classification Outside included; C17_tree_forest: the class trees of "
          "re-cased file lists (any order, no forest / size hypothesis) are the same heap up to the case of node ids; "
          "C17_tree_hiertree: prepare / supertypes / subtypes identical, names included (C17_tree_old_item_name_refuted: not so "
          "before /repo 3e4a84d); C17_tree_hier_after_dot_branches_refuted: the exact-spelling comparison of "
          "search_sym_info_for_node (right operand of a dot, Outside in the model) has two branches that reach different "
          "symbols -- finding hier-after-dot-own-class-spelling. Tie: generated "
          "workspaces (2..6 classes + modules, inheritance, uses, members, methods with parameters / locals, bodies with "
          "assignments, calls, dotted chains, dangling dots, if / for / while / loop / repeat / switch blocks, `inherited self.X`, "
          "`Purge(x)`, tVarByteArray locals, `pass`, return) and single-file programs of the full grammar (types, records, OQL) x "
          "re-casings (upper, lower, alternating, random per letter, mixed) of every keyword and every reference occurrence; "
          "oracle = the property itself on the implementation's observations of W and W'; the extracted lexer + parser + outline + "
          "unused-variable + lint models must reproduce the file-level observations of both variants."),
    note=("definition / completion / type-hierarchy answers are compared implementation-vs-implementation across the two variants "
          "(metamorphic); their models are tied to the code by C10 / C11 / C13's own checks, and the model engine echoes those "
          "answers. Tree, outline and the full diagnostic report are additionally compared model-vs-implementation on both "
          "variants (the model engine also evaluates node_simb on the two model trees). Trusted: Coq kernel, extraction, harness, "
          "the generator's knowledge of which spans are keywords / references / declarations (cross-checked by an independent "
          "Python tokeniser: only ASCII letters inside word tokens change, literals and comments untouched, lengths equal)."),
    design="6 C17",
    engines=[dict(name="E-recase", path="harness/src/eng_recase.rs + coq/extract/eng_recase.ml",
                  kind_free_text="metamorphic + differential: per workspace variant the manager's syntax tree dump, outline, full "
                                 "diagnostic report per file and definition / completion / type-hierarchy answers at fixed "
                                 "positions; model side: extracted lexer, parser, outline, unused-variable and lint models on the "
                                 "same texts")],
)

ASSUMPTIONS = [
    "re-cased spans are ASCII words (the lexer's words are [A-Za-z_][A-Za-z0-9_]*; a non-ASCII letter is a lexical error, never part of a word): re-casing preserves length, so the same positions are queried in both variants",
    "declarations (class / module / constant / type / field / method / parameter / local names, event suffixes), string literals, comments and numbers are left exactly as written; everything else that is a word is a keyword or a reference and is re-cased",
    "file stems are the declared class / module names as written (the class index is keyed by the upper-cased stem)",
    "the same sequence of requests is sent to both variants (answers may depend on the order of requests: C10 ASSUMPTIONS); HashMap iteration order is not observed (labels, hierarchy items and diagnostics are compared sorted)",
    "the declared type of a MEMBER (field, function, alias) never needs a `uses` look-up (as checks/c10.py ASSUMPTIONS: what such a look-up finds depends on the history of requests; the same history is used for both variants, the restriction only keeps the generated workspaces inside the territory C10 / C11 validated)",
    "the outline's `detail` strings echo references as written (parent class, field type, return type): compared exactly by the oracle, reported as finding outline-detail-echo",
    "tree_recase stage: the type-hierarchy WALKERS (supertypes / subtypes) are compared only for workspaces whose header parent graph is a forest with pairwise distinct class names: otherwise the class tree depends on the order in which the files are met (a HashMap order, different from run to run on one and the same workspace); a difference counts only if three more runs answer each variant the same way",
    "tree_recase stage: prepareTypeHierarchy on the member after a dot differs when a reference to the class being annotated is spelled as declared in one variant and otherwise in the other (finding hier-after-dot-own-class-spelling, checked to reproduce on its witness); such positions are counted, everything else must be identical",
]

NAMING = ("NPROC", "NFUNC", "NFIELD", "NPARAM", "NLOCAL", "NTYPE", "NCONST")
DEV_DETAIL = "outline-detail-echo"        # the outline's detail strings are references echoed as written
ALL_DEVS = [DEV_DETAIL]
DEV_HIER_DOT = "hier-after-dot-own-class-spelling"   # tree_recase stage: exact-spelling comparison in search_sym_info_for_node


# =============================================================================================
# independent tokeniser (for the re-caser's invariants and the single-file stream)
# =============================================================================================
WORD0 = "abcdefghijklmnopqrstuvwxyzABCDEFGHIJKLMNOPQRSTUVWXYZ_"
WORDC = WORD0 + "0123456789"
NUMC = "0123456789." + WORD0[:52]


def tokenize(text):
    """-> list of (kind, start, end), kind in w(ord) n(umber) s(tring) c(omment) o(ther)"""
    out, i, n = [], 0, len(text)
    while i < n:
        c = text[i]
        if c in WORD0:
            j = i
            while j < n and text[j] in WORDC:
                j += 1
            out.append(("w", i, j))
        elif c in "0123456789":
            j = i
            while j < n and text[j] in NUMC:
                j += 1
            out.append(("n", i, j))
        elif c == "'":
            j = i + 1
            while j < n:
                if text[j] == "'":
                    if j + 1 < n and text[j + 1] == "'":
                        j += 2
                        continue
                    j += 1
                    break
                j += 1
            out.append(("s", i, j))
        elif c == '"':
            j = i + 1
            while j < n and text[j] != '"':
                j += 1
            j = min(n, j + 1)
            out.append(("s", i, j))
        elif c == ";":
            j = i
            while j < n and text[j] not in "\r\n":
                j += 1
            out.append(("c", i, j))
        else:
            j = i + 1
            out.append(("o", i, j))
        i = j
    return out


_KW = None


def keywords():
    global _KW
    if _KW is None:
        _KW = set(load_keywords()[1])
    return _KW


# =============================================================================================
# re-casing
# =============================================================================================
MODES = ["upper", "lower", "alt", "rand", "mixed"]


def recase_word(rng, w, mode):
    if mode == "mixed":
        mode = rng.choice(MODES[:4])
    if mode == "upper":
        return w.upper()
    if mode == "lower":
        return w.lower()
    if mode == "alt":
        up = rng.random() < 0.5
        out = []
        for ch in w:
            out.append(ch.upper() if up else ch.lower())
            if ch.isalpha():
                up = not up
        return "".join(out)
    return "".join(ch.upper() if rng.random() < 0.5 else ch.lower() for ch in w)


def check_recasing(a, b):
    """the invariants of a legal re-casing, by the independent tokeniser: same length, differences only at ASCII letters
    inside word tokens of a, same word boundaries"""
    assert len(a) == len(b), "re-casing changed the length"
    ta, tb = tokenize(a), tokenize(b)
    assert [(k, s, e) for k, s, e in ta] == [(k, s, e) for k, s, e in tb], "re-casing changed the token boundaries"
    for k, s, e in ta:
        if k == "w":
            assert a[s:e].upper() == b[s:e].upper() and a[s:e].isascii()
        else:
            assert a[s:e] == b[s:e], "re-casing touched a literal / comment / number / operator"


# =============================================================================================
# workspace stream: abstract workspace of checks/sem_common.py rendered as classified pieces
# =============================================================================================
K, R, D, O = "K", "R", "D", "O"          # keyword, reference, declaration, other


class Render:
    """renders one entity to lines of (text, class) pieces; records queries (kind, stem, line, col, tag)"""
    def __init__(self, rng, ws, sem, gen, e):
        self.r, self.ws, self.sem, self.gen, self.e = rng, ws, sem, gen, e
        self.lines, self.cur, self.queries = [], [], []

    # ---- layout ----
    def col(self):
        return sum(len(t) for t, _ in self.cur)

    def emit(self, text, cls=O):
        if text:
            self.cur.append((text, cls))

    def kw(self, w):
        self.emit(S.vary(self.r, w, 0.25), K)

    def ref(self, name, q=True):
        if q and self.r.random() < 0.45:
            self.q("D", self.col() + (0 if self.r.random() < 0.7 else len(name) - 1))
        self.emit(name, R)

    def nl(self):
        self.lines.append(self.cur)
        self.cur = []

    def q(self, kind, col=None, tag=""):
        self.queries.append((kind, self.e.name, len(self.lines), self.col() if col is None else col, tag))

    # ---- pieces of the language ----
    def type_ref(self, t):
        if t is None:
            return
        k, s = t
        if k == "r":
            self.kw("refTo")
            self.emit(" ")
        elif k == "l":
            self.kw("listOf")
            self.emit(" ")
        self.ref(s)

    def chain(self, items, dangling=False, complete=True):
        for i, (name, call) in enumerate(items):
            if i > 0 and complete and self.r.random() < 0.5:
                self.q("C")
            self.ref(name)
            if call:
                self.emit("(")
                if self.r.random() < 0.4:
                    self.chain(self.gen.gen_chain(self.sem, self.e, self.me, 1))
                self.emit(")")
            if i + 1 < len(items):
                self.emit(".")
        if dangling:
            self.emit(".")
            self.q("C")

    def a_chain(self, maxdots=2):
        return self.gen.gen_chain(self.sem, self.e, self.me, maxdots)

    def atom(self):
        r = self.r
        k = r.random()
        if k < 0.6:
            self.chain(self.a_chain())
        elif k < 0.75:
            self.emit(r.choice(["1", "42", "0x1F", "2.5"]))
        elif k < 0.88:
            self.emit(r.choice(["'txt'", "'Init and PASS'", "'a''B'", '"self.Fa"', "''"]))
        elif k < 0.94:
            self.kw(r.choice(["true", "false", "nil"]))
        else:
            self.kw("not")
            self.emit(" ")
            self.chain(self.a_chain(1))

    def expr(self, depth=0):
        r = self.r
        self.atom()
        while depth < 2 and r.random() < 0.3:
            op = r.choice(["+", "-", "*", "=", "<>", "<", ">=", "&&", "and", "or", "xor", "band", "bor", "in", "like"])
            self.emit(" ")
            if op[0].isalpha():
                self.kw(op)
            else:
                self.emit(op)
            self.emit(" ")
            self.atom()
            depth += 1

    # ---- statements ----
    def block(self, ind, depth, n=None):
        for _ in range(n if n is not None else self.r.randint(1, 3)):
            self.stmt(ind, depth)

    def stmt(self, ind, depth):
        r = self.r
        k = r.random()
        start = True
        if self.after_dangling:
            k = 0.45 + 0.25 * r.random()          # the statement after `x.` starts with a keyword
            self.after_dangling = False
            start = False
        self.emit(ind)
        if start and r.random() < 0.2:
            self.q("C")
        if k < 0.22:
            self.chain(self.a_chain(3))
            self.emit(" " + r.choice(["=", "=", "=", "+=", ":="]) + " ")
            self.expr()
            self.nl()
        elif k < 0.32:
            items = self.a_chain(2)
            items[-1] = (items[-1][0], True)
            self.chain(items)
            self.nl()
        elif k < 0.38:
            self.ref(r.choice(["WriteLn", "writeln", "Concat", "Write"]), q=False)
            self.emit("(")
            self.expr(1)
            self.emit(")")
            self.nl()
        elif k < 0.45:
            if self.me_kind == "u":
                self.kw("return")
                self.emit(" ")
                self.expr(1)
            else:
                self.ref("pass", q=False)
            self.nl()
        elif k < 0.53 and depth < 2:
            self.kw("if")
            self.emit(" ")
            self.expr()
            self.nl()
            self.block(ind + "  ", depth + 1)
            for _ in range(r.choice([0, 0, 1])):
                self.emit(ind)
                self.kw("elseif")
                self.emit(" ")
                self.expr()
                self.nl()
                self.block(ind + "  ", depth + 1, 1)
            if r.random() < 0.4:
                self.emit(ind)
                self.kw("else")
                self.nl()
                self.block(ind + "  ", depth + 1, 1)
            self.emit(ind)
            self.kw("endif")          # a plain `end` would terminate the METHOD (take_until [EndProc; End])
            self.nl()
        elif k < 0.58 and depth < 2 and self.counters:
            self.kw("for")
            self.emit(" ")
            self.ref(S.vary(r, r.choice(self.counters)), q=False)
            self.emit(" = 1 ")
            self.kw(r.choice(["to", "downto"]))
            self.emit(" ")
            self.atom()
            if r.random() < 0.3:
                self.emit(" ")
                self.kw("step")
                self.emit(" 2")
            self.nl()
            self.block(ind + "  ", depth + 1)
            self.emit(ind)
            self.kw("endfor")
            self.nl()
        elif k < 0.63 and depth < 2:
            which = r.choice(["while", "loop", "repeat"])
            if which == "while":
                self.kw("while")
                self.emit(" ")
                self.expr()
                self.nl()
                self.block(ind + "  ", depth + 1)
                self.emit(ind)
                self.kw("endwhile")
                self.nl()
            elif which == "loop":
                self.kw("loop")
                self.nl()
                self.block(ind + "  ", depth + 1, 1)
                self.emit(ind + "  ")
                self.kw(r.choice(["break", "exit", "continue"]))
                self.nl()
                self.emit(ind)
                self.kw("endloop")
                self.nl()
            else:
                self.kw("repeat")
                self.nl()
                self.block(ind + "  ", depth + 1, 1)
                self.emit(ind)
                self.kw("until")
                self.emit(" ")
                self.expr()
                self.nl()
        elif k < 0.67 and depth < 2:
            self.kw("switch")
            self.emit(" ")
            self.chain(self.a_chain(1))
            self.nl()
            for _ in range(r.randint(1, 2)):
                self.emit(ind + "  ")
                self.kw("when")
                self.emit(" " + r.choice(["1", "2, 3", "1 "]))
                if self.cur[-1][0].endswith("1 "):
                    self.kw("to")
                    self.emit(" 5")
                self.nl()
                self.block(ind + "    ", depth + 1, 1)
                self.emit(ind + "  ")
                self.kw("endwhen")
                self.nl()
            if r.random() < 0.4:
                self.emit(ind + "  ")
                self.kw("else")
                self.nl()
                self.block(ind + "    ", depth + 1, 1)
            self.emit(ind)
            self.kw("endswitch")
            self.nl()
        elif k < 0.70:
            self.emit(";" + r.choice(["note Init", " if x then PASS", "", " self.Fa = 1"]))
            self.nl()
        elif k < 0.77:
            self.kw("inherited")
            self.emit(" ")
            if r.random() < 0.8:
                self.ref("self", q=False)
                self.emit(".")
            # (else: the short form `inherited X` without a receiver)
            self.ref(S.vary(r, self.me.name) if r.random() < 0.85 else "Other")
            if r.random() < 0.2:
                self.emit("(1)")
            self.nl()
        elif k < 0.84 and self.tvba:
            self.ref(S.vary(r, "Purge"), q=False)
            self.emit("(")
            self.ref(S.vary(r, r.choice(self.tvba)))
            self.emit(")")
            self.nl()
        elif k < 0.9 and depth == 0:
            items = self.a_chain(2)
            if items[-1][1]:
                items[-1] = (items[-1][0], False)
            self.chain(items, dangling=True)
            self.nl()
            self.after_dangling = True
        else:
            items = self.a_chain(2) + [(r.choice(["Zq", "F", "G", "li"]), False)]
            self.chain(items)
            self.nl()

    # ---- the entity ----
    def run(self):
        r, e, sem = self.r, self.e, self.sem
        self.me, self.me_kind = None, None
        self.kw("class" if e.kind == "c" else "module")
        self.emit(" ")
        self.q("H", self.col() + 1, "class")
        self.emit(e.name, D)
        if e.parent:
            self.emit(" (")
            self.q("D")
            if r.random() < 0.5:
                self.q("H", self.col() + 1, "parent")
            self.emit(e.parent, R)
            self.emit(")")
        self.nl()
        if e.uses:
            self.kw("uses")
            self.emit(" ")
            for i, u in enumerate(e.uses):
                if i:
                    self.emit(", ")
                self.ref(u)
            self.nl()
        if r.random() < 0.5:
            self.nl()
        for d in e.members:
            if d.kind in "pu":
                continue
            if d.kind == "c":
                self.kw("const")
                self.emit(" ")
                self.emit(d.name, D)
                self.emit(" = " + r.choice(["1", "'txt'", "42"]))
                if r.random() < 0.1:
                    self.emit(" ")
                    self.kw("multilang")
            elif d.kind == "t":
                self.kw("type")
                self.emit(" ")
                self.emit(d.name, D)
                self.emit(" : ")
                self.type_ref(d.type)
            else:
                if r.random() < 0.08:
                    self.kw("memory")
                    self.emit(" ")
                self.emit(d.name, D)
                self.emit(" : ")
                self.type_ref(d.type)
                for m in r.sample(["private", "protected", "final", "override"], r.choice([0, 0, 0, 1, 2])):
                    self.emit(" ")
                    self.kw(m)
            self.nl()
        for d in e.members:
            if d.kind not in "pu":
                continue
            me = next((x for x in e.methods if x.name.upper() == d.name.upper()), None)
            if me is None or me.name != d.name:
                continue
            self.me, self.me_kind = me, d.kind
            self.nl()
            self.kw(r.choice(["proc", "proc", "procedure"]) if d.kind == "p" else r.choice(["func", "func", "function"]))
            self.emit(" ")
            if r.random() < 0.6:
                self.q("H", self.col() + 1, "method")
            self.emit(d.name, D)
            if r.random() < 0.06:
                self.emit("#")
                self.emit(r.choice(["Click", "changed"]), D)
            if me.params:
                self.emit("(")
                for i, v in enumerate(me.params):
                    if i:
                        self.emit(", ")
                    if r.random() < 0.3:
                        self.kw(r.choice(["inout", "var", "const"]))
                        self.emit(" ")
                    self.emit(v.name, D)
                    if v.type is not None:
                        self.emit(" : ")
                        self.type_ref(v.type)
                self.emit(")")
            if d.kind == "u":
                self.emit(" ")
                self.kw("return")
                self.emit(" ")
                rt = d.type
                if r.random() < 0.12:
                    # the return-type rule's three names.  A MEMBER's declared type must never need a `uses` look-up
                    # (ASSUMPTIONS; checks/c10.py): the two non-native names only where the entity uses nothing
                    # or the name is an indexed class
                    ok = ["Text"] + [n for n in ("tVarByteArray", "aListOfInstances") if not e.uses or sem.find(n)]
                    rt = ("n", S.vary(r, r.choice(ok), 0.3))
                self.type_ref(("n", rt[1]) if rt else ("n", "int4"))
            for m in r.sample(["private", "protected", "final", "override"], r.choice([0, 0, 0, 1])):
                self.emit(" ")
                self.kw(m)
            fwd = r.random() < 0.04
            if fwd:
                self.emit(" ")
                self.kw("forward")
            self.nl()
            if fwd:
                continue
            # locals: those of the abstract method, loop counters, tVarByteArray buffers, sometimes a duplicate
            self.counters, self.tvba = [], []
            locs = [(v.name, v.type) for v in me.locals]
            if r.random() < 0.5:
                locs.append((r.choice(["i", "k", "idx"]), ("n", "int4")))
                self.counters.append(locs[-1][0])
            for _ in range(r.choice([0, 0, 1, 1, 2])):
                nm = r.choice(["buf", "vb", "Blob"]) + str(len(self.tvba))
                locs.append((nm, ("n", S.vary(r, "tVarByteArray", 0.3))))
                self.tvba.append(nm)
            if locs and r.random() < 0.06:
                locs.append((S.vary(r, locs[0][0], 0.8), ("n", "int4")))
            for nm, t in locs:
                self.emit("  ")
                self.kw("var")
                self.emit(" ")
                self.emit(nm, D)
                self.emit(" : ")
                self.type_ref(t)
                self.nl()
            self.after_dangling = False
            for _ in range(r.randint(2, 6)):
                self.stmt("  ", 0)
            self.kw(("endproc" if d.kind == "p" else "endfunc") if r.random() < 0.9 else "end")
            self.nl()
        return self.lines, self.queries


def text_of(lines, recase=None):
    out = []
    for ln in lines:
        out.append("".join(recase(t, c) if recase else t for t, c in ln))
    return "\n".join(out) + "\n"


def gen_workspace_pieces(rng):
    """-> (files: [(stem, lines of pieces)], queries)"""
    ws = S.Gen(rng).gen_workspace()
    sem = S.Sem(ws)
    gen = S.Gen(rng)
    files, queries = [], []
    for e in ws:
        lines, qs = Render(rng, ws, sem, gen, e).run()
        files.append((e.name, lines))
        queries += qs
    # a bounded number of queries per workspace (all hierarchy queries, a sample of the others)
    hq = [q for q in queries if q[0] == "H"]
    oq = [q for q in queries if q[0] != "H"]
    if len(oq) > 36:
        oq = rng.sample(oq, 36)
    if len(hq) > 14:
        hq = rng.sample(hq, 14)
    keep = set(map(id, hq + oq))
    return files, [q for q in queries if id(q) in keep]


def damage(rng, files):
    """the malformed stream: the same damage in both variants (applied to the pieces before re-casing): a keyword,
    an operator / bracket piece or a whole line is dropped, or a stray bracket is inserted"""
    files = [(s, [list(ln) for ln in lines]) for s, lines in files]
    for _ in range(rng.randint(1, 3)):
        s, lines = rng.choice(files)
        # only lines inside method bodies (indented): a damaged top-level declaration may leave a member with a type
        # that needs a `uses` look-up (ASSUMPTIONS)
        cand = [i for i, ln in enumerate(lines) if ln and i > 0 and ln[0][0].startswith(" ")]
        if not cand:
            continue
        i = rng.choice(cand)
        k = rng.random()
        if k < 0.35:
            js = [j for j, (t, c) in enumerate(lines[i]) if c == K]
            if js:
                lines[i][rng.choice(js)] = (" ", O)
        elif k < 0.6:
            js = [j for j, (t, c) in enumerate(lines[i]) if c == O and t.strip()]
            if js:
                j = rng.choice(js)
                t = lines[i][j][0]
                cut = rng.randrange(len(t))
                # drop one operator / bracket character (never a blank, a quote, or part of a number: pieces must not
                # be glued into one token)
                if t[cut] in "()[]=+-*<>.,:&":
                    lines[i][j] = (t[:cut] + " " + t[cut + 1:], O)
        elif k < 0.8:
            lines[i] = []
        else:
            lines[i].insert(rng.randrange(len(lines[i]) + 1), (" " + rng.choice([")", "(", "]", ".", "=", "endif", "$"]) + " ", O))
    return files


def recase_files(rng, files, mode):
    """-> (files of W, files of W', number of keyword spans changed, number of reference spans changed)"""
    changed = {K: 0, R: 0}

    def rc(t, c):
        if c in (K, R):
            t2 = recase_word(rng, t, mode)
            if t2 != t:
                changed[c] += 1
            return t2
        return t
    a, b = [], []
    for stem, lines in files:
        ta = text_of(lines)
        tb = text_of(lines, rc)
        check_recasing(ta, tb)
        a.append((stem, ta))
        b.append((stem, tb))
    return a, b, changed[K], changed[R]


# =============================================================================================
# single-file stream: programs of the full grammar (vlib/goldgen.py), classified by the tokeniser
# =============================================================================================
DECL_AFTER = {"CLASS", "MODULE", "CONST", "TYPE", "VAR", "PROC", "PROCEDURE", "FUNC", "FUNCTION", "MEMORY", "INOUT"}
METHOD_KW = {"PROC", "PROCEDURE", "FUNC", "FUNCTION"}
END_KW = {"ENDPROC", "ENDFUNC"}


def classify_program(text):
    """pieces of a single program: keywords K; identifiers inside method bodies that are neither declared there
    (`var x`, `const c`, `type t`, `x :`) nor part of the header line are references R; everything else is left as written"""
    kws = keywords()
    toks = tokenize(text)
    pieces = []
    in_body = False
    header_line = False
    no_body = False
    prev_word = None
    decl_line = False          # a line that starts with var / const / type: enum variants, record fields ... are declared there
    line_start = True
    for idx, (k, s, e) in enumerate(toks):
        t = text[s:e]
        cls = O
        if k == "w":
            up = t.upper()
            first_word = line_start
            if line_start:
                decl_line = up in ("VAR", "CONST", "TYPE")
                line_start = False
            if up in kws:
                cls = K
                if up in METHOD_KW and first_word:
                    # a method header (also directly after a forward / external method, which has no body)
                    header_line, in_body, no_body = True, False, False
                if header_line and up in ("FORWARD", "EXTERNAL"):
                    no_body = True
                if up in END_KW or (up == "END" and in_body):
                    in_body = False
            else:
                nxt = next((text[a:b] for kk, a, b in toks[idx + 1:] if text[a:b] not in (" ", "\t")), "")
                nxt2 = text[e:e + 3].lstrip(" \t")
                is_decl = (prev_word in DECL_AFTER) or (nxt == ":" and not nxt2.startswith(":=")) or nxt == "#" or prev_word == "#"
                if in_body and not header_line and not is_decl and not decl_line:
                    cls = R
            prev_word = up
        elif k == "o" and t in "\r\n":
            line_start = True
            decl_line = False
            if header_line:
                header_line = False
                in_body = not no_body
        elif k == "o" and t == "#":
            prev_word = "#"
        elif k != "o" or t not in " \t":
            prev_word = None
            line_start = False
        pieces.append((t, cls))
    return [pieces]


def gen_program_pieces(rng):
    g = goldgen.Gen(rng)
    text, _kids, _methods = g.gen_program(header=rng.choice(["class", "classp", "module"]))
    text = text.replace("\r\n", "\n")
    m = re.search(r"(?im)^(?:class|module)\s+(\w+)", text)
    stem = m.group(1) if m else "aCase"
    lines = classify_program(text)
    # text_of appends a newline per line list: strip the final one of the program
    if lines[0] and lines[0][-1][0] == "\n":
        lines[0].pop()
    queries = [("H", stem, 0, len(text.split("\n")[0].split()[0]) + 2, "class")]
    return [(stem, lines)], queries


# =============================================================================================
# case lines
# =============================================================================================
def enc(t):
    return ".".join(str(ord(c)) for c in t)


def dec(s):
    return "".join(chr(int(c)) for c in s.split(".")) if s else ""


def mk_line(fa, fb, queries, meta):
    f = lambda fs: ";".join("%s=%s" % (s, enc(t)) for s, t in fs)
    q = ";".join("%s,%s,%d,%d,%s" % x for x in queries)
    return "|".join([f(fa), f(fb), q, meta])


def parse_line(line):
    fa, fb, q, meta = (line.split("|") + ["", ""])[:4]
    pf = lambda s: [(x.split("=")[0], dec(x.split("=")[1])) for x in s.split(";") if x]
    qs = []
    for x in [x for x in q.split(";") if x]:
        f = x.split(",", 4)
        qs.append((f[0], f[1], int(f[2]), int(f[3]), f[4] if len(f) > 4 else ""))
    return pf(fa), pf(fb), qs, meta


def meta_of(line):
    m = line.rsplit("|", 1)[-1]
    return dict(kv.split("=") for kv in m.split(",") if "=" in kv)


def nontrivial(line):
    m = meta_of(line)
    return int(m.get("kw", 0)) > 0 and int(m.get("ref", 0)) > 0


def describe(line):
    fa, fb, qs, meta = parse_line(line)
    out = {"meta": meta, "files": {}, "queries": ["%s %s.god line %d col %d %s" % q for q in qs[:60]], "n_queries": len(qs)}
    for (s, ta), (_, tb) in zip(fa, fb):
        la, lb = ta.split("\n"), tb.split("\n")
        out["files"][s + ".god"] = {"W": ta, "W'": tb,
                                    "changed_lines": ["%d: %s  ->  %s" % (i, x, y) for i, (x, y) in enumerate(zip(la, lb)) if x != y][:80]}
    return out


# =============================================================================================
# hand-written probes: the candidates the property statement suggests (each must satisfy the oracle, or is a finding)
# =============================================================================================
def probe(files_a, files_b, queries, name):
    for (s, a), (_, b) in zip(files_a, files_b):
        check_recasing(a, b)
    return mk_line(files_a, files_b, queries, "kind=probe,name=%s,kw=1,ref=1,mode=hand" % name)


def probes():
    P = []
    # parent class, uses, type references, natives, self / inherited / pass, Purge, locals re-cased at their use
    a = [("aBase", "class aBase\n\nFa : int4\nLink : refTo aBase\nItems : listOf aBase\n\nproc Init\n  var x : int4\n  x = 1\nendproc\n\n"
                   "func Get return CString\n  return Fa\nendfunc\n\nproc Run(p1 : aBase)\n  pass\nendproc\n"),
         ("aSub", "class aSub (aBase)\nuses aModUtil\n\nconst cMax = 3\ntype tRef : refTo aSub\n\nproc Init override\n  var v : tVarByteArray\n  var lObj : tRef\n"
                  "  inherited self.Init\n  Purge(v)\n  self.Fa = cLib\n  lObj.Link.Fa = 2\n  Link.\n  if lObj.Get = 'q'\n    Run(self)\n  endif\nendproc\n"),
         ("aModUtil", "module aModUtil\n\nconst cLib = 7\n\nfunc Make return aSub\n  var unusedOne : int4\n  return nil\nendfunc\n")]
    up = lambda t, words: re.sub(r"\b(%s)\b" % "|".join(words), lambda m: m.group(0).upper(), t)
    kwref = ["class", "module", "uses", "const", "type", "proc", "endproc", "func", "endfunc", "return", "var", "refTo", "listOf", "inherited",
             "if", "endif", "override", "nil", "int4", "CString", "tVarByteArray", "self", "pass", "Purge", "Run", "Get", "Link", "Fa",
             "cLib", "tRef", "lObj", "v", "x", "Init", "aModUtil", "aSub", "aBase"]
    b = []
    for s, t in a:
        out = []
        for ln in t.split("\n"):
            # declarations stay: the word that follows class/module/const/type/proc/func/var and `name :` at top level
            m = re.match(r"^(\s*)(class|module|const|type|proc|func|var)(\s+)(\w+)(.*)$", ln)
            if m:
                out.append(m.group(1) + m.group(2).upper() + m.group(3) + m.group(4) + up(m.group(5), kwref).replace("(P1 :", "(p1 :"))
                continue
            m = re.match(r"^(\w+)(\s*:\s*)(.*)$", ln)
            if m and not ln.startswith(" "):
                out.append(m.group(1) + m.group(2) + up(m.group(3), kwref))
                continue
            out.append(up(ln, kwref))
        b.append((s, "\n".join(out)))
    qs = [("H", "aSub", 0, 7, "class"), ("H", "aSub", 0, 13, "parent"), ("H", "aBase", 0, 7, "class"), ("H", "aSub", 6, 6, "method"),
          ("D", "aSub", 0, 13, ""), ("D", "aSub", 1, 6, ""), ("D", "aSub", 4, 19, ""), ("D", "aSub", 8, 14, ""), ("D", "aSub", 9, 18, ""),
          ("D", "aSub", 11, 7, ""), ("D", "aSub", 11, 12, ""), ("D", "aSub", 12, 7, ""), ("D", "aSub", 12, 12, ""), ("C", "aSub", 13, 7, ""),
          ("D", "aSub", 14, 10, ""), ("D", "aSub", 15, 4, ""), ("C", "aSub", 15, 4, ""), ("D", "aModUtil", 4, 17, ""), ("D", "aBase", 3, 14, "")]
    P.append(probe(a, b, qs, "all-references-upper"))
    # a member overridden with another letter case in the subclass; duplicate local in another case; local used in another case
    a = [("aOne", "class aOne\n\nValue : int4\n\nproc Notify\n  var tmp : int4\n  var TMP : int4\n  tmp = Value\nendproc\n"),
         ("aTwo", "class aTwo (aOne)\n\nVALUE : int4 override\n\nproc notify override\n  var cnt : int4\n  inherited self.Notify\n  self.value = CNT\nendproc\n")]
    b = [("aOne", "CLASS aOne\n\nValue : INT4\n\nPROC Notify\n  VAR tmp : INT4\n  VAR TMP : INT4\n  TMP = VALUE\nENDPROC\n"),
         ("aTwo", "Class aTwo (AONE)\n\nVALUE : Int4 OVERRIDE\n\nProc notify Override\n  Var cnt : INT4\n  Inherited SELF.notify\n  Self.VALUE = cnt\nEndProc\n")]
    qs = [("H", "aTwo", 0, 7, "class"), ("H", "aTwo", 4, 6, "method"), ("H", "aOne", 4, 6, "method"), ("D", "aTwo", 7, 8, ""), ("D", "aTwo", 7, 16, ""),
          ("D", "aTwo", 6, 18, ""), ("C", "aTwo", 7, 7, ""), ("D", "aOne", 7, 9, "")]
    P.append(probe(a, b, qs, "override-other-case"))
    # non-ASCII look-alikes are not words: lexical errors in both variants, nothing becomes a keyword or matches a name
    a = [("aUni", "class aUni\n\nField : int4\n\nproc Run\n  var k : int4\n  ſelf.Field = 1\n  ﬁeld = 2\n  K = 3\n  k = 1\n  claſſ = 4\nendproc\n")]
    b = [("aUni", "CLASS aUni\n\nField : INT4\n\nPROC Run\n  VAR k : INT4\n  ſELF.FIELD = 1\n  ﬁELD = 2\n  K = 3\n  K = 1\n  CLAſſ = 4\nENDPROC\n")]
    P.append(probe(a, b, [("H", "aUni", 0, 7, "class"), ("D", "aUni", 9, 2, ""), ("C", "aUni", 9, 2, "")], "non-ascii-lookalikes"))
    # method names with #event suffix, return type rules, OQL with join words
    a = [("aEvt", "class aEvt\n\nBtn : int4\n\nproc Btn#Click\n  pass\nendproc\n\nfunc Data return tVarByteArray\n  var b : tVarByteArray\n  return b\nendfunc\n\n"
                  "func Txt return Text\n  foreach x in OQL select * from x in aEvt outerjoinon x.Btn = x.Btn where x.Btn = 1\n    Purge(b)\n  endfor\n  return nil\nendfunc\n")]
    b = [("aEvt", "CLASS aEvt\n\nBtn : INT4\n\nPROC Btn#Click\n  PASS\nENDPROC\n\nFUNC Data RETURN TVARBYTEARRAY\n  VAR b : TVarByteArray\n  RETURN B\nENDFUNC\n\n"
                  "FUNC Txt RETURN text\n  FOREACH X IN oql SELECT * FROM X IN AEVT OUTERJOINON X.BTN = X.BTN WHERE X.BTN = 1\n    PURGE(B)\n  ENDFOR\n  RETURN NIL\nENDFUNC\n")]
    P.append(probe(a, b, [("H", "aEvt", 0, 7, "class"), ("H", "aEvt", 4, 6, "method"), ("D", "aEvt", 10, 9, ""), ("D", "aEvt", 14, 37, "")], "event-oql-rettype"))
    return P


# =============================================================================================
# the oracle: the property's own statement on the implementation's observations of W and W'
# =============================================================================================
def upc_cps(s):
    """upper-case a `.`-joined code point string"""
    if s == "-" or s == "":
        return s
    return ".".join(str(int(c) - 32) if 97 <= int(c) <= 122 else c for c in s.split("."))


def canon_tok(t):
    f = t.split(":")
    if len(f) == 7:
        f[6] = upc_cps(f[6])
    return ":".join(f)


def canon_attrs(a):
    out = []
    for kv in [x for x in a.split(";") if x]:
        k, v = kv.split("=", 1)
        if v[:1] == "s":
            v = "s" + upc_cps(v[1:])
        elif v[:1] == "t":
            v = "t" + canon_tok(v[1:])
        elif v[:1] == "l":
            v = "l" + ",".join(canon_tok(x) for x in v[1:].split(",") if x)
        out.append(k + "=" + v)
    return ";".join(out)


def canon_dump(dump):
    """the tree dump with every identifier and token value upper-cased: kinds, offsets, ranges, attribute keys, token
    kinds and children shape are compared exactly, spellings ignoring case"""
    if not dump.startswith("("):
        return dump
    out, pos, n = [], 0, len(dump)
    while pos < n:
        if dump[pos] == "(":
            j = dump.index("{", pos)
            head = dump[pos + 1:j].split(" ")
            head[1] = upc_cps(head[1])
            k = dump.index("}", j)
            out.append("(" + " ".join(head) + "{" + canon_attrs(dump[j + 1:k]) + "}")
            pos = k + 1
        else:
            out.append(dump[pos])
            pos += 1
    return "".join(out)


def fold_details(outline):
    """the outline with the detail strings upper-cased (deviation outline-detail-echo)"""
    def sym(m):
        f = m.group(0).split("|")
        if len(f) >= 2 and f[1] != "~":
            f[1] = upc_cps(f[1])
        return "|".join(f)
    # a symbol starts after `[` or `,` : name|detail|kind|...
    return re.sub(r"(?<=[\[,])[0-9.\-]+\|[0-9.\-~]+\|", sym, outline)


def parse_obs(obs):
    """obs of one workspace -> (files: [(stem, tree, outline, [diags])], answers) or None"""
    if "@Q@" not in obs:
        return None
    fpart, answers = obs.split("@Q@", 1)
    files = []
    for f in [x for x in fpart.split("%") if x]:
        m = re.match(r"^(?:MODEL-[A-Z-]+ )*([^\^]*)\^T(.*)\^O(.*)\^G(.*)$", f, re.S)
        if not m:
            return None
        files.append((m.group(1), m.group(2), m.group(3), [d for d in m.group(4).split(";") if d]))
    return files, (answers.split(";") if answers else [])


def compare(out, devs=frozenset()):
    """-> list of clause failures (strings); empty = the property holds on this pair"""
    if out.startswith(("PANIC", "CRASH", "BADCASE")) or "@P@" not in out:
        return ["the engine failed on the pair: " + out[:200]]
    oa, ob = out.split("@P@", 1)
    pa, pb = parse_obs(oa), parse_obs(ob)
    if pa is None or pb is None:
        return ["unparsable observation"]
    bad = []
    (fa, aa), (fb, ab) = pa, pb
    if len(fa) != len(fb) or len(aa) != len(ab):
        return ["different numbers of files / answers in the two variants"]
    for (s, ta, oa_, da), (_, tb, ob_, db) in zip(fa, fb):
        for x in (ta, oa_, tb, ob_):
            if x.startswith(("PANIC", "HANG", "ERR")):
                bad.append("%s.god: %s" % (s, x[:120]))
        if canon_dump(ta) != canon_dump(tb):
            bad.append("tree shape differs in %s.god" % s)
        if DEV_DETAIL in devs:
            if fold_details(oa_) != fold_details(ob_):
                bad.append("outline differs in %s.god (beyond the letter case of detail strings)" % s)
        elif oa_ != ob_:
            bad.append("outline differs in %s.god: %s" % (s, first_diff(oa_, ob_)))
        na = sorted(d for d in da if d.split(":")[0] not in NAMING)
        nb = sorted(d for d in db if d.split(":")[0] not in NAMING)
        if na != nb:
            bad.append("diagnostics differ in %s.god: only in W %s, only in W' %s" % (s, sorted(set(na) - set(nb))[:4], sorted(set(nb) - set(na))[:4]))
    for i, (x, y) in enumerate(zip(aa, ab)):
        if x.startswith("ERR") and y.startswith("ERR"):
            x, y = x.lower(), y.lower()
        if x != y:
            bad.append("answer %d differs: W %s / W' %s" % (i, x[:160], y[:160]))
        if x.startswith(("PANIC", "HANG")):
            bad.append("answer %d: %s" % (i, x[:80]))
    return bad


def first_diff(a, b):
    i = next((k for k, (x, y) in enumerate(zip(a, b)) if x != y), min(len(a), len(b)))
    return "W ...%s / W' ...%s" % (a[max(0, i - 30):i + 40], b[max(0, i - 30):i + 40])


def naming_changed(out):
    """naming-convention diagnostics are exempt; they depend on declarations only, which are left as written: count pairs
    where they changed nevertheless (reported in the coverage, not a violation of the property)"""
    try:
        oa, ob = out.split("@P@", 1)
        (fa, _), (fb, _) = parse_obs(oa), parse_obs(ob)
        return any(sorted(d for d in da if d.split(":")[0] in NAMING) != sorted(d for d in db if d.split(":")[0] in NAMING)
                   for (_, _, _, da), (_, _, _, db) in zip(fa, fb))
    except Exception:
        return False


def oracle(line, out):
    bad = compare(out)
    return bad[0] if bad else None


def make_known(ctx):
    findings = [f for f in ctx.open_findings() if f.get("property") == PID and f.get("class") in ALL_DEVS]
    listed = frozenset(f.get("class") for f in findings)
    ids = dict((f.get("class"), f.get("id")) for f in findings)

    def known(line, impl_out, model_out):
        if not listed:
            return None
        if model_out is not None and impl_out != model_out:
            return None                       # a model / implementation disagreement is never a listed finding
        bad = compare(impl_out)
        if not bad or compare(impl_out, listed):
            return None
        for c in sorted(listed):
            ctx.known("%s: the two variants differ by the listed deviation %s only" % (ids.get(c), c))
        return "every failing pair differs by listed deviations only"
    return known


# =============================================================================================
# shrinker: drop files / queries / lines (declarations, statements) while the pair still differs
# =============================================================================================
def drop_lines(fa, fb, qs, stem, lo, hi):
    """remove lines [lo, hi) of file stem in both variants; queries on those lines go, later ones move up"""
    def cut(fs):
        out = []
        for s, t in fs:
            if s == stem:
                ls = t.split("\n")
                t = "\n".join(ls[:lo] + ls[hi:])
            out.append((s, t))
        return out
    q2 = []
    for (k, s, l, c, tag) in qs:
        if s == stem:
            if lo <= l < hi:
                continue
            if l >= hi:
                l -= hi - lo
        q2.append((k, s, l, c, tag))
    return cut(fa), cut(fb), q2


def shrinker(line):
    fa, fb, qs, meta = parse_line(line)
    # queries: halves, then singles
    n = len(qs)
    if n > 1:
        h = n // 2
        for part in (qs[:h], qs[h:]):
            yield mk_line(fa, fb, part, meta)
        if n <= 10:
            for i in range(n):
                yield mk_line(fa, fb, qs[:i] + qs[i + 1:], meta)
    elif n == 1:
        yield mk_line(fa, fb, [], meta)
    # files
    if len(fa) > 1:
        for i in range(len(fa)):
            stem = fa[i][0]
            yield mk_line(fa[:i] + fa[i + 1:], fb[:i] + fb[i + 1:], [q for q in qs if q[1] != stem], meta)
    # methods (from a proc/func line to its end line), then single lines
    for s, t in fa:
        ls = t.split("\n")
        starts = [i for i, l in enumerate(ls) if re.match(r"(?i)^(proc|procedure|func|function)\b", l)]
        for i in starts:
            j = next((k for k in range(i + 1, len(ls)) if re.match(r"(?i)^(endproc|endfunc|end)\b", ls[k])), None)
            if j is not None:
                a2, b2, q2 = drop_lines(fa, fb, qs, s, i, j + 1)
                yield mk_line(a2, b2, q2, meta)
        for i in range(len(ls) - 1, 0, -1):
            a2, b2, q2 = drop_lines(fa, fb, qs, s, i, i + 1)
            yield mk_line(a2, b2, q2, meta)
    # restore the original spelling of single lines of W' (fewer re-cased spans)
    for idx, ((s, ta), (_, tb)) in enumerate(zip(fa, fb)):
        la, lb = ta.split("\n"), tb.split("\n")
        for i in range(len(la)):
            if la[i] != lb[i]:
                nb = lb[:i] + [la[i]] + lb[i + 1:]
                yield mk_line(fa, fb[:idx] + [(s, "\n".join(nb))] + fb[idx + 1:], qs, meta)


# =============================================================================================
# the check
# =============================================================================================
def split(out):
    mi, obs = out.split("@S@", 1) if "@S@" in out else ("", out)
    return mi, obs


def gen_cases(ctx):
    rng = random.Random(ctx.seed)
    nws = 260 if ctx.quick else 4000
    nprog = 220 if ctx.quick else 3000
    cases = list(probes())
    hist = {"workspaces": 0, "malformed_workspaces": 0, "programs": 0, "pairs": 0, "kw_spans_changed": 0, "ref_spans_changed": 0, "queries": 0}
    for _ in range(nws):
        files, queries = gen_workspace_pieces(rng)
        hist["workspaces"] += 1
        if rng.random() < 0.15:
            files = damage(rng, files)
            hist["malformed_workspaces"] += 1
        for mode in rng.sample(MODES, 3):
            fa, fb, nk, nr = recase_files(rng, files, mode)
            cases.append(mk_line(fa, fb, queries, "kind=ws,mode=%s,kw=%d,ref=%d" % (mode, nk, nr)))
            hist["pairs"] += 1
            hist["kw_spans_changed"] += nk
            hist["ref_spans_changed"] += nr
            hist["queries"] += len(queries)
    for _ in range(nprog):
        files, queries = gen_program_pieces(rng)
        hist["programs"] += 1
        mode = rng.choice(MODES)
        fa, fb, nk, nr = recase_files(rng, files, mode)
        cases.append(mk_line(fa, fb, queries, "kind=prog,mode=%s,kw=%d,ref=%d" % (mode, nk, nr)))
        hist["pairs"] += 1
        hist["kw_spans_changed"] += nk
        hist["ref_spans_changed"] += nr
        hist["queries"] += len(queries)
    return cases, hist


def witness_case(cls):
    if cls == DEV_DETAIL:
        a = [("aB", "class aB (aA)\n\nLink : refTo aA\n\nfunc Get return aA\n  return nil\nendfunc\n"), ("aA", "class aA\n")]
        b = [("aB", "class aB (AA)\n\nLink : refTo AA\n\nfunc Get return AA\n  return nil\nendfunc\n"), ("aA", "class aA\n")]
        return probe(a, b, [("H", "aB", 0, 7, "class")], "outline-detail")
    raise KeyError(cls)


def replay_witnesses(ctx):
    hb = diff.Engines.harness()
    for f in ctx.open_findings():
        cls = f.get("class")
        if f.get("property") != PID or cls not in ALL_DEVS:
            continue
        line = witness_case(cls)
        out = split(core.run_lines(hb, ENGINE, [line], shards=1)[0])[1]
        if not compare(out) or compare(out, frozenset([cls])):
            path = core.write_replay(ctx.pid, ctx.seed, {"broken": "known finding %s no longer reproduces on its witness" % f.get("id"),
                                                          "case": line, "case_readable": describe(line), "observed": out})
            raise core.Violation("listed finding does not reproduce", path, False)
        ctx.known("%s: %s reproduces on its witness" % (f.get("id"), cls))



# =============================================================================================
# tree level (Properties/C17.v C17_tree_*): the workspaces of checks/c10.py's wstree stage and a re-casing of each
# (every keyword and every reference: parent class, `uses` entities, type names, body identifiers; declared names
# untouched), both through the harness engines `wstree`, `hiertree` and `report` -- implementation vs implementation,
# position by position (the positions are the same: only letter case changes)
# =============================================================================================
_DECL_KIND_NAMES = ("KAstClass", "KAstModule", "KAstConstantDeclaration", "KAstTypeDeclaration", "KAstGlobalVariableDeclaration",
                    "KAstLocalVariableDeclaration", "KAstParameterDeclaration", "KAstProcedure", "KAstFunction",
                    "KAstEnumVariant", "KAstTypeRecordField")
_METH_KIND_NAMES = ("KAstProcedure", "KAstFunction")
_KIND_IDX = None


def _kind_idx():
    global _KIND_IDX
    if _KIND_IDX is None:
        import os
        path = os.path.join(core.VERIF, "coq/theories/Gen/AstKinds.v")
        names = re.findall(r"^\| (K\w+)", open(path).read(), re.M)
        _KIND_IDX = ({str(names.index(n)) for n in _DECL_KIND_NAMES}, {str(names.index(n)) for n in _METH_KIND_NAMES})
    return _KIND_IDX


def classify_ws_file(text):
    """classify_program, plus the references OUTSIDE method bodies: the parent class of a class header, the entities of
    a `uses` line, and type names (a word directly after `:`, `return`, `refTo`, `listOf`, `instanceOf`)"""
    kws = keywords()
    pieces = classify_program(text)[0]
    out = []
    first_word = None          # upper-cased first word of the current line
    prev_sig = None            # previous token that is not a blank: (text, class)
    prev_word = None
    for t, c in pieces:
        if t in ("\n", "\r"):
            first_word, prev_sig, prev_word = None, None, None
            out.append((t, c))
            continue
        is_word = bool(t) and t[0] in WORD0
        if is_word:
            up = t.upper()
            if first_word is None:
                first_word = up
            elif c == O and up not in kws:
                if first_word == "CLASS" and prev_word != "CLASS" and prev_sig is not None and prev_sig[0] == "(":
                    c = R
                elif first_word == "USES":
                    c = R
                elif prev_sig is not None and prev_sig[0] == ":" :
                    c = R
                elif prev_word in ("RETURN", "REFTO", "LISTOF", "INSTANCEOF") and prev_sig is not None and prev_sig[0].upper() == prev_word:
                    c = R
            prev_word = up
        if t not in (" ", "\t"):
            prev_sig = (t, c)
        out.append((t, c))
    return [out]


def _heads(dump):
    """the node heads of a dump in pre-order: (kind, ident cps, attrs)"""
    out, pos, n = [], 0, len(dump)
    while pos < n:
        if dump[pos] == "(":
            j = dump.index("{", pos)
            k = dump.index("}", j)
            h = dump[pos + 1:j].split(" ")
            out.append((h[0], h[1], dump[j + 1:k]))
            pos = k + 1
        else:
            pos += 1
    return out


def _attr1(attrs):
    for kv in attrs.split(";"):
        if kv.startswith("1="):
            return kv
    return ""


def dumps_ref_sim(da, db):
    """the hypothesis of the C17_tree_* theorems on two dumps: equal ignoring the case of identifiers and word values
    (node_sim), every declaring node spelled identically (decl_exact)"""
    if canon_dump(da) != canon_dump(db):
        return False
    decl, meth = _kind_idx()
    ha, hb = _heads(da), _heads(db)
    if len(ha) != len(hb):
        return False
    for i, (x, y) in enumerate(zip(ha, hb)):
        if x[0] in decl:
            if x[1] != y[1] or _attr1(x[2]) != _attr1(y[2]):
                return False
            if x[0] in meth and i + 1 < len(ha) and ha[i + 1][1] != hb[i + 1][1]:
                return False
    return True


NAMING_TEXTS = ("names should have capital first letter", "names should have lowercase first letter",
                "names should start with")


def _uncps(s):
    return "".join(chr(int(x)) for x in s.split(".")) if s and s != "-" else ""


def _report_items(obs):
    """first response of engine `report` -> (items without the naming ones, number of naming items)"""
    if "#" not in obs:
        return None
    resp = obs.split("#", 1)[1].split("|", 1)[0]
    items, naming = [], []
    for it in (resp.split(";") if resp else []):
        msg = _uncps(it.rsplit(":", 1)[1]) if ":" in it else ""
        (naming if any(x in msg for x in NAMING_TEXTS) else items).append(it)
    return items, naming


def _report_cmp(items):
    """unused-variable warnings of one method come in HashMap order: runs of them as sorted runs"""
    out, run = [], []
    for it in items:
        if "85.110.117.115.101.100.32.118.97.114" in it:      # "Unused var"
            run.append(it)
        else:
            if run:
                out.append(tuple(sorted(run)))
                run = []
            out.append(it)
    if run:
        out.append(tuple(sorted(run)))
    return out


def tree_recase_pairs(ctx):
    from checks import c10
    cases, hist = c10.ws_cases(ctx)
    rng = random.Random(ctx.seed * 104729 + 17)
    if ctx.quick and len(cases) > 150:
        keep = sorted(rng.sample(range(len(cases)), 150))
        cases = [cases[i] for i in keep]
    pairs = []
    for case in cases:
        kind = case.rsplit("@", 1)[1]
        files = c10.ws_files(case)
        mode = rng.choice(MODES)
        changed = {K: 0, R: 0}

        def rc(t, c):
            if c in (K, R):
                t2 = recase_word(rng, t, mode)
                if t2 != t:
                    changed[c] += 1
                return t2
            return t
        fa, fb, ok = [], [], True
        for stem, text in files:
            lines = classify_ws_file(text)
            ta = "".join(t for t, _ in lines[0])
            tb = "".join(rc(t, c) for t, c in lines[0])
            if ta != text:
                ok = False
                break
            try:
                check_recasing(ta, tb)
            except AssertionError:
                ok = False
                break
            fa.append((stem, ta))
            fb.append((stem, tb))
        if ok:
            pairs.append(dict(kind=kind, mode=mode, a=fa, b=fb, kw=changed[K], ref=changed[R]))
    return pairs, hist


def _ht_line(files):
    return ";".join("%s~%s" % (s, ".".join(str(ord(c)) for c in t)) for s, t in files)


def _cps(t):
    return ".".join(str(ord(c)) for c in t)


def tree_recase_run(pairs):
    """-> per pair a dict with the raw outputs of the three engines on both variants"""
    from checks import c10
    hb = diff.Engines.harness()
    ws_lines, ht_lines, rp_lines, rp_idx = [], [], [], []
    for i, p in enumerate(pairs):
        for v in ("a", "b"):
            ws_lines.append(c10.ws_line(p[v], p["kind"]))
            ht_lines.append(_ht_line(p[v]))
            for fi, (stem, t) in enumerate(p[v]):
                if t:
                    rp_lines.append(_cps(t))
                    rp_idx.append((i, v, fi))
    ws_out = core.run_lines(hb, "wstree", ws_lines)
    ht_out = core.run_lines(hb, "hiertree", ht_lines)
    rp_out = core.run_lines(hb, "report", rp_lines)
    res = [dict(ws={}, ht={}, rp={"a": {}, "b": {}}) for _ in pairs]
    for i in range(len(pairs)):
        res[i]["ws"] = {"a": ws_out[2 * i], "b": ws_out[2 * i + 1]}
        res[i]["ht"] = {"a": ht_out[2 * i], "b": ht_out[2 * i + 1]}
    for (i, v, fi), o in zip(rp_idx, rp_out):
        res[i]["rp"][v][fi] = o
    return res


def _is_forest(files):
    """the parent graph of the headers (upper-cased names) has no cycle and no class is declared twice: only then is the
    class tree independent of the order in which index_files / the tree builder meet the files (a HashMap order)"""
    from checks import c10
    par = {}
    for _stem, text in files:
        m = c10.WS_HEADER.search(text)
        if not m:
            continue
        name = m.group(2).upper()
        if name in par:
            return False
        par[name] = m.group(4).upper() if m.group(4) else None
    for n in par:
        seen, cur = set(), n
        while cur is not None and cur in par:
            if cur in seen:
                return False
            seen.add(cur)
            cur = par[cur]
    return True


HIER_DOT_WITNESS = ("class aBeta\nFb : %s\nfunc GetLink(p2 : int4) return int4\n  var GetLink : int4\n  x = Fb.GetLink(1)\nendfunc\n")


def _after_dot(text, pos):
    """the identifier at l:c (start / middle / end of the token) is directly preceded by a dot"""
    l, c = (int(x) for x in pos.split(":"))
    lines = text.split("\n")
    if l >= len(lines):
        return False
    ln = lines[l]
    i = min(c, len(ln))
    if i == len(ln) or ln[i] not in WORDC:
        i -= 1
    while i >= 0 and ln[i] in WORDC:
        i -= 1
    return i >= 0 and ln[i] == "."


def _own_class_respelled(own, fa, fb):
    """a reference (in any file of the workspace: the eval type of an operand is the type name as written in the
    declaration it comes from) to the class / module of the file `own` is spelled as declared in one variant and
    otherwise in the other"""
    from checks import c10
    m = c10.WS_HEADER.search(own) or re.search(r"(?im)^(\s*module\s+)(\w+)", own)
    if not m:
        return False
    name = m.group(2)
    for (_s, ta), (_s2, tb) in zip(fa, fb):
        for mm in re.finditer(r"\b%s\b" % re.escape(name), ta, re.I):
            a, b = ta[mm.start():mm.end()], tb[mm.start():mm.end()]
            if a != b and (a == name or b == name):
                return True
    return False


def hier_dot_listed(ctx):
    return any(f.get("property") == PID and f.get("class") == DEV_HIER_DOT for f in ctx.open_findings())


def hier_dot_witness_reproduces():
    hb = diff.Engines.harness()
    outs = core.run_lines(hb, "hiertree", [_ht_line([("aBeta", HIER_DOT_WITNESS % "aBeta")]), _ht_line([("aBeta", HIER_DOT_WITNESS % "abeta")])], shards=1)
    def at(o):
        head, obs = o.split("#", 1)
        pos = head.rsplit("@", 1)[1].split("|")[0].split(",")
        return obs.split("|")[0].split(";")[pos.index("4:9")]
    try:
        return at(outs[0]).startswith("P-") and at(outs[1]).startswith("Pf/")
    except (ValueError, IndexError):
        return False


def tree_recase_compare(p, r, stats=None, listed=False):
    """-> None | 'skip: ...' (the pair is outside the theorems' hypothesis) | description of the first difference"""
    def bump(k, n=1):
        if stats is not None:
            stats[k] = stats.get(k, 0) + n
    wa, wb = r["ws"]["a"], r["ws"]["b"]
    if "#" not in wa or "#" not in wb or wa.startswith(("X", "HANG")) or wb.startswith(("X", "HANG")):
        if ("#" in wa) != ("#" in wb) or wa.split("#")[0][:1] != wb.split("#")[0][:1]:
            return "wstree: one variant is answered, the other is not: %r vs %r" % (wa[:60], wb[:60])
        return "skip: wstree engine gives no answers (%s)" % wa[:20]
    ha, oa = wa.split("#", 1)
    hb_, ob = wb.split("#", 1)
    fa, fb = ha.split("@"), hb_.split("@")
    if len(fa) < 3 or len(fb) < 3:
        return "skip: unexpected head"
    da, db = fa[0].split("|"), fb[0].split("|")
    if len(da) != len(db) or not all(dumps_ref_sim(x, y) for x, y in zip(da, db)):
        return "skip: the two variants' trees are not ~ref (the re-caser touched a declaration, or the parser tells them apart)"
    if fa[2] != fb[2]:
        return "the identifier positions differ between the variants"
    stems = [s for s, _ in p["a"]]
    pa, pb = oa.split("|"), ob.split("|")
    if len(pa) != len(pb):
        return "wstree: different number of files answered"
    poss = [ps.split(",") if ps else [] for ps in fa[2].split("|")]
    for fi, (xa, xb) in enumerate(zip(pa, pb)):
        la, lb = (xa.split(";") if xa else []), (xb.split(";") if xb else [])
        if len(la) != len(lb):
            return "wstree: file %d: different number of answers" % fi
        for k, (a, b) in enumerate(zip(la, lb)):
            bump("definition_requests"); bump("completion_requests")
            d1, c1 = a[1:].split("C", 1)
            d2, c2 = b[1:].split("C", 1)
            if d1 not in ("-", ""):
                bump("definition_nonempty")
            if d1 != d2:
                return "definition in %s at %s: %s  vs  %s" % (stems[fi] if fi < len(stems) else fi, poss[fi][k] if fi < len(poss) and k < len(poss[fi]) else k, d1[:200], d2[:200])
            if sorted(c1.split(",")) != sorted(c2.split(",")):
                return "completion in %s at %s: %s  vs  %s" % (stems[fi] if fi < len(stems) else fi, poss[fi][k] if fi < len(poss) and k < len(poss[fi]) else k, c1[:200], c2[:200])
            if c1 not in ("-", ""):
                bump("completion_nonempty")
    # hierarchy
    ta, tb = r["ht"]["a"], r["ht"]["b"]
    forest = _is_forest(p["a"])
    if not forest:
        bump("non_forest_workspaces_walkers_not_compared")
    if "#" in ta and "#" in tb:
        xa, xb = ta.split("#", 1)[1], tb.split("#", 1)[1]
        if ta.split("#", 1)[0].rsplit("@", 1)[-1] != tb.split("#", 1)[0].rsplit("@", 1)[-1]:
            return "hiertree: the identifier positions differ between the variants"
        fa_, fb_ = xa.split("|"), xb.split("|")
        if len(fa_) != len(fb_):
            return "hiertree: different number of files answered"
        for fi, (ya, yb) in enumerate(zip(fa_, fb_)):
            la, lb = (ya.split(";") if ya else []), (yb.split(";") if yb else [])
            if len(la) != len(lb):
                return "hiertree: file %d: different number of answers" % fi
            for k, (a, b) in enumerate(zip(la, lb)):
                bump("hierarchy_requests")
                if not forest:
                    # parent cycle / a class declared twice: which link is refused depends on the order of the files
                    a, b = a.split("S", 1)[0], b.split("S", 1)[0]
                if a != b:
                    hp = ta.split("#", 1)[0].rsplit("@", 1)[-1].split("|")
                    pos = hp[fi].split(",")[k] if fi < len(hp) and k < len(hp[fi].split(",")) else None
                    if (listed and pos and fi < len(p["a"]) and _after_dot(p["a"][fi][1], pos)
                            and _own_class_respelled(p["a"][fi][1], p["a"], p["b"])):
                        bump("known_deviation_" + DEV_HIER_DOT + "_positions")
                        continue
                    return "type hierarchy in %s at %s: %s  vs  %s" % (stems[fi] if fi < len(stems) else fi, pos or k, a[:200], b[:200])
                if not a.startswith("P-") and not a.startswith("PERR"):
                    bump("hierarchy_items_prepared")
    elif ("#" in ta) != ("#" in tb):
        return "hiertree: one variant is answered, the other is not: %r vs %r" % (ta[:60], tb[:60])
    # diagnostics
    for fi in sorted(r["rp"]["a"]):
        ra, rb = r["rp"]["a"].get(fi), r["rp"]["b"].get(fi)
        if ra is None or rb is None:
            continue
        ia, ib = _report_items(ra), _report_items(rb)
        if ia is None or ib is None:
            if (ia is None) != (ib is None):
                return "report of %s: one variant is answered, the other is not: %r vs %r" % (stems[fi], ra[:60], rb[:60])
            continue
        bump("diagnostic_reports"); bump("diagnostic_items", len(ia[0]) + len(ia[1]))
        if _report_cmp(ia[0]) != _report_cmp(ib[0]):
            return "diagnostics (naming rules excluded) of %s: %s  vs  %s" % (stems[fi], ";".join(ia[0])[:300], ";".join(ib[0])[:300])
        if sorted(ia[1]) != sorted(ib[1]):
            bump("naming_reports_changed")
    return None


def tree_recase_stage(ctx):
    listed = hier_dot_listed(ctx)
    if listed:
        if not hier_dot_witness_reproduces():
            path = core.write_replay(ctx.pid, ctx.seed, {"broken": "known finding %s no longer reproduces on its witness" % DEV_HIER_DOT,
                                                          "engine": "tree_recase", "kind": "witness", "mode": None,
                                                          "files": [("aBeta", HIER_DOT_WITNESS % "aBeta")],
                                                          "files_recased": [("aBeta", HIER_DOT_WITNESS % "abeta")]})
            raise core.Violation("listed finding does not reproduce", path, False)
        ctx.known("%s: reproduces on its witness (Fb : aBeta vs Fb : abeta, prepareTypeHierarchy on Fb.GetLink)" % DEV_HIER_DOT)
    elif hier_dot_witness_reproduces():
        # repaired in /repo b1bcb45: the witness is a regression case now
        path = core.write_replay(ctx.pid, ctx.seed, {"broken": "prepareTypeHierarchy after a dot depends on the letter case of the operand's declared type (repaired by b1bcb45, back again)",
                                                      "engine": "tree_recase", "kind": "witness", "mode": None,
                                                      "files": [("aBeta", HIER_DOT_WITNESS % "aBeta")],
                                                      "files_recased": [("aBeta", HIER_DOT_WITNESS % "abeta")]})
        raise core.Violation("re-casing the declared type of the operand before a dot changes prepareTypeHierarchy on the member after it", path, True)
    pairs, hist = tree_recase_pairs(ctx)
    res = tree_recase_run(pairs)
    stats, skipped = {}, {}
    compared = nontriv = 0
    for p, r in zip(pairs, res):
        v = tree_recase_compare(p, r, stats, listed)
        if v is None:
            compared += 1
            if p["kw"] and p["ref"]:
                nontriv += 1
            continue
        if v.startswith("skip:"):
            skipped[v] = skipped.get(v, 0) + 1
            continue
        # a difference counts only if the implementation answers the ORIGINAL workspace the same way every time
        reruns = [tree_recase_run([p])[0] for _ in range(3)]
        if any(x["ws"]["a"].split("#", 1)[-1] != r["ws"]["a"].split("#", 1)[-1] or x["ht"]["a"] != r["ht"]["a"] or
               x["ws"]["b"].split("#", 1)[-1] != r["ws"]["b"].split("#", 1)[-1] or x["ht"]["b"] != r["ht"]["b"] for x in reruns):
            k = "skip: the implementation answers one and the same variant differently from run to run (order of a HashMap)"
            skipped[k] = skipped.get(k, 0) + 1
            continue
        path = core.write_replay(ctx.pid, ctx.seed, {
            "engine": "tree_recase", "kind": p["kind"], "mode": p["mode"], "files": p["a"], "files_recased": p["b"],
            "first_difference": v,
            "expected": "definition targets, completion label sets, type-hierarchy items and non-naming diagnostics are identical "
                        "for a workspace and its re-casing (Properties/C17.v C17_tree_wstree / C17_tree_hiertree / C17_tree_report)"})
        raise core.Violation("re-casing keywords / references changes a tree-level answer: " + v, path, True)
    cov = dict(stats)
    kd = stats.get("known_deviation_" + DEV_HIER_DOT + "_positions", 0)
    if kd:
        ctx.known("%s: %d positions after a dot (own class re-spelled in a declared type) differ by the listed deviation only" % (DEV_HIER_DOT, kd))
    cov.update({
        "workspace_pairs": len(pairs), "pairs_compared": compared, "pairs_nontrivial": nontriv,
        "pairs_outside_hypothesis": skipped,
        "keyword_spans_recased": sum(p["kw"] for p in pairs), "reference_spans_recased": sum(p["ref"] for p in pairs),
        "files": sum(len(p["a"]) for p in pairs),
        "modes": {m: sum(1 for p in pairs if p["mode"] == m) for m in MODES},
        "input_histogram": hist,
        "rule": ("the workspaces of checks/c10.py ws_cases (generated forests + mutants, /repo/test/workspace, hand-written corner "
                 "cases) x one re-casing each (upper / lower / alternating / random / mixed) of every keyword, every identifier in "
                 "a method body that is not declared there, the parent class of every header, every `uses` entity and every type "
                 "name; declared names, literals, comments untouched (independent tokeniser: only ASCII letters inside words "
                 "change). Both variants through the harness engines wstree (fresh manager per file, definition + completion at "
                 "start / middle / end of every identifier), hiertree (prepare at every position, supertypes + subtypes of every "
                 "prepared item) and report (the assembled diagnostics response per file). Compared position by position: "
                 "definition links exactly, completion labels as sets, hierarchy answers exactly (engine sorts sup / sub), "
                 "diagnostics item by item with the naming rules' items set aside (runs of unused-variable warnings as sets). "
                 "A pair whose dumps are not ~ref (canon_dump equal, declaring nodes spelled identically) is outside the theorems' "
                 "hypothesis: skipped and counted."),
    })
    return cov


def repo_clean():
    """/repo's working tree equals its HEAD (other agents patch /repo temporarily to seed defects; the harness
    includes /repo/src by path, so a run made in such a window is not about HEAD)"""
    rc, _ = core.sh(["git", "-C", core.REPO, "diff", "--quiet"], timeout=60)
    return rc == 0


def correspondence(ctx, broken_obligations=()):
    clean0 = repo_clean()
    replay_witnesses(ctx)
    cases, hist = gen_cases(ctx)
    meta = {
        "rule": ("%d hand-written probe pairs (every reference kind upper-cased; a member overridden in another letter case, duplicate local "
                 "in another case; non-ASCII look-alikes of keywords and names; #event names, return-type rules, OQL join words); %d generated "
                 "workspaces (checks/sem_common.py forests of 2..6 classes + modules with uses, constants, types, fields, methods with "
                 "parameters and locals incl. loop counters, tVarByteArray buffers, duplicate locals; bodies of assignments, calls, "
                 "WriteLn, return / pass, if / elseif / else, for, while, loop, repeat, switch / when, comments, `inherited self.X`, "
                 "`Purge(x)`, dangling dots, partial names; string literals and comments containing keywords and names) x 3 re-casing modes "
                 "each out of upper / lower / alternating / random per letter / mixed, applied to every keyword and every reference "
                 "occurrence (parent class, uses, type references incl. natives, refTo / listOf targets, chains, call names, self, pass, "
                 "Purge, loop counters), declarations left as written; %d single-file programs of the full grammar (vlib/goldgen.py: types, "
                 "records, enums, OQL select / fetch, every block kind) with every keyword and every body identifier re-cased; per pair "
                 "up to 50 positional requests (definition, completion, prepareTypeHierarchy + supertypes + subtypes) at the same "
                 "positions in both variants; non-trivial = at least one keyword span and one reference span changed case"
                 % (len(probes()), hist["workspaces"], hist["programs"])),
        "input_histogram": hist,
    }
    seen = {}

    def oracle_counting(line, out):
        seen[line] = out
        return oracle(line, out)
    try:
        cov = diff.differential(ctx, ENGINE, cases, oracle=oracle_counting, known=make_known(ctx), shrinker=shrinker,
                                nontrivial=nontrivial, describe=describe, split=split)
    except core.Violation as v:
        meta["repo_worktree_equals_head"] = {"at_start": clean0, "at_end": repo_clean()}
        v.coverage = dict(getattr(v, "coverage", {}) or {}, **meta)
        raise
    cov.update(meta)
    cov["repo_worktree_equals_head"] = {"at_start": clean0, "at_end": repo_clean()}
    cov["naming_diagnostics_changed_pairs"] = sum(1 for o in seen.values() if naming_changed(o))
    cov["samples"] = [describe(cases[len(probes())])["files"], describe(cases[-1])["files"]]
    cov["tree_recase"] = tree_recase_stage(ctx)
    cov["refuted_or_partial"] = [
        "C17_outline_refuted: the outline's detail strings echo references as written (class %s)" % DEV_DETAIL,
        "definition / completion / hierarchy: metamorphic comparison of the implementation with itself; their models are tied by C10 / C11 / C13",
        "C17_tree_annot_uses_refuted: the tables' uses_entities keep the reference as written (equal ignoring case only)",
        "C17_tree_old_item_name_refuted: before /repo 3e4a84d a hierarchy item's name was the class-tree node's id (first spelling seen, possibly a reference)",
        "C17_tree_hier_after_dot_branches_refuted: prepareTypeHierarchy after a dot depends on the spelling of the operand's class (class %s); the tree-level model classifies that position Outside" % DEV_HIER_DOT,
    ]
    return cov


def replay(ctx, rep):
    if rep.get("engine") == "tree_recase":
        p = dict(kind=rep.get("kind", "replay"), mode=rep.get("mode"), a=[tuple(x) for x in rep["files"]],
                 b=[tuple(x) for x in rep["files_recased"]], kw=1, ref=1)
        for (s1, ta), (_s2, tb) in zip(p["a"], p["b"]):
            print("---", s1, "(W)")
            print(ta)
            print("--- changed lines in W'")
            for x, y in zip(ta.split("\n"), tb.split("\n")):
                if x != y:
                    print("   ", y)
        v = tree_recase_compare(p, tree_recase_run([p])[0], None, hier_dot_listed(ctx))
        print("tree_recase:", v or "the two variants agree on every answer (listed deviations aside)")
        if v and not v.startswith("skip:"):
            print("VIOLATION property=%s replay=%s" % (PID, rep.get("how_to_rerun", "").split()[-1]))
            return 1
        return 0
    line = rep["case"]
    hb = diff.Engines.harness()
    mb = diff.Engines.model()
    mi, out = split(core.run_lines(hb, ENGINE, [line], shards=1)[0])
    mod = core.run_lines(mb, ENGINE, [mi], shards=1)[0]
    d = describe(line)
    for f, x in d["files"].items():
        print("---", f, "(W)")
        print(x["W"])
        print("--- changed lines in W'")
        for c in x["changed_lines"]:
            print("   ", c)
    for q in d["queries"]:
        print("query:", q)
    bad = compare(out)
    for b in bad[:10]:
        print("oracle:", b)
    if not bad:
        print("oracle: the two variants agree on every observable")
    print("model = implementation on the file-level observables:", mod == out)
    if bad or mod != out:
        k = make_known(ctx)(line, out, mod)
        if k:
            print("KNOWN-FINDING: property=%s %s" % (PID, k))
            return 0
        print("VIOLATION property=%s replay=%s" % (PID, rep.get("how_to_rerun", "").split()[-1]))
        return 1
    return 0
