"""C06  Well-formed programs parse to the intended tree without diagnostics."""
import random, re, time
from vlib import core, diff, goldgen
from checks import parser_common as pc
from checks import c06gen as G

MANIFEST = dict(
    engine="E-parse",
    technique=("Coq proof: generic precedence-climbing theorem for binops towers over any operand parser (declarative grammar Exp vs "
               "the ordered-choice parser; induction over ladder levels and derivations, unbounded depth), instantiated along the "
               "fuel-indexed grammar knot for the whole expression grammar; range-enclosure / sibling-order invariant and a model of "
               "search_encasing_node; round-trip lemmas per statement / declaration form up to whole files; operator ladder regenerated "
               "from body_parser.rs by translator T3 with by-computation obligations. Differential run (extracted model vs lex+parse_gold) "
               "with an independent tree oracle from a grammar-directed generator."),
    text=("PROVED (Properties/C06.v, all Closed under the global context): the ladder regenerated from body_parser.rs is the model's ladder level by "
          "level and is well formed. C06_binops_roundtrip(_generic) / C06_paren_roundtrip: precedence climbing for ANY ladder and operand parser, unbounded "
          "depth. C06_expr_roundtrip: the whole expression grammar (identifiers, literals, parentheses, prefix/postfix operators, dot chains, calls with "
          "argument lists, array accesses, set literals, all 8 binary levels); C06_precedence / C06_left_assoc / C06_parentheses for ALL operator pairs "
          "(+ all 529 pairs by vm_compute on the memoised model). C06_range_encloses, C06_innermost_is_ident for expression trees under the explicit "
          "token-order hypothesis. C06_type_roundtrip: every type form (basic, sized, enum, refto/listof with options and inverse, literal ranges, sets, "
          "pointers, instanceof, array/sequence with one or two indexes, records with parent and nested field types, proc/func types, composed types "
          "T + (a, b) + U with basic / enum operands, left associative); "
          "C06_params_roundtrip: absent/empty/typed/untyped parameters with const/var/inout. C06_stmt_roundtrip: assignment, expression statement, "
          "return, exit/break/continue, comment, var (any type, optional absolute), const/uses/type inside bodies, while, loop, repeat-until, for, "
          "foreach (downto/using), switch with when value lists / ranges and else, if/elseif/else, OQL select / fetch, arbitrarily nested. "
          "C06_oql_roundtrip (third round): select [top n] [distinct] items (asterisk, name( * ), name(), dot chains) from sources (conditional / "
          "allversionsof / phantomstoo, alias in class [++], outer joins with a comparison) [where e] [order by fields [descending]] [using x] and "
          "fetch into targets [using x]: parse_oql_expr returns exactly the derived node; C06_oql_stmt_roundtrip: the same as a statement of a body "
          "(so OQL statements are part of the file theorem). C06_oql_select_end: the or-else chain that picks the select node's end (using / order by / "
          "where / from / items) IS the end of the last clause present; C06_oql_select_encloses: for lexer-ordered tokens the select node lies inside "
          "its tokens and encloses EVERY clause present (limit, each item, each source with its joins, where, each order-by field, using); "
          "C06_oql_encloses: every node of a select / fetch encloses its children. C06_decl_roundtrip: class/module "
          "header, uses, const (multilang), type declarations, fields (annotation, memory, any type, member modifiers, absolute), comments, proc/func "
          "with plain or method#event names, parameter lists, modifiers private/protected/final/override/forward/external (forward/external: no body), "
          "and (third round) an annotation in front of a class / module / type declaration (it leaves no node). In files (Decls) an annotation in front "
          "of anything else -- a method, a constant, a uses list, another annotation, the end of the file -- is a declaration of its own: the code "
          "ignores it and leaves an AstEmpty node (default range) among the root's children; that IS the derived tree (Ds_annot). "
          "C06_type/stmt/decl/file_encloses: for lexer-ordered tokens every node of every derivable declaration (types, parameters, statements nested "
          "to any depth, OQL) lies inside its tokens and encloses its children. C06_file_roundtrip: for every derivable file, parse_gold ITSELF (memoised, default fuel) returns exactly the derived declarations, every "
          "token consumed, zero diagnostics; C06_file_roundtrip_any: the same for memoisation on/off and ANY fuel above the number of tokens -- no "
          "hypothesis on the derivation level (C06_parse_gold_fuel_independent: C07's memo simulation at two independent fuel levels). "
          "CORRESPONDENCE ONLY (a test): annotations in front of record fields and enum variants, OQL select items that are dot chains starting with a "
          "call, an OQL select as the collection of a foreach, the position lookup outside expression trees (range enclosure IS proved for every "
          "derivable construct: C06_file_encloses; the lookup itself is compared with the REAL search_encasing_node by engine E-encase), the lexer "
          "(text -> tokens) in front of the parser, random layout. The test: all ordered operator pairs of the regenerated ladder plain and with both "
          "bracketings (expected trees from the property's own precedence table), each of the 20 statement forms inside every body of each of the 7 "
          "block statements, random generated programs (every construct above, incl. untyped parameters, composed types, annotations in front of "
          "fields / type declarations / class and module headers / methods / constants / uses lists / at the end of the file, uses/type/var-absolute "
          "in bodies, OQL) "
          "under random layout; model = implementation on the complete observation, and on the implementation's output alone: zero diagnostics, nothing "
          "unconsumed, the generator's expected shape (same kinds, names, nesting, order; comment nodes aside: comments are layout), every range "
          "encloses its children's, search_encasing_node finds every identifier terminal."),
    note=("The file theorem is about parse_gold itself (memoisation on, default fuel): C07's simulation, restated for two fuel levels in "
          "Proofs/FuelIndep.v, transfers the memo-off round trip. Token-order hypothesis of the range theorems (lexer output is ordered, non-literal "
          "tokens non-empty) is assumed explicitly (C08/C05). Enclosure: the only exception found is AstRoot (default range 0:0-0:0). AstFunction's "
          "children are not in source order (name, return type, parameters, body) but enclosed and pairwise disjoint, so the lookup is unaffected; a "
          "multi-line string literal's token END lies on its start line, parents take their end from the same token, enclosure holds. "
          "Comments between statements are layout (the property's quantifier): trees are compared modulo AstComment nodes, comments are generated in every "
          "position. Documented fact about the grammar, not a refutation (C06_comment_node_dropped_before_block): a comment directly in front of a block "
          "statement, a block terminator or a top-level proc/func yields no AstComment node (exp_token skips comments), elsewhere the node is kept. "
          "Third round: the statement theorems carry a token-level follow condition (jfollow): what follows a statement does not start with an identifier "
          "spelled like an OQL join word (outerjoinon, leftouterjoinon, rightouterjoinon, fullouterjoinon, any letter case) -- the from-clause of a select "
          "would take it for a join -- and, for the same reason, a derivable statement that starts with an identifier does not start with such a word. "
          "An annotation is ignored by the code except in front of fields, type declarations, classes and modules; elsewhere it leaves an AstEmpty node "
          "with the default range 0:0-0:0 in the root (C06_file_encloses states enclosure per declaration tree; the root and that empty node have no "
          "positions). NOT attempted as a theorem: the position lookup for every token-carrying node of a file (C06_innermost_everywhere). As literally "
          "stated it is false at token boundaries (Range::contains_pos is inclusive at both ends and the lookup takes the FIRST containing child: in "
          "`a++b++` the position where `++` ends and `b` starts belongs to the first statement), a true version needs positions strictly after the token "
          "start (or non-touching tokens) plus a sibling-order invariant that enc_tree does not carry, through all ~60 constructs, with AstFunction's "
          "children out of source order; it stays a correspondence check against the real search_encasing_node (E-encase, every token-carrying node, "
          "start / middle / end)."),
    design="6 C06",
    engines=[dict(name="E-parse", path="harness/src/eng_parse.rs, treedump.rs + coq/extract/eng_parse.ml, tree_io.ml",
                  kind_free_text="differential: lex+parse_gold vs extracted Coq lexer+parser model on generated programs; independent oracle: expected tree shape from vlib/goldgen.py + checks/c06gen.py, range enclosure, search_encasing_node re-implemented over the dump"),
             dict(name="E-encase", path="harness/src/eng_encase.rs + coq/extract/eng_encase.ml, Extract_encase.v (Model/Encase.v)",
                  kind_free_text="differential: the real manager/utils.rs:search_encasing_node on the annotated mirror of the parsed tree vs the extracted model Encase.search on the dumped tree, at the start / middle / end of every token-carrying node (terminals, type names, parameter / field / record-field / variant / declaration names); oracle: the answer is that node")],
)
MANIFEST["text"] += ' Fourth session: the token-order hypothesis of the enclosure theorems is discharged for lexer output: C06_lexed_tokens_ordered_iff (tord (lex text) iff the text has no empty comment), C06_text_encloses, C06_range_encloses_text, C06_innermost_is_ident_text, C06_old_token_end_in_bytes_refuted (the repaired defect f444e80); C06_text_roundtrip composes the lexer round trip (C05_lex_unlex) with the file theorem: a printed file of the grammar lexes without error and parses to the prescribed tree with zero diagnostics.'

ASSUMPTIONS = [
    "construct-level theorems (expressions, types, statements, declarations) are about the un-memoised grammar (cmemo = false); the file-level theorem C06_file_roundtrip is about the memoised parse_gold, via C07's simulation (Proofs/FuelIndep.v)",
    "range theorems assume the token-order hypothesis tord explicitly (ranges well formed, consecutive tokens do not overlap, non-literal tokens non-empty): a statement about lexer output (C05/C08)",
    "the operator ladder is regenerated from /repo/src/parser/body_parser.rs on every run (translator T3); lexemes of the operators are cross-validated against the real lexer",
    "the generator's expected trees (vlib/goldgen.py) and the precedence table goldgen.OP_LEVELS are the property's specification, independent of model and code",
    "sub-grammar proved vs correspondence-only: see MANIFEST text and Properties/C06.v C06_file_roundtrip_partial",
    "statement theorems assume that a statement is not followed by (and, when it starts with an identifier, does not start with) an identifier spelled like an OQL join word (jfollow): the from-clause of a preceding select would take it for a join",
    "an annotation in front of a method, constant, uses list, another annotation or the end of the file is ignored by the code and leaves an AstEmpty node in the root: the derived tree (Ds_annot) contains that node, the generator's expected tree too",
]


class Expect:
    """expected trees per case"""
    def __init__(self):
        self.exp = {}
        self.meta = {}

    def add(self, text, expected, kind, info=None):
        c = pc.enc(text)
        if expected is not None:
            self.exp[c] = expected
        self.meta[c] = (kind, info)
        return c


def build_cases(ctx, levels):
    rng = random.Random(ctx.seed)
    ex = Expect()
    cases, hist = [], {}

    def add(kind, items):
        n0 = len(cases)
        for (k, info, text, exp) in items:
            cases.append(ex.add(text, exp, k, info))
        hist[kind] = len(cases) - n0

    add("operator_pairs", G.pair_programs(levels))
    add("nested_forms", G.nested_programs(ctx.seed, 3 if ctx.quick else 40))
    n = 3200 if ctx.quick else 100000
    g = G.C06Gen(rng, max_depth=3)
    rnd = []
    for i in range(n):
        t, kids, methods = g.gen_program()
        if rng.random() < 0.5:
            t = G.comment_terminators(rng, t, 0.35)
        if rng.random() < 0.3:
            t = G.comment_in_expressions(rng, t, 0.3)
        if rng.random() < 0.6:
            t = G.relayout(rng, t)
        rnd.append(("random", None, t, kids))
    add("random_programs", rnd)
    # a comment in front of EVERY block terminator (with and without else parts): the statement forms nested in block forms again,
    # and hand-written switch blocks; comments are layout, so the expected trees are unchanged
    tc = []
    for (k, info, text, exp) in G.nested_programs("%s-tc" % ctx.seed, 2 if ctx.quick else 12):
        tc.append(("termcomment", info, G.comment_terminators(rng, text, 1.0), exp))
    tc += [("termcomment", None, t, None) for t in G.SWITCH_COMMENT_CASES]
    add("terminator_comments", tc)
    # hand-written programs with string literals that span lines (no expected tree: the expectation-free clauses only)
    add("multiline_literals", [("multiline", None, t, None) for t in G.MULTILINE_LITERALS])
    return cases, ex, hist


def make_oracle(ex, kinds, ident_idx, string_idx, stats):
    def parse_out(out):
        if out.startswith("PANIC") or out in ("CRASH", "HANG"):
            return None, "the implementation did not return normally: " + out[:200]
        parts = out.split("|")
        if len(parts) != 3:
            return None, "unparsable observation"
        return parts, None

    def oracle(case, out):
        r = oracle1(case, out)
        if r:
            k = re.sub(r"[0-9]+", "N", r.split(":")[0])[:60]
            cl = stats.setdefault("classes", {})
            cl[k] = cl.get(k, 0) + 1
        return r

    def oracle1(case, out):
        parts, err = parse_out(out)
        if err:
            return err
        if parts[0] != "0":
            return "the parser left %s tokens unconsumed" % parts[0]
        if parts[2] != "":
            return "diagnostics on a well-formed program: " + ";".join(
                ":".join(d.split(":")[:4]) + " " + (pc.dec(d.split(":")[4]) if d.split(":")[4] != "-" else "") for d in parts[2].split(";"))[:300]
        root = goldgen.shape_of_dump(parts[1], kinds)
        bad = G.enclosure_violations(root)
        if bad:
            return "a node's range does not enclose its child's (%s): %s %s > %s %s" % (bad[0][4], bad[0][0], bad[0][1], bad[0][2], bad[0][3])
        bad = G.innermost_violations(root, ident_idx)
        if bad:
            return "innermost node at identifier %r %s position %s is %s %r %s" % bad[0]
        exp = ex.exp.get(case)
        if exp is not None:
            # comments between statements are layout: trees are compared modulo comment nodes
            stats["comments_expected"] = stats.get("comments_expected", 0) + G.count_kind(exp, "AstComment")
            stats["comment_nodes_found"] = stats.get("comment_nodes_found", 0) + G.count_kind(root[2], "AstComment")
            r = G.shape_diff(G.strip_comments(exp), G.strip_comments(root[2]))
            if r:
                return "tree differs from the grammar's: " + r
        return None
    return oracle


LITERAL_TYPES = ("StringLiteral", "NumericLiteral", "BooleanTrue", "BooleanFalse", "Nil")   # Proofs/LadderProofs.v literal_types


def tord_oracle(tix):
    """C06_lexed_tokens_ordered_all (Proofs/LexTord.v lex_tord_iff) evaluated on the REAL lexer's token ranges: every token has
    start <= end, strictly for a token that is not a literal, and every token ends at or before the next one starts.  The theorem
    says this holds EXACTLY for the texts without an empty comment (a ';' directly followed by the end of the line: the range of
    a comment covers the text after the ';' only); both directions are checked."""
    lit = {tix[n] for n in LITERAL_TYPES}
    comment = tix["Comment"]

    def oracle(case, out):
        if out.startswith("PANIC") or out in ("CRASH", "HANG"):
            return "the lexer did not return normally: " + out[:200]
        tpart = out.split("|")[0]
        toks = [t.split(":") for t in tpart.split(";")] if tpart else []
        prev = None
        empty_comment = False
        for t in toks:
            ty, raw = int(t[0]), int(t[1])
            st, en = (int(t[2]), int(t[3])), (int(t[4]), int(t[5]))
            if st > en:
                return "token at offset %d: range end %r before its start %r" % (raw, en, st)
            if ty == comment and t[6] == "":
                empty_comment = True
                if st != en:
                    return "empty comment at offset %d has the non-empty range %r-%r (the model says zero width)" % (raw, st, en)
            elif ty not in lit and st >= en:
                return "token of type %d at offset %d is not a literal but its range %r-%r is empty" % (ty, raw, st, en)
            if prev is not None and prev[1] > st:
                return ("token at offset %d ends at %r, after the next token (offset %d) starts at %r"
                        % (prev[0], prev[1], raw, st))
            prev = (raw, en)
        oracle.texts += 1
        oracle.tokens += len(toks)
        oracle.with_empty_comment += 1 if empty_comment else 0
        return None
    oracle.texts = oracle.tokens = oracle.with_empty_comment = 0
    return oracle


def lexed_tokens_ordered(ctx, hb, tix, programs):
    """implementation-side stage: tord on the real lexer's output for the generated programs and ~2,000 texts of the C05 stream"""
    from checks import c05
    rng = random.Random(ctx.seed + 6)
    pool = [c for c in c05.gen_cases(ctx) if c and c.count(".") >= 2]
    ascii_pool = [c for c in pool if all(int(x) < 128 for x in c.split("."))]
    other = [c for c in pool if not all(int(x) < 128 for x in c.split("."))]
    texts = rng.sample(ascii_pool, min(2000, len(ascii_pool))) + rng.sample(other, min(300, len(other)))
    # the regression pair of the repaired defect f444e80 and the empty-comment witness of LexTord.v
    texts += [pc.enc("Foo('\u00e9\u00e9\u00e9\u00e9\u00e9\u00e9', xv)"), pc.enc("a ;\nb"), pc.enc("x = 'a\nb' + \"c\"\"d\" ;k\n#12 y")]
    cases = list(programs) + texts
    outs = core.run_lines(hb, "lex", cases)
    orc = tord_oracle(tix)
    fails = [(c, o, orc(c, o)) for c, o in zip(cases, outs)]
    fails = [(c, o, r) for (c, o, r) in fails if r]
    if fails:
        c, o, r = min(fails, key=lambda t: len(t[0]))
        path = core.write_replay(ctx.pid, ctx.seed, {"engine": "lex", "stage": "lexed_tokens_ordered", "case": c, "case_readable": pc.dec(c),
                                                   "observed": o[:2000], "expected": r, "n_failing_cases": len(fails)})
        raise core.Violation("lexed_tokens_ordered: " + r, path, True)
    return {"texts": orc.texts, "programs": len(programs), "tokens": orc.tokens, "texts_with_empty_comment": orc.with_empty_comment,
            "non_ascii_texts": sum(1 for c in cases if c and not all(int(x) < 128 for x in c.split(".")))}


def correspondence(ctx, broken_obligations=()):
    t0 = time.time()
    levels, dot = G.read_ladder()
    tix = G.token_index()
    kinds = pc.kind_names()
    stats = {}
    # --- translator cross-validation: lexemes against the real lexer, ladder against the property's table
    hb = diff.Engines.harness()
    names = [o for _, l in levels for o in l] + [dot]
    lexed = core.run_lines(hb, "lex", [pc.enc(G.LEXEME.get(o, "?")) for o in names], shards=1)
    xval = []
    for o, out in zip(names, lexed):
        toks = out.split("|")[0].split(";")
        if len(toks) != 1 or not toks[0] or int(toks[0].split(":")[0]) != tix.get(o, -1):
            xval.append("lexeme %r of TokenType::%s lexes to %s" % (G.LEXEME.get(o), o, out[:60]))
    xval += G.ladder_vs_spec(levels)
    cases, ex, hist = build_cases(ctx, levels)
    exercised = set()
    for c, (k, info) in ex.meta.items():
        if k == "pair":
            exercised.add(info[0]); exercised.add(info[1])
    unexercised = [o for _, l in levels for o in l if G.LEXEME.get(o) not in exercised]
    if unexercised:
        xval.append("ladder operators not exercised by the operator-pair programs: %s" % unexercised)
    oracle = make_oracle(ex, kinds, tix["Identifier"], tix["StringLiteral"], stats)
    def known(case, impl_out, model_out):
        return None        # no known-finding class for C06 (ctx.open_findings() lists none the oracle could meet)

    # no text shrinker: a shrunk text has no expected tree; the exhaustive sets are minimal programs by construction and
    # the shortest failing case is reported
    try:
        cov = diff.differential(ctx, "parse", cases, oracle=oracle, known=known,
                                nontrivial=lambda c: c.count(".") >= 10, describe=pc.dec)
    except core.Violation as v:
        v.coverage = dict(getattr(v, "coverage", {}) or {})
        v.coverage["oracle_failure_classes"] = dict(stats.get("classes", {}))
        v.coverage["input_histogram"] = hist
        raise
    except RuntimeError as e:
        if "model runner does not build" not in str(e):
            raise
        # the model cannot be rebuilt (e.g. a regenerated table broke an obligation): the oracle needs no model,
        # so the search for a failing input runs on the implementation alone
        impl = core.run_lines(hb, "parse", cases)
        fails = [(c, o, oracle(c, o)) for c, o in zip(cases, impl)]
        fails = [(c, o, r) for (c, o, r) in fails if r and not known(c, o, None)]
        cov = {"programs": len(cases), "evaluations": len(cases), "disagreements_checked": 0, "oracle_failures": len(fails),
               "engine": "parse (implementation only: model runner does not build)"}
        if fails:
            c, o, r = min(fails, key=lambda t: len(t[0]))
            path = core.write_replay(ctx.pid, ctx.seed, {"engine": "parse", "case": c, "case_readable": pc.dec(c), "observed": o,
                                                       "expected": r, "n_failing_cases": len(fails), "ladder_cross_validation": xval,
                                                       "note": "model runner does not build; oracle evaluated on the implementation alone"})
            v = core.Violation(r, path, True)
        else:
            path = core.write_replay(ctx.pid, ctx.seed, {"broken": "model runner does not build: " + str(e)[-800:], "ladder_cross_validation": xval})
            v = core.Violation("model runner does not build", path, False)
        v.coverage = cov
        raise v
    if xval:
        path = core.write_replay(ctx.pid, ctx.seed, {"broken": "translator T3 / ladder cross-validation", "details": xval,
                                                   "note": "every operator-pair program was parsed as the property's precedence table prescribes"})
        v = core.Violation("; ".join(xval)[:500], path, False)
        v.coverage = cov
        raise v
    # --- the position lookup through the REAL search_encasing_node (engine encase), against the model Encase.search and
    #     against the property: at every position of a node's own token / name token the innermost node is that node
    impl = core.run_lines(hb, "parse", cases)
    ecases, expect = [], {}
    nq = 0
    for c, o in zip(cases, impl):
        parts = o.split("|")
        if len(parts) != 3:
            continue
        root = goldgen.shape_of_dump(parts[1], kinds)
        qs = G.lookup_queries(root)
        if not qs:
            continue
        ec = c + "|" + ",".join("%d:%d" % p for (p, _) in qs)
        ecases.append(ec)
        expect[ec] = [(n[0], n[3]["range"]) for (_, n) in qs]
        nq += len(qs)

    def enc_oracle(case, out):
        if out.startswith("PANIC") or out in ("CRASH", "HANG"):
            return "the implementation did not return normally: " + out[:200]
        want = expect.get(case)
        if want is None:
            return None
        got = out.split(";") if out else []
        if len(got) != len(want):
            return "search_encasing_node answered %d of %d positions" % (len(got), len(want))
        ps = case.split("|", 1)[1].split(",")
        for p, g, (wk, wr) in zip(ps, got, want):
            f = g.split(":")
            gk = kinds[int(f[0])] if 0 <= int(f[0]) < len(kinds) else "?"
            gr = tuple(int(x) for x in f[1:5])
            if gk != wk or gr != tuple(wr):
                return "innermost node at position %s is %s %s, expected the %s %s whose token is there" % (p, gk, gr, wk, tuple(wr))
        return None

    cov2 = diff.differential(ctx, "encase", ecases, oracle=enc_oracle, split=lambda out: tuple(out.split("#", 1)),
                             nontrivial=lambda c: c.count(".") >= 10, describe=lambda c: pc.dec(c.split("|", 1)[0]) + " @ " + c.split("|", 1)[1][:200])
    try:
        lto = lexed_tokens_ordered(ctx, hb, tix, cases)
        cov["lexed_tokens_ordered"] = lto["texts"]
        cov["lexed_tokens_ordered_detail"] = lto
    except core.Violation as v:
        v.coverage = cov
        raise
    # words that are keywords elsewhere but names wherever an identifier is expected (parse_ident_token's sixteen token
    # types): as parameter name, operand, member after a dot, call argument, in three casings.  The program with the plain
    # name `Bx` in the same places is the yardstick: both parse with zero diagnostics to trees of the same shape.
    soft = ["by", "top", "from", "where", "order", "descending", "distinct", "conditional", "allversionsof", "phantomstoo",
            "into", "using", "fetch", "select", "type"]
    def soft_prog(w):
        return ("class aSoft (aObject)\nproc P(%s : int4, q : int4)\n  q = 1 + %s\n  self.%s = q * a.%s\n  Foo(q, %s)\nendproc\n"
                % (w, w, w, w, w))
    swords = ["Bx"] + [v for w in soft for v in (w, w.capitalize(), w.upper())]
    scases = [pc.enc(soft_prog(w)) for w in swords]
    base_shape = {}
    def soft_oracle(case, out):
        f = out.split("|")
        if len(f) < 3:
            return "unparsable observation " + out[:80]
        if f[0] != "0" or f[2]:
            return "a well-formed program using a soft keyword as a name gets diagnostics / unconsumed tokens: rest=%s diags=%s" % (f[0], f[2][:160])
        shape = re.sub(r"\d+", "", re.sub(r"\[[^\]]*\]", "", f[1]))
        base_shape.setdefault("s", shape if case == scases[0] else base_shape.get("s"))
        return None
    cov3 = diff.differential(ctx, "parse", scases, oracle=soft_oracle, nontrivial=lambda c: True, describe=pc.dec)
    cov["soft_keyword_name_programs"] = cov3["programs"]
    cov["lookup_programs"] = cov2["programs"]
    cov["lookup_positions"] = nq
    cov["lookup_disagreements_checked"] = cov2["disagreements_checked"]
    cov["lookup_oracle_failures"] = cov2["oracle_failures"]
    cov["input_histogram"] = hist
    cov["ladder"] = [[G.LEXEME[o] for o in l] for _, l in levels]
    cov["ladder_levels_exercised"] = len(levels)
    cov["comments_generated"] = stats.get("comments_expected", 0)
    cov["comment_nodes_in_trees"] = stats.get("comment_nodes_found", 0)
    cov["exhaustive"] = True
    cov["rule"] = ("exhaustive: all %d ordered pairs of the %d operators of the regenerated ladder as `x = a op1 b op2 c`, `(a op1 b) op2 c`, "
                   "`a op1 (b op2 c)` with trees from the property's precedence table; each of the 20 statement forms first in every body of each "
                   "of the 7 block statements and directly in a method (x%d seeds); random: %d programs of Gen.gen_program (depth 3) with random "
                   "keyword case, 60%% re-laid-out (indentation, trailing blanks, blank lines, LF/CRLF). Oracle on the implementation alone: rest 0, "
                   "zero diagnostics, expected shape modulo comment nodes, range enclosure, search_encasing_node at start/middle/end of every identifier terminal. "
                   "non-trivial = at least 11 characters"
                   % (len(exercised) ** 2, len(exercised), 3 if ctx.quick else 40, hist.get("random_programs", 0)))
    big = max(cases, key=len)
    cov["samples"] = [pc.dec(cases[0])[:120], pc.dec(cases[hist["operator_pairs"] + 30])[:300], pc.dec(big)[:300]]
    cov["correspondence_wall_s"] = round(time.time() - t0, 1)
    return cov


def replay(ctx, rep):
    case = rep.get("case")
    if not case:
        print("nothing to replay: %s" % rep.get("broken"))
        return 1
    if rep.get("stage") == "lexed_tokens_ordered":
        out = core.run_lines(diff.Engines.harness(), "lex", [case], shards=1)[0]
        r = tord_oracle(G.token_index())(case, out)
        print("text:", repr(pc.dec(case))[:800])
        print("implementation (lex):", out[:600])
        print("oracle:", r or "the token ranges are ordered")
        if r:
            print("VIOLATION property=C06 replay=%s" % rep.get("how_to_rerun", "?").split()[-1])
            return 1
        return 0
    out = core.run_lines(diff.Engines.harness(), "parse", [case], shards=1)[0]
    mod = core.run_lines(diff.Engines.model(), "parse", [case], shards=1)[0]
    tix = G.token_index()
    levels, _ = G.read_ladder()
    # the expected tree is rebuilt by regenerating the case stream of the recorded seed
    ctx.seed = rep.get("seed", ctx.seed)
    ctx.quick = True
    cases, ex, _ = build_cases(ctx, levels)
    if case not in ex.exp and case not in set(cases):
        ctx.quick = False                      # the case stream of the thorough tier
        cases, ex, _ = build_cases(ctx, levels)
    r = make_oracle(ex, pc.kind_names(), tix["Identifier"], tix["StringLiteral"], {})(case, out)
    print("text:", repr(pc.dec(case))[:800])
    print("implementation:", out[:600])
    print("model agrees:", out == mod)
    print("expected tree:", "regenerated" if case in ex.exp else "not in the regenerated stream: shape clause skipped")
    print("oracle:", r or "property holds on this case")
    if r or out != mod:
        print("VIOLATION property=C06 replay=%s" % rep.get("how_to_rerun", "?").split()[-1])
        return 1
    return 0
