"""C08  Every range sent to the client is well-formed (lexer + parser + outline part).

Exports for the semantic checks (C10 / C13), which apply the same oracle to definition links,
hierarchy items and lint diagnostics:
    range_ok(text, range)   -> None | reason     start <= end, both lines exist in `text`
    sel_inside(sel, full)   -> None | reason     the selection range lies inside the full range
Ranges may be 4-tuples (sl, sc, el, ec), "sl:sc:el:ec" strings or LSP JSON objects
{"start": {"line", "character"}, "end": {...}}."""
import json, random
from vlib import core, diff
from checks import parser_common as pc
from checks import c04

MANIFEST = dict(
    engine="E-parse",
    technique=("Coq proof: a logical relation over every parser combinator and every grammar function (window of raw token positions; "
               "start position at or before every later token start, end position at or after some token start of the window) with one "
               "builder lemma per node constructor, closed by induction on the fuel-indexed grammar knot, with the memo cache invariant "
               "relative to the current method body; lexer lemma from C05's position invariant; outline theorem over all well-formed trees; "
               "differential run of the extracted lexer+parser+outline models against GoldLexer::lex + DocumentService::parse_content + "
               "DocumentSymbolGeneratorFromAst with the property's statement evaluated on every range of the implementation's output"),
    text=("Split of C08: this check PROVES and CHECKS the ranges derived from lexer + parser + outline (token ranges, every node range, the "
          "identifier token of every declaration node against the node range -- what becomes SymbolInfo.range/selection_range, outline "
          "range/selectionRange, link targets and hierarchy items -- parser and lexer diagnostics, outline symbols); the semantic responses "
          "themselves (definition links, hierarchy items, lint diagnostics) are checked by C10/C13 with the oracle functions range_ok / "
          "sel_inside exported here. Theorems for ALL token lists satisfying TokSorted (starts strictly increasing, each token start <= end on "
          "existing lines, non-literal tokens end before the next token starts; proved for the lexer model's output on every text with L = number "
          "of LF): parse_gold returns a tree every node of which has start <= end on lines <= L, carries its identifier token inside its range "
          "(constants, types, fields, parameters, locals, enum variants, record fields, class/module headers, type references, OQL from-items; "
          "`for` blocks when the end token was found; declaration kinds always carry the token), procedures/functions contain their name node; "
          "every parser diagnostic (token range -- for an error at the very end of a recovering loop's input the LAST token of that input, no default range 0:0-0:0 any more --, sep-list recovery range, top-level first..last range) and every lexer error is "
          "well-formed; every outline symbol and child has well-formed range and selection range with the selection inside. Refuted and guarded: "
          "the counter token of a `for` block without end token lies outside the block's fallback range (not a declaration, never used as a "
          "selection range). Tie: all C04 streams (strings <= 4 over 17 lexical symbols, token sequences, soups, mutated fixtures and generated "
          "programs, Unicode noise, towers) plus every prefix of ~90 targeted constructs (fallback branches: missing end tokens, dangling dots, "
          "multi-line and multi-byte literals, absolute, untyped parameters, OQL) and a sample through a ProjectManager on a temporary "
          "workspace (JSON wire format of documentSymbol and the diagnostic report)."),
    note=("Trusted: Coq kernel, translators T1/T2/T5, extraction, harness; the hand-written models Model/Lexer.v, PComb.v, Grammar.v, Outline.v "
          "(validated by the differential runs of C04/C05/C12 and of this check). Not covered here: ranges of semantic responses (C10/C13)."),
    design="6 C08",
    engines=[dict(name="E-parse", path="harness/src/eng_ranges.rs + coq/extract/eng_ranges.ml (+ eng_outline, treedump.rs, tree_io.ml)",
                  kind_free_text="differential: tokens, lexer errors, tree dump, Document.parser_diagnostics (parser + lexer) and outline of the real code vs the extracted Coq models; property oracle over every range of the implementation's output")],
)
MANIFEST["text"] += ' Fourth session: class headers below comment lines in the cross-file workspaces (a class item must name the declaring file: /repo 6242e0e).'

ASSUMPTIONS = [
    "the semantic responses (definition links, type-hierarchy items, lint diagnostics) copy node / identifier-token ranges built by the parser; they are checked by C10/C13 with range_ok / sel_inside from this module",
    "a document's line count is 1 + number of LF characters (the lexer's own notion; a lone CR is not a line break for it)",
    "token type, keyword and node-kind tables are regenerated from /repo/src on every run (translators T1, T2, T5)",
    "the ProjectManager / JSON form is run on a sample only (implementation-only oracle); the in-process form calls lex + DocumentService::parse_content + generate_symbols directly",
]

K_IDENT, K_END = 1, 5


# ---------------------------------------------------------------------------------------------
# exported oracle functions
# ---------------------------------------------------------------------------------------------
def as_range(r):
    if isinstance(r, dict):
        return (r["start"]["line"], r["start"]["character"], r["end"]["line"], r["end"]["character"])
    if isinstance(r, str):
        return tuple(int(x) for x in r.replace(" ", ":").split(":"))
    return tuple(r)


def last_line(text):
    return text.count("\n") if isinstance(text, str) else int(text)


def range_ok(text, r):
    """None when start <= end and both lines exist in `text` (a str, or the index of its last line)."""
    sl, sc, el, ec = as_range(r)
    if (sl, sc) > (el, ec):
        return "start %d:%d is after end %d:%d" % (sl, sc, el, ec)
    ll = last_line(text)
    if sl > ll or el > ll:
        return "range %d:%d-%d:%d uses a line beyond the last line %d of the document" % (sl, sc, el, ec, ll)
    return None


def sel_inside(sel, full):
    """None when the selection range lies inside the full range."""
    a, b = as_range(sel), as_range(full)
    if (b[0], b[1]) <= (a[0], a[1]) and (a[2], a[3]) <= (b[2], b[3]):
        return None
    return "selection range %d:%d-%d:%d is not inside the full range %d:%d-%d:%d" % (a + b)


# ---------------------------------------------------------------------------------------------
# observation parsing
# ---------------------------------------------------------------------------------------------
def parse_tok(s):
    f = s.split(":")
    return dict(tt=int(f[0]), raw=int(f[1]), range=(int(f[2]), int(f[3]), int(f[4]), int(f[5])))


def parse_attrs(s):
    out = {}
    if not s:
        return out
    for kv in s.split(";"):
        k, v = kv.split("=", 1)
        if v[0] == "t":
            out[int(k)] = [parse_tok(v[1:])]
        elif v[0] == "l":
            out[int(k)] = [parse_tok(x) for x in v[1:].split(",")] if len(v) > 1 else []
    return out


def walk_dump(dump):
    """yields (kind index, range, attrs dict, [child ranges]) for every node, iteratively."""
    pos = 0
    stack = []
    n = len(dump)
    while pos < n:
        ch = dump[pos]
        if ch == "(":
            j = dump.index("{", pos)
            head = dump[pos + 1:j].split()
            k = dump.index("}", j)
            node = [int(head[0]), (int(head[3]), int(head[4]), int(head[5]), int(head[6])), dump[j + 1:k], []]
            if stack:
                stack[-1][3].append(node[1])
            stack.append(node)
            pos = k + 1
        elif ch == ")":
            node = stack.pop()
            yield node[0], node[1], parse_attrs(node[2]), node[3]
            pos += 1
        else:
            pos += 1


def parse_outline(s):
    """'[sym,sym]' -> list of (range, sel, children)"""
    pos = 0

    def lst():
        nonlocal pos
        assert s[pos] == "["
        pos += 1
        out = []
        while s[pos] != "]":
            if s[pos] == ",":
                pos += 1
            out.append(sym())
        pos += 1
        return out

    def field():
        nonlocal pos
        st = pos
        while s[pos] not in "|,]":
            pos += 1
        return s[st:pos]

    def sym():
        nonlocal pos
        field(); pos += 1          # name
        field(); pos += 1          # detail
        field(); pos += 1          # kind
        r = field(); pos += 1
        sel = field(); pos += 1
        if s[pos] == "~":
            pos += 1
            kids = None
        else:
            kids = lst()
        return (as_range(r), as_range(sel), kids)

    return lst()


_kinds = {}


def kind_idx(name):
    if not _kinds:
        for i, k in enumerate(pc.kind_names()):
            _kinds[k] = i
    return _kinds[name]


# ---------------------------------------------------------------------------------------------
# the property's statement on the implementation's output
# ---------------------------------------------------------------------------------------------
def check_outline(ll, syms, where="outline symbol"):
    for (r, sel, kids) in syms:
        x = range_ok(ll, r) or range_ok(ll, sel)
        if x:
            return "%s: %s" % (where, x)
        x = sel_inside(sel, r)
        if x:
            return "%s: %s" % (where, x)
        if kids:
            x = check_outline(ll, kids, "outline child symbol")
            if x:
                return x
    return None


def oracle(case, out):
    if case.startswith("P"):
        return oracle_pm(case, out)
    if out.startswith("PANIC") or out in ("CRASH", "HANG") or out.startswith("ERR-"):
        return "the implementation did not return normally: " + out[:200]
    parts = out.split("|", 4)
    if len(parts) != 5 or not (parts[0].startswith("T") and parts[1].startswith("E") and parts[3].startswith("D") and parts[4].startswith("O")):
        return "unparsable observation"
    ll = pc.dec(case).count("\n")
    toks, errs, dump, diags, outl = parts[0][1:], parts[1][1:], parts[2], parts[3][1:], parts[4][1:]
    for t in (toks.split(";") if toks else []):
        r = range_ok(ll, parse_tok(t)["range"])
        if r:
            return "token: " + r
    for e in (errs.split(";") if errs else []):
        r = range_ok(ll, e)
        if r:
            return "lexer error: " + r
    k_for, k_proc, k_func = kind_idx("AstForBlock"), kind_idx("AstProcedure"), kind_idx("AstFunction")
    for kind, rng, attrs, kids in walk_dump(dump):
        r = range_ok(ll, rng)
        if r:
            return "node of kind %s: %s" % (pc.kind_names()[kind], r)
        for key, tl in attrs.items():
            for t in tl:
                r = range_ok(ll, t["range"])
                if r:
                    return "token field %d of a %s node: %s" % (key, pc.kind_names()[kind], r)
        ident = attrs.get(K_IDENT)
        if ident and not (kind == k_for and not attrs.get(K_END)):
            r = sel_inside(ident[0]["range"], rng)
            if r:
                return "identifier token of a %s node: %s" % (pc.kind_names()[kind], r)
        if kind in (k_proc, k_func):
            if not kids:
                return "a %s node without name node" % pc.kind_names()[kind]
            r = sel_inside(kids[0], rng)
            if r:
                return "name node of a %s node: %s" % (pc.kind_names()[kind], r)
    for d in (diags.split(";") if diags else []):
        r = range_ok(ll, d)
        if r:
            return "diagnostic: " + r
    return check_outline(ll, parse_outline(outl))


def json_ranges(v, path=""):
    """all (path, range, selectionRange | None) pairs of a JSON value"""
    if isinstance(v, list):
        for i, x in enumerate(v):
            yield from json_ranges(x, "%s[%d]" % (path, i))
    elif isinstance(v, dict):
        if "range" in v:
            yield path, v["range"], v.get("selectionRange")
        for k, x in v.items():
            if k not in ("range", "selectionRange"):
                yield from json_ranges(x, path + "." + k)


def oracle_pm(case, out):
    if not out.startswith("PM|"):
        return "the implementation did not answer through the ProjectManager: " + out[:200]
    text = pc.dec(case[1:])
    ll = text.count("\n")
    dec = json.JSONDecoder()
    syms_v, end = dec.raw_decode(out[3:])
    diags_v, _ = dec.raw_decode(out[3 + end + 1:])
    for what, v in (("documentSymbol", syms_v), ("diagnostic", diags_v)):
        for path, r, sel in json_ranges(v):
            x = range_ok(ll, r)
            if x:
                return "%s%s: %s" % (what, path, x)
            if sel is not None:
                x = range_ok(ll, sel) or sel_inside(sel, r)
                if x:
                    return "%s%s: %s" % (what, path, x)
    return None


# ---------------------------------------------------------------------------------------------
# inputs
# ---------------------------------------------------------------------------------------------
DECLS = [
    "memory X : int4", "Foo : int4 absolute Bar", "Foo : int4 private final absolute Bar", "Foo : int4 override",
    "const cA = 'a\nb'", "const cA = 'éé' multilang", "const cA = 12.5", "const = 1",
    "type tT : refto [A, B] Foo inverse Bar", "type tT : listof Foo", "type tT : refto [A Foo",
    "type tT : record (tP)\n f : 'a' to 'z'\n g : record\n  h : .int4\n endrecord\nendrecord", "type tT : record\n f : int4",
    "type tT : proc(a, const B : int4, inout c)", "type tT : func(a) return int4", "type tT : proc",
    "type tT : array [1 to 2][x] of int4", "type tT : sequence [x] of y", "type tT : (a = 1, b)", "type tT : int4 + (a)",
    "type tT : string(31)", "type tT : [x]", "type tT : instanceof aFoo", "type tT : 'a\nb' to 'z'",
    "uses a, b, c", "uses", "class aFoo (aBar)", "class aFoo (", "module m", "[anno x] class aFoo", "[anno",
    "proc Foo#Evt(a, b) private override external 'dll'", "func F return int4 forward", "func F(a : int4, b) return x\n return a\nendfunc",
    "proc P", "proc P(", "proc P(a : ", "proc P(a, var b, const C : tT)\nend", "func F(", "func F return", ";cémment", "\"d中\" x",
]
STMTS = [
    "x.", "x.y.", "foo(x.)", "x = 'a\nb' & 'é'", "var v : 'a\nb' to 'z'", "var v : int4 absolute w", "var v : ",
    "if a\n x = 1\nelseif b\n y = 2\nelse\n z = 3", "if a\n x = 1\nelseif b\n y = 2\nelse\n z = 3\nendif", "if a", "if a\nend",
    "while a\n x = 1", "while a\nendwhile", "repeat\n x = 1\nuntil a", "repeat\n x = 1", "loop\n x = 1", "loop\nendloop",
    "for i = 1 to 2 step 3\n x = 1", "for i = 1 to 2 step 3\n x = 1\nendfor", "for i = 10 downto 1\nend", "for i",
    "foreach a in b using c\n x = 1", "foreach a in b downto\nendfor", "foreach a in OQL select * from x in C\n x = 1\nendfor",
    "switch a\n when 1, 2\n  x = 1\n endwhen\n else\n  y = 2\nendswitch", "switch a\n when 1 to 3\n  x = 1", "switch a\n when 1\n endwhen", "switch a\nelse",
    "OQL select top 3 distinct a.b, count(*) from conditional allversionsof phantomstoo x in C++ outerjoinon x.a = y.b where a = 1 order by a.b descending, c using d",
    "OQL select * from x in C", "OQL select a from", "OQL fetch into a, b.c using d", "OQL fetch into", "OQL select top n *, f(*) from x in C, y in D leftouterjoinon a = b",
    "return a", "return", "a[1].b(2, 3)[4]++", "x = -a", "x = not (a and b)", "x = [1, 2, [3]]", "x = #13 & \"d\"", ";comment", "exit",
    "x = (1", "x = f(1,, 2)", "f(,)", "x = a +", "x = a.b.c(1).d[2] * 3 + 4 << 5 <= 6 and 7 or 8", "x := y", "x += 1", "a.b.", "x = inherited.",
    "type tT : int4", "const cA = 1", "uses a", "var x : refto Foo", "x = 'unterminated", "x = 1 é 2",
]


def target_texts():
    out = []
    for d in DECLS:
        out.append(d + "\n")
        out.append("class aC\n" + d + "\nproc P\nendproc\n")
    for s in STMTS:
        out.append("proc P\n" + s + "\nendproc\n")
        out.append("func F(a) return int4\n " + s)
        out.append("proc P\n if a\n  " + s + "\n endif\n y = 2\nendproc\nX : int4\n")
    # multi-line constructs that START to the right of the column where they END (a header typed far to the right, its end
    # keyword at the margin): start <= end must be decided on (line, column) pairs, not column by column
    for ind in (1, 9, 24):
        sp = " " * ind
        out.append("class aC\n" + sp + "proc P(A : int4)\n x = 1\nendproc\n" + sp + "func F return int4\n return 1\nend\n")
        out.append(sp + "type tR : record\n f : int4\nendrecord\n" + sp + "type tE : (cA,\ncB)\n")
        out.append("proc P\n" + sp + "if a\n x = 1\nendif\n" + sp + "x = f(1,\n2)\n" + sp + "switch x\nwhen 1\nendwhen\nendswitch\nendproc\n")
        out.append(sp + "class aC (aB)\n" + sp + "const cX = 'a\nb'\n" + sp + "F : refto aB\n")
    return out


def gen_cases(ctx):
    cases, hist = c04.gen_cases(ctx)
    rng = random.Random(ctx.seed + 8)
    n0 = len(cases)
    tg = target_texts()
    pref = []
    for t in tg:
        for i in range(len(t) + 1):
            pref.append(pc.enc(t[:i]))
    cases.extend(pref)
    hist["target_prefixes"] = len(pref)
    combos = []
    for _ in range(2000 if ctx.quick else 40000):
        k = rng.randint(1, 4)
        body = "\n".join(rng.choice(STMTS) for _ in range(k))
        decls = "\n".join(rng.choice(DECLS) for _ in range(rng.randint(0, 3)))
        t = decls + "\nproc P\n" + body + ("\nendproc\n" if rng.random() < 0.7 else "\n") + rng.choice(DECLS)
        if rng.random() < 0.3:
            t = t.replace("\n", "\r\n")
        combos.append(pc.enc(t))
    cases.extend(combos)
    hist["target_combinations"] = len(combos)
    return cases, hist


def pm_cases(ctx, cases):
    rng = random.Random(ctx.seed + 88)
    n = 250 if ctx.quick else 3000
    pool = [c for c in cases if 20 <= c.count(".") <= 4000]
    pick = rng.sample(pool, min(n, len(pool))) + [pc.enc(t) for t in target_texts()[:: (4 if ctx.quick else 1)]]
    return ["P" + c for c in pick]


def shrinker(case):
    pre = "P" if case.startswith("P") else ""
    for c in c04.shrinker(case[len(pre):]):
        yield pre + c


def known_for(ctx):
    findings = ctx.open_findings()

    def known(case, impl_out, model_out):
        # only failures listed in known_findings.json may be classified; each entry names its class as an
        # oracle message prefix ("class": "oracle:<prefix>")
        r = oracle(case, impl_out)
        if r is None:
            return None
        for f in findings:
            cls = f.get("class", "")
            if cls.startswith("oracle:") and r.startswith(cls[len("oracle:"):]):
                return "%s %s" % (f.get("id"), f.get("what", ""))
        return None
    return known


def replay_findings(ctx, harness):
    """a listed finding must still reproduce (the model follows the code)"""
    for f in ctx.open_findings():
        w = f.get("witness")
        if not w:
            continue
        case = pc.enc(w)
        out = core.run_lines(harness, "ranges", [case], shards=1)[0]
        if oracle(case, out) is None:
            path = core.write_replay(ctx.pid, ctx.seed, {"engine": "ranges", "case": case, "case_readable": w, "observed": out[:2000],
                                                       "broken": "known finding %s no longer reproduces" % f.get("id")})
            raise core.Violation("a listed known finding no longer reproduces", path, False)
        ctx.known("%s %s" % (f.get("id"), f.get("what", "")))



# ---------------------------------------------------------------------------------------------
# responses that point into OTHER documents: definition links and hierarchy items (black box, real binary)
# ---------------------------------------------------------------------------------------------
def _ws_files(rng):
    """2..4 classes in a chain / fan; members declared on lines the referring file may not have (the referring file is
    kept short, the declaring file is padded), overriding, an #event method, a class without parent"""
    n = rng.randint(2, 4)
    names = ["aRoot%d" % rng.randrange(100)] + ["aKid%d_%d" % (i, rng.randrange(100)) for i in range(1, n)]
    files = {}
    decls = {}
    for i, nm in enumerate(names):
        par = None if i == 0 else names[rng.randrange(i)]
        pad = rng.choice([0, 0, 3, 12, 40]) if i == 0 or rng.random() < 0.4 else 0
        # the header itself may sit on a line the referring files do not have (comment lines in front of it)
        head = rng.choice([0, 0, 4, 25, 60]) if i == 0 or rng.random() < 0.4 else 0
        L = ["; header comment %d" % k for k in range(head)]
        L += ["class %s%s" % (nm, " (%s)" % (par if rng.random() < 0.7 else par.upper()) if par else "")]
        L += [""] * pad
        mine = ["Fld%d" % i, "Shared"] if rng.random() < 0.8 else ["Fld%d" % i]
        for f in mine:
            L.append("%s : int4" % f)
        meths = ["Run%d" % i] + (["Common"] if rng.random() < 0.7 else []) + (["OnEvt#Changed"] if rng.random() < 0.2 else [])
        refs = []
        for q in range(i + 1):
            refs += ["self.Fld%d" % q, "self.Run%d" % q]
        refs += ["self.Shared", "self.Common", "x = Fld0", "Run0()"]
        for m in meths:
            isproc = rng.random() < 0.7
            L.append(rng.choice(["", "", "            "]) + ("proc %s" if isproc else "func %s return int4") % m)
            if m == meths[0]:
                L.append("  var v : %s" % names[rng.randrange(n)])
                L += ["  " + r for r in rng.sample(refs, min(len(refs), rng.randint(2, 6)))]
                L.append("  v.Shared")
            L.append("endproc" if isproc else "endfunc")
        files[nm + ".god"] = "\n".join(L) + "\n"
    return files


def cross_file_responses(ctx, cov):
    import os, re, shutil, tempfile
    from vlib import lsp
    rng = random.Random(ctx.seed * 7919 + 8)
    binary = lsp.build_server()
    nws = 25 if ctx.quick else 400
    nloc = 0
    for w in range(nws):
        files = _ws_files(rng)
        root = tempfile.mkdtemp(prefix="goldverif-c08-")
        try:
            for f, t in files.items():
                open(os.path.join(root, f), "w").write(t)
            uris = {lsp.file_uri(os.path.join(root, f)): t for f, t in files.items()}
            s = lsp.Session(binary, root)
            s.initialize(root)
            rid = [10]

            def ask(method, params):
                rid[0] += 1
                s.request(rid[0], method, params)
                r = s.wait_response(rid[0], 30)
                return (r or {}).get("result") if r and "result" in r else None

            def check(kind, uri, rng_, sel, q):
                if uri not in uris:
                    return "%s names a document that is not in the workspace: %s" % (kind, uri)
                t = uris[uri]
                for nm_, r in (("range", rng_), ("selection range", sel)):
                    if r is None:
                        continue
                    e = range_ok(t, as_range(r))
                    if e:
                        return "%s %s %s in %s: %s (asked: %s)" % (kind, nm_, as_range(r), os.path.basename(uri), e, q)
                if rng_ is not None and sel is not None and sel_inside(sel, rng_):
                    return "%s in %s: %s (asked: %s)" % (kind, os.path.basename(uri), sel_inside(sel, rng_), q)
                return None

            bad = None
            for uri, t in uris.items():
                lines = t.split("\n")
                poss = [(li, m.start() + (1 if m.end() - m.start() > 1 else 0)) for li, l in enumerate(lines) for m in re.finditer(r"[A-Za-z_][A-Za-z0-9_#]*", l)]
                for (li, co) in poss:
                    q = "%s %d:%d" % (os.path.basename(uri), li, co)
                    pp = {"textDocument": {"uri": uri}, "position": {"line": li, "character": co}}
                    for l in ask("textDocument/definition", pp) or []:
                        nloc += 1
                        bad = bad or check("definition link target", l.get("targetUri"), l.get("targetRange"), l.get("targetSelectionRange"), q)
                    items = ask("textDocument/prepareTypeHierarchy", pp) or []
                    for it in items[:2]:
                        for meth in ("typeHierarchy/supertypes", "typeHierarchy/subtypes"):
                            items = items + (ask(meth, {"item": it}) or [])
                    for it in items:
                        nloc += 1
                        bad = bad or check("hierarchy item", it.get("uri"), it.get("range"), it.get("selectionRange"), q)
                    if bad:
                        break
                if bad:
                    break
            s.shutdown_exit(9, 20)
            if bad:
                rep = {"engine": "server(debug build)", "workspace": files, "expected": "every range lies in the document its response names, start <= end, selection inside range",
                       "observed": bad}
                v = core.Violation(bad, core.write_replay(ctx.pid, ctx.seed, rep), True)
                v.coverage = cov
                raise v
        finally:
            shutil.rmtree(root, ignore_errors=True)
    return dict(workspaces=nws, locations_checked=nloc)


FOREIGN_STEM = "link-names-the-stem-file-of-the-class-name"


def foreign_stem_finding(ctx, cov):
    """the listed finding (known_findings.json): a file that declares a class named like ANOTHER file's stem.  Its witness is
    replayed against the real server on every run; the generated workspaces never have this shape (every file is named
    after its class), so nothing else can be attributed to it."""
    import os, shutil, tempfile
    from vlib import lsp
    listed = any(f.get("property") == "C08" and f.get("id") == FOREIGN_STEM for f in ctx.open_findings())
    root = tempfile.mkdtemp(prefix="goldverif-c08f-")
    try:
        open(os.path.join(root, "aA.god"), "w").write("class aB\n\n\n\nfp : int4\n")
        open(os.path.join(root, "aB.god"), "w").write("class aB")
        s = lsp.Session(lsp.build_server(), root)
        s.initialize(root)
        s.request(2, "textDocument/definition", {"textDocument": {"uri": lsp.file_uri(os.path.join(root, "aA.god"))},
                                                 "position": {"line": 4, "character": 1}})
        r = s.wait_response(2, 30) or {}
        s.shutdown_exit(9, 20)
    finally:
        shutil.rmtree(root, ignore_errors=True)
    links = r.get("result") or []
    bad = [l for l in links if os.path.basename(l.get("targetUri", "")) == "aB.god" and l["targetRange"]["start"]["line"] > 0]
    if bad and listed:
        ctx.known("%s: reproduces on its witness (aA.god declares class aB next to aB.god: the link on fp names aB.god with line 4)" % FOREIGN_STEM)
    elif bad:
        path = core.write_replay(ctx.pid, ctx.seed, {"engine": "server(debug build)", "workspace": {"aA.god": "class aB\n\n\n\nfp : int4\n", "aB.god": "class aB"},
                                                   "observed": json.dumps(bad)[:600], "expected": "a link names a document and ranges inside it"})
        raise core.Violation("a definition link names aB.god with a range on a line aB.god does not have", path, True)
    elif listed:
        path = core.write_replay(ctx.pid, ctx.seed, {"broken": "listed finding %s no longer reproduces on its witness" % FOREIGN_STEM, "observed": json.dumps(links)[:600]})
        v = core.Violation("listed finding does not reproduce", path, False)
        v.coverage = cov
        raise v
    cov["foreign_stem_witness"] = "reproduces (listed)" if bad else "does not occur"


def diag_response_ranges(ctx, cov, cases):
    """the diagnostics RESPONSE (ProjectManager::generate_document_diagnostic_report: parser diagnostics as assembled for the
    client + the analysers' items), through harness engine `report`: every item's range has start <= end and lies on
    lines of the document.  Texts with unclosed blocks nested in unclosed blocks (parser diagnostics that are not in
    document order), stray tokens in runs, and a sample of this check's own cases."""
    rng = random.Random(ctx.seed + 88)
    nested = []
    for kw, cond in (("if", "a"), ("while", "a"), ("for", "i = 1 to 3"), ("loop", ""), ("switch", "a")):
        for kw2, cond2 in (("if", "b"), ("while", "b"), ("repeat", "")):
            for sep in ("\n  ", " "):
                nested.append("proc Foo\n  %s %s%s%s %s%sx = 1\nendproc\n" % (kw, cond, sep, kw2, cond2, sep))
                nested.append("class aX\nproc Foo\n  %s %s%s%s %s%sx = 1\n  ) ) )\nendproc\nproc Bar\n  ( ( (\nendproc\n" % (kw, cond, sep, kw2, cond2, sep))
    texts = [pc.enc(t) for t in nested] + rng.sample([c for c in cases if 10 < c.count(".") < 1500], min(len(cases), 1200 if ctx.quick else 20000))
    outs = core.run_lines(diff.Engines.harness(), "report", texts)
    n_items = 0
    for c, o in zip(texts, outs):
        if o.startswith(("PANIC", "HANG")) or o == "CRASH" or "#" not in o:
            bad = "the diagnostics request did not answer: " + o[:200] if o.startswith(("PANIC", "HANG")) or o == "CRASH" else None
        else:
            bad = None
            text = pc.dec(c)
            resp = o.split("#", 1)[1].split("|", 1)[0]
            for it in [x for x in resp.split(";") if x]:
                f = it.split(":")
                if len(f) < 8:
                    continue
                n_items += 1
                e = range_ok(text, tuple(int(x) for x in f[3:7]))
                if e:
                    bad = "diagnostics response item (severity %s): %s" % (f[0], e)
                    break
        if bad:
            path = core.write_replay(ctx.pid, ctx.seed, {"engine": "report", "case": c, "case_readable": pc.dec(c)[:2000], "observed": o[-1500:], "expected": bad})
            v = core.Violation(bad, path, True)
            v.coverage = cov
            raise v
    return dict(documents=len(texts), items=n_items)


def correspondence(ctx, broken_obligations=()):
    cases, hist = gen_cases(ctx)
    known = known_for(ctx)
    cov = diff.differential(ctx, "ranges", cases, oracle=oracle, known=known, shrinker=shrinker,
                            nontrivial=lambda c: c.count(".") >= 2, describe=pc.dec)
    hb = diff.Engines.harness()
    replay_findings(ctx, hb)
    # the same oracle on the JSON the server would send, through a ProjectManager on a temporary workspace
    pmc = pm_cases(ctx, cases)
    outs = core.run_lines(hb, "ranges", pmc)
    inproc = core.run_lines(hb, "ranges", [c[1:] for c in pmc])
    n_sym = 0
    for c, o, ip in zip(pmc, outs, inproc):
        r = oracle_pm(c, o)
        if r is None and o.startswith("PM|"):
            # the wire outline equals the in-process outline (same ranges, same nesting)
            syms_v, _ = json.JSONDecoder().raw_decode(o[3:])

            def flat(v):
                return [(as_range(s["range"]), as_range(s["selectionRange"]), flat(s["children"]) if s.get("children") is not None else None) for s in v]
            n_sym += len(syms_v)
            ipp = ip.split("|", 4)
            if len(ipp) == 5 and flat(syms_v) != parse_outline(ipp[4][1:]):
                r = "documentSymbol JSON differs from the outline computed in process"
        if r and not known(c, o, None):
            def still(cand):
                return oracle_pm(cand, core.run_lines(hb, "ranges", [cand], shards=1)[0]) is not None
            c2 = diff.shrink_case(c, still, shrinker) if not r.startswith("documentSymbol JSON differs") else c
            o2 = core.run_lines(hb, "ranges", [c2], shards=1)[0]
            path = core.write_replay(ctx.pid, ctx.seed, {"engine": "ranges", "case": c2, "case_readable": pc.dec(c2[1:])[:2000],
                                                       "observed": o2[:4000], "expected": oracle_pm(c2, o2) or r})
            v = core.Violation(r, path, True)
            v.coverage = cov
            raise v
    cov["cross_file_responses"] = cross_file_responses(ctx, cov)
    foreign_stem_finding(ctx, cov)
    cov["diagnostics_response_ranges"] = diag_response_ranges(ctx, cov, cases)
    cov["project_manager_cases"] = len(pmc)
    cov["project_manager_symbols"] = n_sym
    cov["input_histogram"] = hist
    cov["rule"] = ("all C04 streams (exhaustive: strings <= %d over 17 lexical symbols, token sequences <= %d / <= %d over two 16-kind alphabets; "
                   "random: soups, mutated fixtures and generated programs, Unicode noise; towers) + every prefix of %d targeted texts "
                   "(fallback branches of the range builders) + random combinations of them (LF and CRLF) + a ProjectManager/JSON sample; "
                   "every token, node, token field, identifier token vs node, name node vs method, diagnostic and outline symbol of the "
                   "implementation's output is checked; non-trivial = at least 3 characters"
                   % (((4, 4, 3) if ctx.quick else (5, 5, 4)) + (len(target_texts()),)))
    cov["exhaustive"] = True
    cov["samples"] = [pc.dec(cases[-1])[:200], pc.dec(cases[90000])[:120], pc.dec(pmc[0][1:])[:200]]
    cov["refuted_guarded"] = ["C08_for_counter_refuted: K_ident of AstForBlock without end token (not a declaration; guard in C08_sel_in_full and in the oracle)",
                              "C08_link_foreign_lines_refuted / C08_item_foreign_lines_refuted: a file aA.god that declares class aB next to a file aB.god: the link / hierarchy item made from a symbol of aA.god names aB.god and carries aA.god's ranges (lines that do not exist there); reproduced on the real code with the wstree engine; guard TablesAtHome / TablesAtHomeH in C08_definition_links_wf / C08_hierarchy_items_wf (file stem = declared class, the convention of the language)"]
    return cov


def replay(ctx, rep):
    case = rep["case"]
    out = core.run_lines(diff.Engines.harness(), "ranges", [case], shards=1)[0]
    r = oracle(case, out)
    print("text:", repr(pc.dec(case[1:] if case.startswith("P") else case))[:500])
    print("implementation:", out[:800])
    print("oracle:", r or "property holds on this case")
    if r:
        print("VIOLATION property=C08 replay=%s" % rep.get("how_to_rerun", "?").split()[-1])
        return 1
    return 0
