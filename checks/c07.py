"""C07  Expression memoisation is invisible and keeps parsing linear."""
import itertools, random, re, time
from vlib import core, diff
from checks import parser_common as pc

MANIFEST = dict(
    engine="E-memo",
    technique="Coq proof: simulation relation between the memoising parser run (from a context whose cache is sound for the method body being "
              "parsed) and ALL runs of the parser with the caches switched off, over every combinator and every grammar function, closed by "
              "induction over the fuel-indexed grammar knot at two independent fuel levels; cache-key invariant for 'at most once'; "
              "differential run of the extracted model against the real parser driven through its public generic API with a counting and a "
              "forgetful parser context",
    text=("THEOREMS (Coq, all token lists, no bound; Properties/C07.v, 14 statements closed under the global context): C07_transparent -- "
          "for every token list and any fuel above its length, parse_gold with the three caches answering and with the caches never "
          "answering return the same result (tree, remaining input) and the same SET of diagnostics (the un-memoised run may repeat a "
          "diagnostic); C07_transparent_body the same for the statements of one body; C07_once -- parse_method_body entered on any body "
          "from any context a whole-file parse can be in (C07_top_invariant) appends to the evaluation log a list without repetition: "
          "between two clear_cache calls no (cache, remaining length) pair is stored twice, all keys are (cache < 3, length <= body "
          "length); C07_linear -- hence at most 3*(n+1) logged evaluations in a body of n tokens; C07_memo_miss_stores -- for "
          "parse_primary/parse_expr every miss is logged and stored (errors too), so the log IS the list of their evaluations. "
          "C07_method_call_is_memo / C07_method_call_failure_stored: since /repo commit c0beeea parse_method_call stores failures as "
          "well, so 'at most once' holds for all three caches (regression witness body `a`: exactly one miss and one store at key "
          "(2,1), replayed against the real code on every run); C07_old_method_call_refuted keeps the refutation of the step before "
          "that commit (memo_ok_only: a failing method-call parse was evaluated again at the same position). "
          "MEASURED, not proved: total work beyond the number of cache evaluations (cost of the un-memoised glue): get_cache calls on "
          "nesting towers of depth 30/60/120 must fit a*n+b. Proof route: MemoSim.v (relation StepM/Sim: same result, result positions are suffixes of the input, cache "
          "invariant Sound kept, diagnostics set-equal, logged keys below (length, rank) -- one lemma per combinator; Sound: every entry "
          "is the result of the memo-off parser of that cache at EVERY sufficient fuel level on THE suffix of the body of that length -- "
          "suffixes are determined by their length -- and its diagnostics are already recorded), MemoGrammar.v (one lemma per grammar "
          "function by the tactic stac, knot gram_Sim), MemoProofs.v (parse_method_body establishes the invariant by clear_cache; the "
          "declaration parsers are proved in an environment whose invariant says nothing about cache entries, so no memoised parser is "
          "reachable from them except through parse_method_body)."),
    note="Partial: linear WORK is proved as '<= 3(n+1) evaluations per body, each key at most once'; the cost between evaluations is measured. Body boundaries are not observable in the model's log, so C07_once is "
         "stated for parse_method_body from every admissible context rather than on the whole-file log. Trusted: Coq kernel, extraction, harness "
         "(CountingContext/ForgetfulContext implement IParserContext), the hand-written model PComb.v/Grammar.v (validated by C04's and this "
         "differential run).",
    design="6 C07",
    engines=[dict(name="E-memo", path="harness/src/eng_memo.rs, eng_memomiss.rs + coq/extract/eng_memo.ml, Extract_memo.v, coq/theories/Model/MemoObs.v",
                  kind_free_text="differential: parse_gold and parse_repeat_w_context(parse_statement_v2) under a counting context (real cache + "
                                 "log of set_cache / get_cache misses) and a forgetful context (answers only the read-back after set_cache) vs the "
                                 "extracted model with cmemo on/off; trees, diagnostic sets, evaluation log as sorted multiset per body")],
)
MANIFEST["text"] += ' Fourth session: files with hundreds of method bodies at the distances where a small per-body counter wraps (implementation-only stage).'

ASSUMPTIONS = [
    "total parsing work beyond the count of stored cache evaluations is measured (get_cache calls on towers fit a*n+b), not proved",
    "ForgetfulContext (answers get_cache only for the read-back immediately after set_cache of the same key) is taken as 'memoisation off' of the real code; the model's cmemo=false is its counterpart",
    "in two-body files the body token slices are identified by the offsets of the parts the case is built from (bodies contain no end/endproc/endfunc token)",
    "token type, keyword and node-kind tables are regenerated from /repo/src on every run (translators T1, T2, T5)",
]

WITNESS = "B:" + pc.enc("a")


# ---------------------------------------------------------------------------------------------
# cases
# ---------------------------------------------------------------------------------------------

def fcase(parts, kind="F"):
    return kind + ":" + "/".join(pc.enc(p) for p in parts)


def header(name, body):
    # a body that starts with `(` would be read as the parameter list of `proc P`: close the header with a modifier
    return "proc %s%s\n" % (name, " private" if body.lstrip().startswith("(") else "")


def two_bodies(b1, b2, kind="F"):
    return fcase([header("P", b1), b1 + "\n", "endproc\n" + header("Q", b2), b2 + "\n", "endproc\n"], kind)


def tower(kind, d, closed=True):
    if kind == "call":
        o, c = "f(", ")"
    elif kind == "paren":
        o, c = "(", ")"
    elif kind == "idx":
        o, c = "a[", "]"
    elif kind == "set":
        o, c = "[", "]"
    elif kind == "dotcall":
        o, c = "a.f(", ")"
    else:  # mixed
        units = [("f(", ")"), ("(", ")"), ("a[", "]"), ("g(1, ", ")")]
        s_o = "".join(units[i % 4][0] for i in range(d))
        s_c = "".join(units[i % 4][1] for i in reversed(range(d)))
        return "x = " + s_o + "1" + (s_c if closed else "")
    return "x = " + o * d + "1" + (c * d if closed else "")


TOWER_KINDS = ["call", "paren", "idx", "set", "dotcall", "mixed"]
TOWER_DEPTHS = [1, 2, 3, 4, 5, 6, 8, 10, 15, 20, 30, 60, 120]
BANNED_IN_BODY = {"end", "endproc", "endfunc", "proc", "func", "'", '"'}


def program_parts(text, methods):
    """split a generated program into glue / body parts using the generator's method info"""
    nl = "\r\n" if "\r\n" in text else "\n"
    lines = text.split(nl)
    cuts = []
    for m in methods:
        if m.get("nobody"):
            continue
        a, n = m["first_line"], m["n_lines"]
        if a + n > len(lines) or lines[a] != m.get("header"):
            return None
        cuts.append((a + 1, a + n - 1))
    parts, cur = [], 0
    for (b0, b1) in cuts:
        parts.append("".join(l + nl for l in lines[cur:b0]))
        parts.append("".join(l + nl for l in lines[b0:b1]))
        cur = b1
    parts.append(nl.join(lines[cur:]))
    return parts


def gen_cases(ctx):
    rng = random.Random(ctx.seed)
    q = ctx.quick
    cases, hist = [], {}

    def add(kind, it):
        n0 = len(cases)
        cases.extend(it)
        hist[kind] = len(cases) - n0

    L = 4 if q else 5
    seqs = [t for l in range(L + 1) for t in itertools.product(pc.TOK_BODY, repeat=l)]
    add("tok_one_body", ["B:" + pc.enc(" ".join(t)) for t in seqs])
    add("tok_two_bodies", [two_bodies(" ".join(t[:(len(t) + 1) // 2]), " ".join(t[(len(t) + 1) // 2:])) for t in seqs])
    # generated programs: whole files with their body parts, the bodies alone, and mutations
    progs = pc.generated_programs(rng, 600 if q else 8000)
    pool = [k for k in pc.keywords() if k not in BANNED_IN_BODY] + list("()[].,:=+-*/<>&#") + ["a", "Foo", "1", "'s'", "<<", ":=", "++"]
    pool_any = pc.keywords() + list("()[]{}.,:=+-*/<>&#'\";") + ["a", "Foo", "1", "'s'", "\n", "<<", ":=", "++"]
    files, bodies, bmut, fmut, fmut_parts = [], [], [], [], []
    for (t, _, methods) in progs:
        parts = program_parts(t, methods)
        if parts is None:
            files.append(fcase([t]))
            continue
        files.append(fcase(parts))
        bs = parts[1::2]
        for b in bs:
            if b.strip():
                bodies.append("B:" + pc.enc(b))
                for _ in range(2 if q else 4):
                    m = b
                    for _ in range(rng.randint(1, 3)):
                        m = pc.mutate_text(rng, m, pool_any)
                    bmut.append("B:" + pc.enc(m))
        # token-level mutations inside the bodies, keeping the file structure (no body terminator, no quote)
        if bs:
            for _ in range(1 if q else 3):
                p2 = list(parts)
                j = 1 + 2 * rng.randrange(len(bs))
                m = p2[j]
                for _ in range(rng.randint(1, 3)):
                    m2 = pc.mutate_text(rng, m, pool)
                    low = m2.lower()
                    nocom = re.sub(r";[^\n]*", " ", low).split()      # exp_token skips comments in front of the token it expects
                    first = nocom[0] if nocom else ""
                    # keep the file structure: no body terminator / method start / quote anywhere, nothing the header would absorb in front
                    if not any(w in low for w in ("end", "proc", "func", "'", '"', "$")) and \
                       not first.startswith(("(", "#", "private", "protected", "final", "override", "external", "forward")):
                        m = m2
                if m and not m.endswith("\n"):
                    m += "\n"
                p2[j] = m
                fmut_parts.append(fcase(p2))
        for _ in range(1 if q else 3):
            m = t
            for _ in range(rng.randint(1, 3)):
                m = pc.mutate_text(rng, m, pool_any)
            fmut.append(fcase([m]))
    add("generated_files", files)
    add("generated_bodies", bodies)
    add("mutated_bodies", bmut)
    add("mutated_in_body_files", fmut_parts)
    add("mutated_files", fmut)
    tw = []
    for k in TOWER_KINDS:
        for d in TOWER_DEPTHS:
            for closed in (True, False):
                s = tower(k, d, closed)
                tw.append(("B:" if d <= 6 else "T:") + pc.enc(s))
                # the same lengths with different content in the other body
                other = tower(k, d, closed).replace("1", "2").replace("x", "y")
                tw.append(two_bodies(s, other, "F" if d <= 6 else "G"))
    add("towers", tw)
    # a declaration after a method, at a remaining length that also occurred inside the body: the top level must not read the
    # (stale) cache -- no memoised parser is reachable from a declaration
    after = []
    for b in ["y = Z", "q = a + b * c - d", "q = f(a, (b), c[1]) + g(2)", "if a\n x = (1)\nendif", "r = not a.b.c(1)"]:
        for extra in range(5):
            for memory in ("", "memory "):
                tail = "%sF : int4 absolute X\n" % memory + "".join("G%d : int4\n" % i for i in range(extra))
                after.append(fcase(["class aT\nproc P\n", b + "\n", "endproc\n" + tail]))
                after.append(fcase(["proc P\n", b + "\n", "endproc\nconst c = 1\ntype t : refto aT\n" + tail]))
    add("declaration_after_body", after)
    return cases, hist


# ---------------------------------------------------------------------------------------------
# oracle: the property's statement on the implementation's output alone
# ---------------------------------------------------------------------------------------------

def log_problem(log, n):
    """None when the evaluation log (sorted multiset 'k:len,...') has no repetition, only keys
    (cache < 3, len <= n) and at most 3(n+1) entries"""
    if not log:
        return None
    es = log.split(",")
    for a, b in zip(es, es[1:]):
        if a == b:
            return "cache %s / remaining length %s evaluated (stored) more than once within one body" % tuple(a.split(":"))
    for e in es:
        k, l = e.split(":")
        if int(k) > 2 or int(l) > n:
            return "evaluation key (%s, %s) outside 3 caches x lengths 0..%d" % (k, l, n)
    if len(es) > 3 * (n + 1):
        return "%d evaluations in a body of %d tokens (more than 3(n+1))" % (len(es), n)
    return None


def body_problem(n, on, off):
    o = on.split("~")
    if len(o) != 3:
        return "unparsable body observation"
    r = log_problem(o[2], n)
    if r:
        return r
    if off is not None:
        f = off.split("~")
        if len(f) != 2:
            return "unparsable body observation"
        if o[0] != f[0]:
            return "the statements parsed with memoisation on and off differ"
        if o[1] != f[1]:
            return "the sets of diagnostics with memoisation on and off differ"
    return None


def oracle(case, out):
    if out.startswith("SKIPPED"):
        return None     # the engine gives up after three hangs; those are reported
    if out.startswith(("PANIC", "HANG", "BAD")) or out == "CRASH":
        return "the implementation did not return normally: " + out[:200]
    kind = case[0]
    if kind in "BT":
        p = out.split("|")
        if kind == "T":
            if len(p) != 3:
                return "unparsable observation"
            return body_problem(int(p[1]), p[2], None)
        if len(p) != 5:
            return "unparsable observation"
        if p[4] != "same":
            return "the counting context and the plain ParserContext disagree"
        return body_problem(int(p[1]), p[2], p[3])
    head, *secs = out.split("@")
    hp = head.split("#")
    f = hp[0].split("|")
    if len(f) != 4:
        return "unparsable observation"
    if f[1] != "0":
        return "the parser left %s tokens unconsumed" % f[1]
    tree_bodies = hp[1:]
    for j, s in enumerate(secs):
        q = s.split("~")
        if len(q) not in (4, 6):
            return "unparsable body section"
        r = body_problem(int(q[0]), "~".join(q[1:4]), "~".join(q[4:6]) if len(q) == 6 else None)
        if r:
            return "body %d: %s" % (j + 1, r)
    if secs:
        if len(tree_bodies) != len(secs):
            return "the file has %d method bodies in its tree, %d body parts" % (len(tree_bodies), len(secs))
        for j, (tb, s) in enumerate(zip(tree_bodies, secs)):
            if tb != s.split("~")[1]:
                return ("body %d of the file differs from the same tokens parsed alone from an empty cache (and hence from the "
                        "un-memoised parse)" % (j + 1))
    return None


def shrinker(case):
    kind, spec = case.split(":", 1)
    parts = spec.split("/")
    for j, p in enumerate(parts):
        if len(parts) > 1 and j % 2 == 0:
            continue        # keep the glue of a file case: only its bodies are shrunk
        cs = p.split(".") if p else []
        keep = []
        if len(parts) > 1 and cs and cs[-1] == "10":
            keep, cs = [cs[-1]], cs[:-1]      # the newline that separates a body from the end token stays
        n = len(cs)
        step = max(1, n // 8)
        while step >= 1:
            for i in range(0, n, step):
                q = parts[:j] + [".".join(cs[:i] + cs[i + step:] + keep)] + parts[j + 1:]
                yield kind + ":" + "/".join(q)
            step //= 2


def describe(case):
    kind, spec = case.split(":", 1)
    return kind + ":" + " / ".join(repr(pc.dec(p)) for p in spec.split("/"))


def nontrivial(case):
    return case.count(".") >= 2


# ---------------------------------------------------------------------------------------------
# implementation-only measurements: miss log, linear fit on towers
# ---------------------------------------------------------------------------------------------

def miss_pass(ctx, cases, cov):
    hb = diff.Engines.harness()
    bt = [c for c in cases if c[0] in "BT"]
    outs = core.run_lines(hb, "memomiss", bt)
    n_miss = 0
    for c, o in zip(bt, outs):
        if o.startswith("SKIPPED"):
            continue
        p = o.split("|")
        bad = None
        if len(p) != 8:
            bad = "miss-log run did not return normally: " + o[:200]
        else:
            n, sets, misses, hits, dup, unstored, m2, s2 = map(int, p)
            n_miss += misses
            if dup:
                bad = ("a memoised parser was evaluated more than once at one position: %d cache misses on a key already missed in "
                       "this body" % dup)
            elif unstored:
                bad = "%d evaluations of a memoised parser were not stored" % unstored
        if bad:
            path = core.write_replay(ctx.pid, ctx.seed, {"engine": "memomiss", "case": c, "case_readable": describe(c)[:2000],
                                                       "observed": o[:2000], "expected": bad})
            v = core.Violation(bad, path, True)
            v.coverage = cov
            raise v
    # regression (C07_method_call_failure_stored): on the body `a` the failing method call is evaluated and stored exactly once
    w = core.run_lines(hb, "memomiss", [WITNESS], shards=1)[0]
    wf = w.split("|")
    if len(wf) != 8 or [wf[i] for i in (0, 1, 2, 4, 5, 6, 7)] != ["1", "3", "3", "0", "0", "1", "1"]:
        bad = "body `a`: expected three evaluations, exactly one miss and one store at key (2,1), no repeated and no unstored evaluation"
        path = core.write_replay(ctx.pid, ctx.seed, {"engine": "memomiss", "case": WITNESS, "case_readable": describe(WITNESS),
                                                   "observed": w, "expected": bad})
        v = core.Violation(bad, path, True)
        v.coverage = cov
        raise v
    cov["miss_log_cases"] = len(bt)
    cov["miss_log_evaluations"] = n_miss
    cov["method_call_regression"] = {
        "theorems": ["C07_method_call_failure_stored", "C07_old_method_call_refuted"], "witness": "body `a`",
        "observation(n|sets|misses|hits|dup|unstored|m2|s2)": w, "fixed_by": "/repo c0beeea"}


def tower_fit(ctx, cov):
    hb = diff.Engines.harness()
    fit = {}
    for k in TOWER_KINDS:
        for closed in (True, False):
            cs = ["T:" + pc.enc(tower(k, d, closed)) for d in (30, 60, 120)]
            t0 = time.time()
            outs = core.run_lines(hb, "memomiss", cs, shards=1)
            wall = time.time() - t0
            ws = []
            for o in outs:
                p = o.split("|")
                if len(p) != 8:
                    ws = None
                    break
                ws.append((int(p[0]), int(p[1]), int(p[2]) + int(p[3])))  # tokens, stored evaluations, get_cache calls
            name = "%s%s" % (k, "" if closed else "-open")
            bad = None
            if ws is None:
                bad = "tower run did not return normally: %s" % outs
            else:
                for idx, what in ((1, "stored evaluations"), (2, "get_cache calls")):
                    d1, d2 = ws[1][idx] - ws[0][idx], ws[2][idx] - ws[1][idx]
                    if d2 > 2.2 * max(d1, 1) + 16:
                        bad = "%s on %s towers grow faster than linearly: depth 30/60/120 -> %s" % (what, name, [w[idx] for w in ws])
                if wall > 60:
                    bad = "tower %s took %.0f s" % (name, wall)
            if bad:
                path = core.write_replay(ctx.pid, ctx.seed, {"engine": "memomiss", "case": cs[2], "case_readable": describe(cs[2])[:300],
                                                           "observed": outs, "expected": bad})
                v = core.Violation(bad, path, True)
                v.coverage = cov
                raise v
            fit[name] = {"tokens": [w[0] for w in ws], "stored_evaluations": [w[1] for w in ws], "get_cache_calls": [w[2] for w in ws]}
    cov["tower_linear_fit_depth_30_60_120"] = fit


def many_methods(ctx, cov):
    """hundreds of method bodies in ONE file (whatever is kept per body - counters, generations, tables - is sized for small
    files): a long body, then short ones, then long ones again at the distances where an 8- or 16-bit counter wraps;
    all bodies distinct, so a memo entry that survives from an earlier body shows in the tree.  The implementation alone,
    judged by the property's oracle on the file (the body found in the tree = the body parsed alone with memoisation off)."""
    hb = diff.Engines.harness()
    cs = []
    for n, period in ((258, 256), (300, 255), (514, 256), (520, 128)) + (() if ctx.quick else ((1030, 256), (1030, 512))):
        parts = ["class aMany (aObject)\n"]
        for i in range(n):
            if i % period == 0:
                body = "r%d = Compute%d(1, 2, 3, 4, 5, 6, 7, %d)\n  total = r%d + Scale(%d, b[c]) * (1 + %d)" % (i, i, i, i, i, i)
            else:
                body = "y%d = %d" % (i, i)
            parts[-1] += "proc M%d\n  " % i
            parts.append(body)
            parts.append("\nendproc\n")
        cs.append("F:" + "/".join(pc.enc(x) for x in parts))
    outs = core.run_lines(hb, "memo", cs, shards=min(core.NCPU, len(cs)))
    for c, o in zip(cs, outs):
        bad = oracle(c, o)
        if bad:
            path = core.write_replay(ctx.pid, ctx.seed, {"engine": "memo", "case": c[:200000], "case_readable": describe(c)[:400],
                                                       "observed": o[:600], "expected": bad})
            v = core.Violation(bad, path, True)
            v.coverage = cov
            raise v
    cov["many_method_files_implementation_only"] = len(cs)


def long_bodies(ctx, cov):
    """thousands of memoised positions in ONE body (tables, counters and caps sized for small inputs): the implementation
    alone, judged by the property's oracle (memo on = memo off, every evaluation stored once); the extracted model is
    quadratic in the body length and is not run here"""
    hb = diff.Engines.harness()
    cs = ["B:" + pc.enc("\n".join(st % i for i in range(n)))
          for n in ((2500, 6000) if ctx.quick else (2500, 6000, 12000, 30000)) for st in ("x%d = a + 1", "f(%d, b[c])", "if a%d\n y = (1)\nendif")]
    outs = core.run_lines(hb, "memo", cs, shards=min(core.NCPU, len(cs)))
    miss = core.run_lines(hb, "memomiss", cs, shards=min(core.NCPU, len(cs)))
    for c, o, m in zip(cs, outs, miss):
        bad = oracle(c, o)
        if not bad:
            p = m.split("|")
            if len(p) != 8:
                bad = "the evaluation log run did not return normally: " + m[:200]
            elif p[4] != "0" or p[5] != "0":
                bad = "a memoised parser was evaluated again at a position (%s repeats) or an evaluation was not stored (%s)" % (p[4], p[5])
        if bad:
            path = core.write_replay(ctx.pid, ctx.seed, {"engine": "memo", "case": c, "case_readable": describe(c)[:300],
                                                       "observed": o[:600], "expected": bad})
            v = core.Violation(bad, path, True)
            v.coverage = cov
            raise v
    cov["long_bodies_implementation_only"] = len(cs)


def attribute_crash(ctx, cases, v):
    """a crashed harness process answers CRASH for every case it had not reached: name the case it died on"""
    import json
    try:
        rep = json.load(open(v.replay))
    except Exception:
        return v
    if rep.get("observed") != "CRASH":
        return v
    hb = diff.Engines.harness()
    outs = core.run_lines(hb, "memo", cases)
    first = next((c for c, o in zip(cases, outs) if o == "CRASH"), None)
    if first is None:
        return v
    alone = core.run_lines(hb, "memo", [first], shards=1)[0]
    path = core.write_replay(ctx.pid, ctx.seed, {
        "engine": "memo", "case": first, "case_readable": describe(first)[:2000], "observed": alone[:2000],
        "expected": "the implementation did not return normally: the harness process died on this case (stack overflow / abort); run alone: %s" % alone[:100]})
    v2 = core.Violation("harness process died", path, True)
    v2.coverage = getattr(v, "coverage", {})
    return v2


def correspondence(ctx, broken_obligations=()):
    cases, hist = gen_cases(ctx)
    # implementation-only measurements first: they name a failing input where the differential run could only report a disagreement
    pre = {"programs": len(cases), "evaluations": len(cases)}
    miss_pass(ctx, cases, pre)
    tower_fit(ctx, pre)
    long_bodies(ctx, pre)
    many_methods(ctx, pre)
    try:
        cov = diff.differential(ctx, "memo", cases, oracle=oracle, shrinker=shrinker, nontrivial=nontrivial, describe=describe)
    except core.Violation as v:
        raise attribute_crash(ctx, cases, v)
    for k, val in pre.items():
        cov.setdefault(k, val)
    if not ctx.quick:
        # thorough: one bare body of exactly 6 tokens over the alphabet, exhaustively, in batches (memory)
        n6 = 0
        for first in pc.TOK_BODY:
            batch = ["B:" + pc.enc(" ".join((first,) + t)) for t in itertools.product(pc.TOK_BODY, repeat=5)]
            c6 = diff.differential(ctx, "memo", batch, oracle=oracle, shrinker=shrinker, nontrivial=nontrivial, describe=describe)
            for k in ("programs", "evaluations", "distinct_nontrivial", "disagreements_checked", "oracle_failures"):
                cov[k] += c6[k]
            cov["diff_wall_s"] = round(cov["diff_wall_s"] + c6["diff_wall_s"], 2)
            n6 += len(batch)
        hist["tok_one_body_len6"] = n6
    cov["input_histogram"] = hist
    cov["rule"] = ("exhaustive: all token sequences <= %d over the 16-kind body alphabet %s as one bare body (counting + forgetful + plain context%s) "
                   "and split into the two bodies of `proc P <s1> endproc proc Q <s2> endproc` (parse_gold + both bodies under both contexts; a "
                   "body starting with `(` gets the header `proc P private`, otherwise the header would read it as a parameter list); "
                   "generated programs split into their method bodies, the bodies alone, 1-3 token-level mutations of the bodies (free) and inside "
                   "the files (structure kept), 1-3 free mutations of whole files; call/bracket/index/set/dotted-call/mixed towers, closed and "
                   "unterminated, depths %s (memo-off run up to depth 6), also inside one- and two-body files; non-trivial = at least 3 characters"
                   % (4 if ctx.quick else 5, pc.TOK_BODY, "" if ctx.quick else "; one bare body also for all sequences of length 6", TOWER_DEPTHS))
    cov["exhaustive"] = True
    cov["samples"] = [describe(cases[40000])[:160], describe(cases[hist["tok_one_body"] + 40000])[:200], describe(cases[-3])[:200]]
    cov["regression_of_fixed_refutation"] = ["C07_old_method_call_refuted"]
    cov["measured_not_proved"] = ["get_cache calls and stored evaluations on towers fit a*n+b (depth 30/60/120)"]
    return cov


def replay(ctx, rep):
    case = rep["case"]
    eng = rep.get("engine", "memo")
    eng = eng if eng in ("memo", "memomiss") else "memo"
    out = core.run_lines(diff.Engines.harness(), eng, [case], shards=1)[0]
    r = oracle(case, out) if eng == "memo" else rep.get("expected")
    print("case:", describe(case)[:600]); print("implementation:", out[:800]); print("oracle:", r or "property holds on this case")
    if r:
        print("VIOLATION property=C07 replay=%s" % rep.get("how_to_rerun", "?").split()[-1])
        return 1
    return 0
