"""C15  Unused-variable warnings are exact and per-method."""
import json, random, re
from collections import Counter
from vlib import core, diff

MANIFEST = dict(
    engine="E-unusedvar",
    technique="Coq proof (structural induction over the tree, fold invariants of the map) about an executable model of AstWalker + UnusedVarAnalyzer on the real syntax tree; two-phase differential run of the extracted model against the real analyser on trees the real parser builds; independent token-level oracle stating the property on the source text",
    text=("Theorems over the Gallina model, for EVERY tree and generic in the key function (the code keys by the upper-cased name), no guards: "
          "the warnings of a file are exactly one warning per local variable of each method that no statement of that method mentions outside "
          "member position, ignoring case, placed on the declared name, in order (C15_unused_exact: unused_vars = unused_spec; C15_reported_iff: the "
          "iff for one local with the declarative reading MentionsIn of `mentions`; C15_duplicates_exact for the \"already declared\" errors); the "
          "report of a file is the concatenation of its method nodes' reports, each a function of that node alone (C15_report_decomposes, "
          "C15_report_methods_only), permuting top-level declarations permutes it (C15_unused_per_method), placement (C15_placement), equivariance "
          "under renaming of every identifier and token value (C15_unused_rename). Reading of the property on a tree: a method's statements are the "
          "children of its body node (the header - name, parameters, return type - is not a statement), a name declared again in any case is not a "
          "new variable, member position = a non-first operand of a dot, the first operand of a dot itself in member position, the base of an indexed "
          "member; method nodes are the root's children in every parsed tree (top_flat, C15_methods_top_level; checked on every tree of the run). "
          "The analyser before the repair of tools/c15_proposed_fix.diff falsified the statement in five ways, kept as theorems about the old visit "
          "function (C15_old_trailing_refuted, C15_old_use_before_decl_refuted, C15_old_callee_refuted, C15_old_for_counter_refuted, "
          "C15_old_indexed_member_refuted), each beside a regression example on the same dump of the real parser's tree. Repaired earlier: letter "
          "case (e5fd419), string-literal content (993bb42). Tie: generated Gold files of 1..8 methods with 0..6 locals in 22 use categories, method "
          "permutations and consistent renamings of every program, exhaustive single/pair category sweep, malformed stream: real "
          "lexer+parser+walker+analyser vs extracted model on the dumped tree, all diagnostics equal; the extracted tree-level specification "
          "(unused_spec, dup_spec) equals the text-level oracle AND the implementation's diagnostics on every well-formed case."),
    note=("Trusted: Coq kernel, translators T1/T2/T5, extraction, harness + tree dumper. The model is the analyser with tools/c15_proposed_fix.diff "
          "applied; against a /repo without it the regression witnesses (former known findings trailing-toplevel-terminal-charged-to-previous-method, "
          "use-before-declaration-not-counted, callee-name-not-counted, for-counter-not-counted, indexed-member-counts-as-use) are reported as "
          "violations. A type name in a declaration (`var y : x`) is not a mention (AstTypeBasic is not a terminal); the generator never emits it."),
    design="6 C15",
    engines=[dict(name="E-unusedvar", path="harness/src/eng_unusedvar.rs + coq/extract/eng_unusedvar.ml",
                  kind_free_text="two-phase differential: text -> real lexer/parser/AstWalker/UnusedVarAnalyzer vs extracted Coq model on the dumped tree; complete sorted diagnostic lists"),
             dict(name="E-unusedvarspec", path="coq/extract/eng_unusedvarspec.ml",
                  kind_free_text="model-only: extracted tree-level specification (unused_spec, dup_spec), tree-shape checker (top_flat_b) and the analyser before the repair (analyze_old) on the dumped tree, compared with the text-level oracle and the implementation")],
)

ASSUMPTIONS = [
    "the tree the analyser walks is the one harness/src/treedump.rs dumps: kind, get_identifier(), range, op/ident/token attributes, children = get_children_ref; AstMethodCall.identifier.get_identifier() is the dumped identifier of the call node, AstForBlock.counter_token the dumped K_ident attribute, AstBinaryOp.left_node/right_node and AstArrayAccess.left_node/index_node the two dumped children in this order",
    "AstProcedure.body / AstFunction.body is the method node's only child of kind AstMethodBody (the parser builds the other children - name, return type, parameter list - of other kinds); an AstTerminal has no children (get_children_ref is None)",
    "HashMap iteration order is unobservable: diagnostics are compared as sorted lists; the model emits a method's warnings in insertion order",
    "identifiers are ASCII: str::to_uppercase is modelled as ASCII upper-casing in the specification's ci_eq (and in the upper-cased-keys variant of the model)",
    "lsp_types::Diagnostic fields other than range, severity and message (source \"gold\", tag UNNECESSARY) are not compared",
]

# ---------------------------------------------------------------------------------------------
# text helpers
# ---------------------------------------------------------------------------------------------

def enc(text):
    return ".".join(str(ord(c)) for c in text)


def dec(case):
    case = case.strip()
    return "" if not case else "".join(chr(int(x)) for x in case.split("."))


def cps(s):
    return "-" if s == "" else ".".join(str(ord(c)) for c in s)


def norm(d):
    """canonical diagnostic with the key lower-cased: the property matches names without regard to letter case,
    so the spelling of the name inside the message is not part of it (its range is)"""
    f = d.split(":")
    if len(f) == 7 and f[6] != "-":
        f[6] = cps(dec(f[6]).lower())
    return ":".join(f)


TOK = re.compile(r"(?P<ws>[ \t\r]+)|(?P<nl>\n)|(?P<com>;[^\n]*)|(?P<id>[A-Za-z_][A-Za-z0-9_]*)|(?P<num>[0-9][0-9A-Za-z_.]*)|"
                 r"(?P<str>'[^'\n]*'|\"[^\"\n]*\")|(?P<op>.)", re.S)


def tokenize(text):
    """[(kind, text, line, col)] without whitespace and comments; kinds id num str op."""
    out, line, col = [], 0, 0
    for m in TOK.finditer(text):
        k, s = m.lastgroup, m.group()
        if k == "nl":
            line, col = line + 1, 0
            continue
        if k not in ("ws", "com"):
            out.append((k, s, line, col))
        col += len(s)
    return out


M_START = {"proc", "procedure", "func", "function"}
M_END = {"endproc", "endfunc"}

# deviations of the code from the property, as switches of the text-level oracle; each is the class
# predicate of one finding id of known_findings.json.  None is open any more: the five below were
# repaired together (tools/c15_proposed_fix.diff); their switches remain in `analyse` to say what the
# analyser BEFORE the repair reported (Model analyze_old, the C15_old_*_refuted theorems).
DEVS = {}
OLD_DEVS = {
    "trailing-toplevel-terminal-charged-to-previous-method": "trailing",
    "use-before-declaration-not-counted": "before",
    "callee-name-not-counted": "callee",
    "for-counter-not-counted": "forctr",
    "indexed-member-counts-as-use": "indexed",
}
DEV_WHAT = {
    "trailing-toplevel-terminal-charged-to-previous-method": "a non-literal terminal in a top-level declaration that follows a method (a field's `absolute` target, a record parent) is charged to that method's locals (the map is only reset at the next method)",
    "use-before-declaration-not-counted": "a use that textually precedes the `var` declaration is not counted: `x = 1` ... `var x : int4` -> \"Unused var: x\"",
    "callee-name-not-counted": "a local used only as a call name `x(1)` is reported unused (AstMethodCall's callee identifier is not a child node)",
    "for-counter-not-counted": "a local used only as a for-counter `for x = 1 to 3` is reported unused (the counter is a token of AstForBlock, not a node)",
    "indexed-member-counts-as-use": "an indexed member after a dot counts as a use: `self.x[1] = 2` silences `var x` (the terminal's parent is the AstArrayAccess, not the dot)",
}


def split_items(toks):
    """top-level structure: list of ('m', header_toks, body_toks, name) / ('d', toks)"""
    items, i, n = [], 0, len(toks)
    cur = []
    while i < n:
        k, s, l, c = toks[i]
        first_on_line = i == 0 or toks[i - 1][2] != l
        if k == "id" and s.lower() in M_START and first_on_line:
            if cur:
                items.append(("d", cur)); cur = []
            j = i
            while j < n and toks[j][2] == l:
                j += 1
            header = toks[i:j]
            b = j
            while j < n and not (toks[j][0] == "id" and toks[j][1].lower() in M_END):
                j += 1
            body = toks[b:j]
            name = header[1][1] if len(header) > 1 else ""
            items.append(("m", header, body, name))
            i = j + 1
        else:
            cur.append(toks[i]); i += 1
    if cur:
        items.append(("d", cur))
    return items


def trailing_terminals(dtoks):
    """tokens of a top-level declaration stretch that the parser turns into AstTerminal nodes
    (the forms the generator emits): `absolute NAME`, `record (NAME)`, `'a' to 'b'` (string literals: never counted)."""
    r = []
    for i, (k, s, l, c) in enumerate(dtoks):
        prev = dtoks[i - 1] if i else None
        prev2 = dtoks[i - 2] if i > 1 else None
        nxt = dtoks[i + 1] if i + 1 < len(dtoks) else None
        if k == "id" and prev and prev[0] == "id" and prev[1].lower() == "absolute":
            r.append((k, s))
        elif k == "id" and prev and prev[1] == "(" and prev2 and prev2[0] == "id" and prev2[1].lower() == "record":
            r.append((k, s))
        elif k == "str" and ((nxt and nxt[0] == "id" and nxt[1].lower() == "to") or (prev and prev[0] == "id" and prev[1].lower() == "to")):
            r.append((k, s[1:-1]))
    return r


def analyse(text, devs=frozenset()):
    """The property's statement on the source text.  Returns (expected, dups):
    expected = Counter of canonical warnings `2:U:l:c:l:c2:keycps`; dups = Counter of (line, col) of the
    declarations that repeat, in any letter case, a name the same method declared before: such a declaration is not a
    new variable (it gets "Var name already declared"), the variable is the first declaration.
    The statements of a method are its body: what follows the header line (name, parameters, return type, modifiers)
    up to the end keyword.  devs: deviations (values of OLD_DEVS) under which the expectation is computed instead."""
    toks = tokenize(text)
    items = split_items(toks)
    expected, dups = Counter(), Counter()
    same = lambda a, b: a.lower() == b.lower()
    for idx, it in enumerate(items):
        if it[0] != "m":
            continue
        body = it[2]
        trail = []
        if "trailing" in devs:
            for nx in items[idx + 1:]:
                if nx[0] == "m":
                    break
                trail += trailing_terminals(nx[1])
        decls = []
        for i, (k, s, l, c) in enumerate(body):
            if k == "id" and s.lower() == "var" and i + 2 < len(body) and body[i + 1][0] == "id" and body[i + 2][1] == ":" \
               and (i == 0 or body[i - 1][2] != l):
                decls.append(i + 1)
        declset = set(decls)
        seen = set()
        for di in decls:
            k, name, l, c = body[di]
            if name.lower() in seen:
                dups[(l, c)] += 1
                continue
            seen.add(name.lower())
            mentioned = False
            for i, (tk, ts, tl, tc) in enumerate(body):
                if i in declset:
                    continue
                prev = body[i - 1] if i else None
                nxt = body[i + 1] if i + 1 < len(body) else None
                if tk == "id" and same(ts, name):
                    after_dot = prev is not None and prev[1] == "."
                    if after_dot:
                        if "indexed" in devs and nxt is not None and nxt[1] == "[":
                            mentioned = True
                        continue
                    if "callee" in devs and nxt is not None and nxt[1] == "(":
                        continue
                    if "forctr" in devs and prev is not None and prev[0] == "id" and prev[1].lower() == "for":
                        continue
                    if "before" in devs and i < di:
                        continue
                    mentioned = True
            for (tk, ts) in trail:
                if same(ts, name) and tk == "id":
                    mentioned = True
            if not mentioned:
                expected["2:U:%d:%d:%d:%d:%s" % (l, c, l, c + len(name), cps(name.lower()))] += 1
    return expected, dups


def parse_out(impl_out):
    """-> (list of diag strings, pos_flag) ; raises on unparsable.  The list is the one of the diagnostics RESPONSE
    (a trailing !DIRECT[..] carries what the analyzer driven directly said, when that differs)"""
    k = impl_out.find("!DIRECT[")
    if k >= 0:
        impl_out = impl_out[:k]
    flag = impl_out.endswith("!POS")
    if flag:
        impl_out = impl_out[:-4]
    return [d for d in impl_out.split(";") if d], flag


def judge(text, impl_out, devs=frozenset()):
    """None if the implementation's diagnostics are what the property (under devs) requires."""
    if impl_out.startswith("PANIC") or impl_out == "CRASH":
        return "implementation panicked: " + impl_out[:200]
    ds, flag = parse_out(impl_out)
    if flag:
        return "assumption broken: left operand of a '.' with get_pos() != get_range().start"
    expected, dups = analyse(text, devs)
    got, gotd = Counter(), Counter()
    for d in ds:
        f = d.split(":")
        if len(f) != 7:
            return "unparsable diagnostic %r" % d
        at = (int(f[2]), int(f[3]))
        if f[1] == "U":
            if f[0] != "2":
                return "an unused-variable diagnostic that is not a WARNING: %s" % d
            got[norm(d)] += 1
        elif f[1] == "D":
            if f[0] != "1":
                return "a \"Var name already declared\" diagnostic that is not an ERROR: %s" % d
            gotd[at] += 1
        else:
            return "unexpected diagnostic %r" % d
    if gotd != dups:
        extra = sorted((gotd - dups).elements())
        missing = sorted((dups - gotd).elements())
        if extra:
            return "\"Var name already declared\" at %d:%d where no earlier declaration of the method has that name" % extra[0]
        return "no \"Var name already declared\" for the repeated declaration at %d:%d" % missing[0]
    if got != expected:
        missing = sorted((expected - got).elements())
        extra = sorted((got - expected).elements())
        w = []
        for d in missing[:3]:
            f = d.split(":")
            w.append("no warning for unmentioned local `%s` declared at %s:%s" % (dec(f[6]), f[2], f[3]))
        for d in extra[:3]:
            f = d.split(":")
            w.append("warning \"Unused var: %s\" at %s:%s-%s:%s although the method mentions it (or no such declaration)" % (dec(f[6]) if f[6] != "-" else "", f[2], f[3], f[4], f[5]))
        return "; ".join(w)
    return None


# ---------------------------------------------------------------------------------------------
# generator
# ---------------------------------------------------------------------------------------------

NAMES = ["cnt", "idx", "total", "Flag", "tmpVal", "aRec", "x", "y1", "k_2", "myList", "Buf", "n", "res", "sName", "pos9", "W"]
BASE_CATS = ["never", "once", "dot_right", "nested", "other_method", "other_case"]
MORE_CATS = ["dot_left", "call_arg", "in_string", "callee", "for_counter", "indexed_member", "before_decl",
             "absolute", "trailing", "mixed_unused", "mixed_used", "deep_expr", "deep_block", "next_method_name",
             "own_method_name", "param_name"]
CATS = BASE_CATS + MORE_CATS
# what the PROPERTY says (True = some statement mentions the local other than as a member name after a dot)
MENTIONED = dict(never=False, once=True, dot_right=False, nested=True, other_method=False, other_case=True,
                 dot_left=True, call_arg=True, in_string=False, callee=True, for_counter=True, indexed_member=False,
                 before_decl=True, absolute=True, trailing=False, mixed_unused=False, mixed_used=True,
                 deep_expr=True, deep_block=True, next_method_name=False,
                 # the header of a method is not one of its statements
                 own_method_name=False, param_name=False)

ONCE = ["{v} = 1", "hlp = {v} + 2", "{v}++", "hlp = ({v} * 3) - 1", "hlp = not {v}", "hlp = -{v}", "hlp = arr[{v}]", "{v}[1] = 2",
        "hlp = tInt({v})", "hlp = [{v}, 2]", "hlp = {v} + {v}", "hlp = 'a' & {v}", "hlp = {v} in [1,2]", "{v} = self", "hlp = ob.meth({v}).fld"]
DOT_RIGHT = ["self.{v} = 1", "ob.{v} = 2", "hlp = self.{v}", "foo(self.{v})", "self.fld.{v} = 1", "hlp = ob.{v} + 1", "self.{v}(1)", "ob.meth(1).{v} = 2",
             "hlp = ob.{v}.sub", "ob.{v}.fld[1] = 2", "ob.{v}(1).fld = 2", "hlp = ob.{v}[1].fld", "hlp = ob.fld.{v}(2)"]
DOT_LEFT = ["{v}.Foo = 1", "{v}.Bar(2)", "hlp = {v}.Count", "{v}.fld.sub = 1"]
CALL_ARG = ["foo({v})", "self.Bar(1, {v})", "foo(1, {v} + 1)", "write({v}, 1)", "inherited foo({v})"]
IN_STRING = ["foo('{v}')", "hlp = '{v}'", "hlp = \"{v}\""]
CALLEE = ["{v}(1)", "{v}()", "hlp = {v}(2)"]
INDEXED = ["self.{v}[1] = 2", "hlp = ob.{v}[0]"]
FILLER = ["foo()", "hlp = 1", "self.bar(2)", "; a note", "hlp = hlp + 1", "ob.fld = nil", "; {c} is mentioned in a comment only"]
COND_WITH = ["if {v} > 0|endif", "while {v}|endwhile", "for i = 1 to {v}|endfor", "for i = 1 to 3 step {v}|endfor", "forEach it in {v}|endfor", "forEach {v} in lst|endfor",
             "forEach it in lst using {v}|endfor", "forEach it in lst downto using {v}|endfor"]
WRAP = ["if cnd|endif", "if cnd|else|endif", "if cnd|elseif c2|endif", "for i = 1 to 3|endfor", "while cnd|endwhile", "loop|endloop", "repeat|until cnd", "forEach it in lst|endfor", "switch sel|endswitch"]
TYPES = ["int4", "Int4", "CString", "tRec", "aThing", "boolean"]
TOPDECLS = ["const cMax = 10", "type tCount : int4", "type tRange : 1 to 10", "type tLetters : 'a' to 'z'", "memory fld{n} : int4", "gfld{n} : int4",
            "type tRec{n} : record\n   fa : int4\n   fb : CString\nendRecord", "type tSub{n} : record (tRec)\n   fc : int4\nendRecord", "; top-level comment",
            "memory alias{n} : int4 absolute gTarget"]


def flipcase(rng, name):
    cands = [name.upper(), name.lower(), name.swapcase(), name[0].swapcase() + name[1:]]
    cands = [c for c in cands if c != name]
    return rng.choice(cands) if cands else None


def wrap(rng, lines, depth, v=None):
    """wrap statement lines into `depth` nested blocks; when v is given the innermost block's condition mentions v"""
    for d in range(depth):
        if v is not None and d == 0:
            w = rng.choice(COND_WITH).format(v=v)
        else:
            w = rng.choice(WRAP)
        parts = w.split("|")
        ind = ["   " + l for l in lines]
        if parts[0].startswith("switch"):
            lines = [parts[0], "   when 1"] + ["   " + l for l in ind] + ["   endWhen"] + (["   else", "      foo()"] if rng.random() < .4 else []) + [parts[-1]]
        elif parts[0] == "repeat":
            lines = [parts[0]] + ind + [parts[1]]
        elif len(parts) == 3:
            if rng.random() < .5:
                lines = [parts[0], "   foo()", parts[1]] + ind + [parts[2]]
            else:
                lines = [parts[0]] + ind + [parts[1], "   hlp = 0", parts[2]]
        else:
            lines = [parts[0]] + ind + [parts[1]]
    return lines


def use_lines(rng, cat, v):
    """statement lines of the own method for local v of category cat (None: impossible, e.g. no letter to flip)"""
    f = lambda pool: rng.choice(pool).format(v=v)
    if cat in ("never", "other_method", "trailing", "next_method_name", "own_method_name", "param_name"):
        # next_method_name: the method declared right after this one bears the local's name; own_method_name: this
        # method does (gen_program); param_name: one of its parameters does (gen_method)
        return []
    if cat == "deep_expr":
        n = rng.choice([31, 40, 64, 130])       # the only mention is the operand deepest in a long left-nested chain
        op = rng.choice([" + ", " & ", " - "])
        return ["hlp = " + v + op + op.join(["1"] * n)] if rng.random() < .5 else ["hlp = " + "(" * n + v + " + 1)" * n]
    if cat == "deep_block":
        return wrap(rng, [f(ONCE)], rng.choice([12, 16, 20]))
    if cat == "once":
        return [f(ONCE)]
    if cat == "dot_right":
        return [f(DOT_RIGHT)] + ([f(DOT_RIGHT)] if rng.random() < .3 else [])
    if cat == "dot_left":
        return [f(DOT_LEFT)]
    if cat == "call_arg":
        return [f(CALL_ARG)]
    if cat == "in_string":
        return [f(IN_STRING)]
    if cat == "callee":
        return [f(CALLEE)]
    if cat == "indexed_member":
        return [f(INDEXED)]
    if cat == "for_counter":
        return ["for %s = 1 to 3" % v, "   foo()", "endfor"]
    if cat == "nested":
        if rng.random() < .3:
            return wrap(rng, ["foo()"], rng.randint(1, 3), v=v)
        inner = [f(rng.choice([ONCE, CALL_ARG, DOT_LEFT]))]
        return wrap(rng, inner, rng.randint(1, 3))
    if cat == "other_case":
        o = flipcase(rng, v)
        if o is not None and rng.random() < .15:
            return ["for %s = 1 to 3" % o, "   foo()", "endfor"]
        return None if o is None else [rng.choice(ONCE + CALL_ARG + DOT_LEFT + CALLEE).format(v=o)]
    if cat == "mixed_unused":
        return [f(DOT_RIGHT), f(IN_STRING), "; %s = 1" % v]
    if cat == "mixed_used":
        return [f(DOT_RIGHT), f(ONCE)]
    raise ValueError(cat)


class Prog:
    """items: ('d', text) | ('m', dict(kind,name,params,lines))   (lines: body lines without header/end)"""
    def __init__(self):
        self.items = []
        self.expect = {}          # (method name, local name) -> mentioned? as the generator knows it

    def render(self, order=None):
        items = self.items
        if order is not None:
            ms = [i for i in items if i[0] == "m"]
            ms = [ms[k] for k in order]
            it = iter(ms)
            items = [next(it) if i[0] == "m" else i for i in items]
        out = []
        for i in items:
            if i[0] == "d":
                out.append(i[1])
            else:
                m = i[1]
                out.append(m["header"])
                out += ["   " + l for l in m["lines"]]
                out.append(m["end"])
            out.append("")
        return "\n".join(out)

    def n_methods(self):
        return sum(1 for i in self.items if i[0] == "m")


def gen_method(rng, p, mi, name, locs, cats, other_uses):
    """locs: local names; cats: their categories; other_uses: statement lines mentioning OTHER methods' locals"""
    isf = rng.random() < .4
    params = rng.choice(["", "", "(a : int4)", "(a : int4, inOut b : CString)", "(const pa : tRec)", "(someParam)"])
    pn = [v for v, c in zip(locs, cats) if c == "param_name"]
    if pn:
        params = "(" + ", ".join(rng.choice(["%s : int4", "inOut %s : CString", "const %s : tRec"]) % rng.choice([v, v.upper(), v.lower()]) for v in pn) + ")"
    kw = rng.choice(["proc", "procedure", "Proc"]) if not isf else rng.choice(["func", "function", "Func"])
    header = "%s %s%s%s%s" % (kw, name, params, " return int4" if isf else "", rng.choice(["", "", " override", " private"]))
    end = rng.choice(["endFunc", "endfunc"]) if isf else rng.choice(["endProc", "endproc"])
    decl, before, stmts, after_items = [], [], [], []
    for v, cat in zip(locs, cats):
        ty = rng.choice(TYPES)
        if cat == "absolute":
            w = "abs" + v
            stmts_for = []
            decl.append("var %s : %s" % (v, ty))
            decl.append("var %s : %s absolute %s" % (w, ty, v))
            p.expect[(name, w)] = False
        elif cat == "before_decl":
            before.append(rng.choice(ONCE + CALL_ARG).format(v=v))
            decl.append("var %s : %s" % (v, ty))
            stmts_for = []
        else:
            decl.append("var %s : %s" % (v, ty))
            stmts_for = use_lines(rng, cat, v)
            if stmts_for is None:
                cat = "never"; stmts_for = []
        if cat == "trailing":
            after_items.append(("d", "memory tr%d_%s : int4 absolute %s" % (mi, v, v)))
        p.expect[(name, v)] = MENTIONED[cat]
        stmts.append(stmts_for)
    for u in other_uses:
        stmts.append([u])
    for _ in range(rng.randint(0, 3)):
        stmts.append([rng.choice(FILLER).format(c=rng.choice(locs) if locs else "it")])
    rng.shuffle(stmts)
    lines = before + decl
    for s in stmts:
        lines += s
    if isf and rng.random() < .7:
        lines.append("return %s" % rng.choice(["1", "hlp", "hlp + 1"]))
    m = dict(kind="f" if isf else "p", name=name, header=header, end=end, lines=lines)
    return ("m", m), after_items


def gen_program(rng, cats_pool, nm=None, fixed=None, topdecls=True):
    """fixed: list (per method) of category lists, else random 0..6 locals per method"""
    p = Prog()
    nm = nm or rng.randint(1, 8)
    if fixed is not None:
        nm = max(nm, len(fixed))
    per = []
    for i in range(nm):
        cs = list(fixed[i]) if fixed is not None and i < len(fixed) else [rng.choice(cats_pool) for _ in range(rng.randint(0, 6))]
        per.append(cs)
    if any("other_method" in cs for cs in per) and nm == 1:
        nm = 2; per.append([])
    shared = rng.random() < .5          # the same names in every method, or disjoint ones
    pool = NAMES[:]
    rng.shuffle(pool)
    locs = []
    for i, cs in enumerate(per):
        if shared:
            ns = rng.sample(NAMES, len(cs))
        else:
            ns = [pool.pop() if pool else "v%d_%d" % (i, j) for j in range(len(cs))]
        locs.append(ns)
    # uses in another method
    other = [[] for _ in range(nm)]
    for i, (cs, ns) in enumerate(zip(per, locs)):
        for c, v in zip(cs, ns):
            if c == "other_method":
                cands = [j for j in range(nm) if j != i and v.lower() not in [x.lower() for x in locs[j]]]
                if not cands:
                    cands = [j for j in range(nm) if j != i]
                    # the other method declares the same name: the use there is a use of ITS local
                j = rng.choice(cands)
                other[j].append((v, rng.choice(ONCE + CALL_ARG).format(v=v)))
    # method names; the method after one with a `next_method_name` local bears that local's name (in some letter case)
    mnames = ["Meth%d" % i for i in range(nm)]
    for i, (cs, ns) in enumerate(zip(per, locs)):
        for c, v in zip(cs, ns):
            if c == "next_method_name" and i + 1 < nm and mnames[i + 1].startswith("Meth") and \
                    v.lower() not in [x.lower() for x in mnames]:
                mnames[i + 1] = rng.choice([v, v.upper(), v.capitalize()])
            # a method named like its OWN local: the header is not a statement
            if c == "own_method_name" and mnames[i].startswith("Meth") and v.lower() not in [x.lower() for x in mnames]:
                mnames[i] = rng.choice([v, v.upper(), v.capitalize()])
    if topdecls and rng.random() < .6:
        p.items.append(("d", "class aGen%d (aBase)" % rng.randint(1, 9)))
    for i in range(nm):
        if topdecls:
            for _ in range(rng.choice([0, 0, 1, 2])):
                p.items.append(("d", rng.choice(TOPDECLS).format(n=len(p.items))))
        name = mnames[i]
        mitem, after = gen_method(rng, p, i, name, locs[i], per[i], [u for (_, u) in other[i]])
        # a use of v placed into method j mentions j's own local of that name, if it has one
        for (v, _) in other[i]:
            for w in locs[i]:
                if w.lower() == v.lower():
                    p.expect[(name, w)] = True
        p.items.append(mitem)
        p.items += after
    if topdecls:
        for _ in range(rng.choice([0, 1, 2])):
            p.items.append(("d", rng.choice(TOPDECLS).format(n=len(p.items))))
    return p


def generator_expectation(p, text):
    """the verdicts the generator knows, as canonical warnings (positions found in the text)"""
    exp = Counter()
    toks = tokenize(text)
    for it in split_items(toks):
        if it[0] != "m":
            continue
        body = it[2]
        for i, (k, s, l, c) in enumerate(body):
            if k == "id" and s.lower() == "var" and (i == 0 or body[i - 1][2] != l):
                v = body[i + 1]
                if not p.expect[(it[3], v[1])]:
                    exp["2:U:%d:%d:%d:%d:%s" % (v[2], v[3], v[2], v[3] + len(v[1]), cps(v[1].lower()))] += 1
    return exp


def transfer(tok, fresh):
    return "".join(f.upper() if t.isupper() else f for t, f in zip(tok, fresh))


def rename_text(text, old, fresh):
    """rename identifier `old` (all its spellings, case pattern preserved) to `fresh` (same length); strings and comments untouched"""
    out, pos = [], 0
    for m in TOK.finditer(text):
        if m.lastgroup == "id" and m.group().lower() == old.lower():
            out.append(text[pos:m.start()]); out.append(transfer(m.group(), fresh)); pos = m.end()
    out.append(text[pos:])
    return "".join(out)


def fresh_name(rng, text, n):
    used = set(t[1].lower() for t in tokenize(text) if t[0] == "id")
    for _ in range(200):
        f = "".join(rng.choice("qzjwvkhu") for _ in range(n))
        if f not in used and f not in ("if", "in", "to", "of", "or", "by", "var", "for", "end", "not", "nil", "xor", "and", "top"):
            return f
    return None


def malformed(rng, text):
    """damaged programs: only model = implementation is checked on these"""
    lines = text.split("\n")
    k = rng.randrange(6)
    if k == 0 and len(lines) > 2:
        del lines[rng.randrange(len(lines))]
    elif k == 1 and len(lines) > 2:
        i = rng.randrange(len(lines)); lines.insert(i, lines[rng.randrange(len(lines))])
    elif k == 2:
        lines = lines[:rng.randrange(1, len(lines) + 1)]
    elif k == 3:
        i = rng.randrange(len(lines)); lines[i] = lines[i][:rng.randrange(len(lines[i]) + 1)]
    elif k == 4:
        lines.insert(rng.randrange(len(lines) + 1), rng.choice(["endproc", "endif", ")", "var", "proc", "var x : ", ". . x", "x.", "'", "proc q(", "func", "endRecord", "when 1", "a.b.c.d.e = a.b.c", "@", "x = = 1"]))
    else:
        i = rng.randrange(len(lines)); j = rng.randrange(len(lines)); lines[i], lines[j] = lines[j], lines[i]
    return "\n".join(lines)


# hand-written programs.  REGRESSION: the minimal texts of the repaired findings (known_findings.json "fixed" and the
# five repaired by tools/c15_proposed_fix.diff); they run first and must satisfy the oracle with no deviation.
REGRESSION = [
    "proc p\n var x : int4\n X = 1\nendproc",          # e5fd419: a use in another letter case counts
    "proc p\n var s : int4\n foo('s')\nendproc",       # 993bb42: the content of a string literal does not
    "proc p\n var A : int4\nendproc\ntype t : 'A' to 'Z'",   # ... nor in a declaration that follows the method
    "proc p\n var Flag : int4\n var flag : int4\nendproc",   # case variants are ONE name: the second is a duplicate
    # trailing-toplevel-terminal-charged-to-previous-method
    "proc p\n var x : int4\nendproc\nmemory f : int4 absolute x\nproc q\nendproc",
    "proc p\n var x : int4\nendproc\nproc q\nendproc\nmemory f : int4 absolute x",
    "proc p\n var x : int4\nendproc\ntype tSub : record (x)\n   fc : int4\nendRecord",
    # use-before-declaration-not-counted
    "proc p\n x = 1\n var x : int4\nendproc",
    "proc p\n if cnd\n  foo(X)\n endif\n var x : int4\nendproc",
    # callee-name-not-counted
    "proc p\n var x : int4\n x(1)\nendproc",
    "proc p\n var x : int4\n hlp = X()\nendproc",
    "proc p\n var x : int4\n self.x(1)\nendproc",          # ... but a called member is a member name
    # for-counter-not-counted
    "proc p\n var x : int4\n for x = 1 to 3\n  foo()\n endfor\nendproc",
    # indexed-member-counts-as-use
    "proc p\n var x : int4\n self.x[1] = 2\nendproc",
    "proc p\n var x : int4\n hlp = ob.x[0].fld\nendproc",
    # the header of a method is not one of its statements
    "proc x\n var x : int4\nendproc",
    "proc p(x : int4)\n var x : int4\nendproc",
    "func X(inOut x : CString) return int4\n var x : int4\n return 1\nendfunc",
]

# the trees of Properties/C15.v (Proofs/UnusedVarWitness.v holds the dumps of exactly these texts):
# (name, text, sorted diagnostics of the code, sorted diagnostics of the analyser BEFORE the repair = Model analyze_old)
WITNESSES = [
    ("w_ok", "class aC (aP)\n\nmemory g : int4\n\nproc p(a : int4)\n var x : int4\n var y : int4\n var z : int4\n y = a + 1\n self.x = y\n if y > 0\n  z.foo(1)\n endif\nendproc\n\nfunc f return int4\n var x : int4\n var w : int4\n return x\nendfunc\n",
     "2:U:17:5:17:6:119;2:U:5:5:5:6:120", "2:U:17:5:17:6:119;2:U:5:5:5:6:120"),
    ("w_order", "proc p\n x = 1\n var x : int4\nendproc", "", "2:U:2:5:2:6:120"),
    ("w_dup", "proc p\n var x : int4\n var x : int4\nendproc", "1:D:2:5:2:6:-;2:U:1:5:1:6:120", "1:D:2:5:2:6:-;2:U:1:5:1:6:120"),
    ("w_trail", "proc p\n var x : int4\nendproc\nproc q\nendproc\nmemory f : int4 absolute x", "2:U:1:5:1:6:120", "2:U:1:5:1:6:120"),
    ("w_trail_perm", "proc p\n var x : int4\nendproc\nmemory f : int4 absolute x\nproc q\nendproc", "2:U:1:5:1:6:120", ""),
    ("w_callee", "proc p\n var x : int4\n x(1)\nendproc", "", "2:U:1:5:1:6:120"),
    ("w_forctr", "proc p\n var x : int4\n for x = 1 to 3\n  foo()\n endfor\nendproc", "", "2:U:1:5:1:6:120"),
    ("w_indexed", "proc p\n var x : int4\n self.x[1] = 2\nendproc", "2:U:1:5:1:6:120", ""),
    ("w_hdr_name", "proc x\n var x : int4\nendproc", "2:U:1:5:1:6:120", "2:U:1:5:1:6:120"),
    ("w_hdr_param", "proc p(x : int4)\n var x : int4\nendproc", "2:U:1:5:1:6:120", "2:U:1:5:1:6:120"),
    ("w_member_call", "proc p\n var x : int4\n self.x(1)\nendproc", "2:U:1:5:1:6:120", "2:U:1:5:1:6:120"),
    ("w_mixed", "proc p\n var a : int4\n var b : int4\n var c : int4\n var d : int4\n for A = 1 to 3\n  ob.a(B).c[d] = 1\n endfor\nendproc",
     "2:U:3:5:3:6:99", "2:U:1:5:1:6:97"),
]


def gen_cases(ctx):
    rng = random.Random(ctx.seed)
    cases, meta = [], {}          # meta[case] = dict(kind, base, ...)

    def add(text, **m):
        c = enc(text)
        if c not in meta:
            meta[c] = m
            cases.append(c)
        return c

    def add_with_variants(p):
        text = p.render()
        ge = generator_expectation(p, text)
        oe, dups = analyse(text)
        if ge != oe or dups:
            raise RuntimeError("generator and text-level oracle disagree on the expected verdicts:\n%s\ngenerator %r\noracle %r" % (text, ge, oe))
        base = add(text, kind="base")
        nm = p.n_methods()
        if nm > 1:
            order = list(range(nm))
            while order == list(range(nm)):
                rng.shuffle(order)
            add(p.render(order), kind="perm", base=base)
        ids = sorted(set(v for (_, v) in p.expect))
        if ids:
            old = rng.choice(ids)
            fresh = fresh_name(rng, text, len(old))
            if fresh and all(ch.isalpha() for ch in old):
                add(rename_text(text, old, fresh), kind="rename", base=base, old=old, fresh=fresh)

    for text in REGRESSION:
        add(text, kind="base")
    for (_, text, _, _) in WITNESSES:
        add(text, kind="base")
    # exhaustive: one method, one local, every category; every ordered pair of categories in one method;
    # every ordered pair of categories split over two methods
    for c in CATS:
        for rep in range(3):
            add_with_variants(gen_program(rng, CATS, nm=1, fixed=[[c]], topdecls=False))
    for c1 in CATS:
        for c2 in CATS:
            add_with_variants(gen_program(rng, CATS, nm=1, fixed=[[c1, c2]], topdecls=False))
            add_with_variants(gen_program(rng, CATS, nm=2, fixed=[[c1], [c2]], topdecls=rng.random() < .5))
    nb = 450 if ctx.quick else 14000
    for i in range(nb):
        pool = BASE_CATS if i % 3 == 0 else CATS
        add_with_variants(gen_program(rng, pool))
    nmal = 250 if ctx.quick else 5000
    bases = [c for c in cases if meta[c]["kind"] == "base"]
    for _ in range(nmal):
        add(malformed(rng, dec(rng.choice(bases))), kind="malformed")
    return cases, meta


# ---------------------------------------------------------------------------------------------
# oracle / known / shrinker
# ---------------------------------------------------------------------------------------------

def method_of_line(text):
    """line -> method name, from the text-level segmentation"""
    r = {}
    for it in split_items(tokenize(text)):
        if it[0] == "m":
            toks = it[1] + it[2]
            for l in range(toks[0][2], toks[-1][2] + 2):
                r[l] = it[3]
    return r


def warned(text, impl_out):
    """multiset of (method name, key) of the implementation's warnings"""
    ds, _ = parse_out(impl_out)
    mol = method_of_line(text)
    return Counter((mol.get(int(d.split(":")[2]), "?"), norm(d).split(":")[6]) for d in ds if d.split(":")[1] == "U")


def make_hooks(ctx, meta):
    seen = {}
    open_ids = [f.get("id") for f in ctx.open_findings() if f.get("id") in DEVS]      # DEVS is empty: no deviation is explained
    open_devs = frozenset(DEVS[i] for i in open_ids)

    def relational(case, impl_out, m):
        base = m["base"]
        if base not in seen or seen[base].startswith("PANIC") or impl_out.startswith("PANIC"):
            return None
        btext, text = dec(base), dec(case)
        if m["kind"] == "perm":
            a, b = warned(btext, seen[base]), warned(text, impl_out)
            if a != b:
                d = sorted(((a - b) + (b - a)).elements())[0]
                return "permuting the methods changes the warnings of method %s: local `%s` (before: %d, after: %d)" % (d[0], dec(d[1]) if d[1] != "-" else "", a[d], b[d])
        elif m["kind"] == "rename":
            old, fresh = m["old"], m["fresh"]
            bd, _ = parse_out(seen[base])
            vd, _ = parse_out(impl_out)
            exp = []
            for d in bd:
                f = d.split(":")
                if f[1] == "U" and f[6] != "-" and dec(f[6]).lower() == old.lower():
                    f[6] = cps(transfer(dec(f[6]), fresh))
                exp.append(":".join(f))
            if sorted(map(norm, exp)) != sorted(map(norm, vd)):
                return "renaming `%s` to `%s` everywhere changes more than the name in the warnings: before %s, after %s" % (old, fresh, seen[base], impl_out)
        return None

    def oracle(case, impl_out):
        m = meta.get(case, {"kind": "shrunk"})
        seen[case] = impl_out
        if m["kind"] == "malformed":
            return None
        r = judge(dec(case), impl_out)
        if r is None and m["kind"] in ("perm", "rename"):
            r = relational(case, impl_out, m)
        return r

    def known(case, impl_out, model_out):
        if not open_devs:
            return None
        m = meta.get(case, {"kind": "shrunk"})
        if m["kind"] == "malformed":
            return None
        text = dec(case)
        if judge(text, impl_out) is None:
            # the case itself is as the property requires, only its relation to the base program fails:
            # then the base's own output deviates; explained iff that deviation is
            if m["kind"] in ("perm", "rename") and m["base"] in seen:
                text, impl_out = dec(m["base"]), seen[m["base"]]
                if judge(text, impl_out) is None:
                    return None
            else:
                return None
        if judge(text, impl_out, open_devs) is not None:
            return None
        need = list(open_ids)
        for i in list(need):
            rest = frozenset(DEVS[j] for j in need if j != i)
            if judge(text, impl_out, rest) is None:
                need.remove(i)
        descs = ["%s: %s" % (i, DEV_WHAT[i]) for i in need]
        for d in descs[1:]:
            ctx.known(d)
        return descs[0] if descs else None

    return oracle, known


OPEN = re.compile(r"^\s*(if|for|foreach|while|loop|repeat|switch|when)\b", re.I)
CLOSE = re.compile(r"^\s*(endif|endfor|endwhile|endloop|until|endswitch|endwhen)\b", re.I)
MID = re.compile(r"^\s*(else|elseif)\b", re.I)


def shrinker(case):
    text = dec(case)
    lines = text.split("\n")
    # whole top-level items
    spans, i = [], 0
    while i < len(lines):
        w = lines[i].strip().split("(")[0].split(" ")[0].lower()
        if w in M_START:
            j = i
            while j < len(lines) and lines[j].strip().lower() not in M_END:
                j += 1
            spans.append((i, min(j, len(lines) - 1))); i = j + 1
        elif lines[i].strip().lower().startswith("type") and "record" in lines[i].lower():
            j = i
            while j < len(lines) and not lines[j].strip().lower().startswith("endrecord"):
                j += 1
            spans.append((i, min(j, len(lines) - 1))); i = j + 1
        else:
            spans.append((i, i)); i += 1
    for (a, b) in spans:
        if len(spans) > 1:
            yield enc("\n".join(lines[:a] + lines[b + 1:]))
    # inside methods: balanced blocks, then single simple lines
    for i, l in enumerate(lines):
        if OPEN.match(l) and not l.strip().lower().startswith("when"):
            depth, j = 0, i
            while j < len(lines):
                if OPEN.match(lines[j]) and not lines[j].strip().lower().startswith("when"):
                    depth += 1
                if CLOSE.match(lines[j]) and not lines[j].strip().lower().startswith("endwhen"):
                    depth -= 1
                    if depth == 0:
                        break
                j += 1
            if j < len(lines):
                yield enc("\n".join(lines[:i] + lines[j + 1:]))
    for i, l in enumerate(lines):
        s = l.strip().lower()
        w = s.split("(")[0].split(" ")[0]
        if s == "" or OPEN.match(l) or CLOSE.match(l) or MID.match(l) or w in M_START or s in M_END or s.startswith("endrecord") or s.startswith("type"):
            continue
        yield enc("\n".join(lines[:i] + lines[i + 1:]))


def nontrivial_of(meta):
    def nontrivial(case):
        if meta.get(case, {}).get("kind") == "malformed":
            return False
        text = dec(case)
        return bool(re.search(r"(?im)^\s*var\s+\w+\s*:", text)) and bool(re.search(r"(?im)^\s*(proc|procedure|func|function)\b", text))
    return nontrivial


def describe(case):
    return dec(case)


# ---------------------------------------------------------------------------------------------
# the check
# ---------------------------------------------------------------------------------------------

PENDING = []


def fail(ctx, what, payload):
    """a stage broke without a failing input of the PROPERTY (spec vs oracle, an engine failure): kept pending while the
    later stages search for a concrete input; raised at the end when they find none"""
    if not PENDING:
        path = core.write_replay(ctx.pid, ctx.seed, dict(payload, broken=what, engine="unusedvar"))
        PENDING.append(core.Violation(what, path, False))


def correspondence(ctx, broken_obligations=()):
    del PENDING[:]
    hb = diff.Engines.harness()
    mb = diff.Engines.model()
    cases, meta = gen_cases(ctx)
    # damaged programs on which the real lexer/parser panics belong to C04, not here
    mal = [c for c in cases if meta[c]["kind"] == "malformed"]
    outs = core.run_lines(hb, "unusedvar", mal)
    dropped = set(c for c, o in zip(mal, outs) if o.startswith("PANIC") or o == "CRASH")
    cases = [c for c in cases if c not in dropped]

    # 1. the tree-level Coq specification means what the property says: on every well-formed generated program,
    #    unused_spec (extracted) = the text-level oracle's warnings and dup_spec = its repeated declarations, exactly;
    #    every tree the real parser builds (damaged programs included) has its method nodes at top level (top_flat:
    #    the shape under which `all_methods` of the theorems is "the root's method children");
    #    the analyser before the repair (Model analyze_old, the C15_old_*_refuted theorems) still is what the text-level
    #    oracle says under the five old deviations
    valid = [c for c in cases if meta[c]["kind"] != "malformed"]
    io = core.run_lines(hb, "unusedvar", cases)
    so = core.run_lines(mb, "unusedvarspec", [o.split("#", 1)[0] for o in io])
    old_devs = frozenset(OLD_DEVS.values())
    flat_hist, spec_cases, old_checked = Counter(), [], 0
    for c, o, s in zip(cases, io, so):
        if s.count("|") != 3:
            fail(ctx, "engine unusedvarspec failed", dict(case=c, case_readable=dec(c), model=s))
            continue
        flat, spec, dspec, old = s.split("|")
        flat_hist[flat] += 1
        text = dec(c)
        if flat != "1":
            fail(ctx, "a tree of the real parser with a method node that is not a child of the root (top_flat)",
                 dict(case=c, case_readable=text, model=s))
        if meta[c]["kind"] == "malformed":
            continue
        exp, dups = analyse(text)
        spec_c = Counter(norm(d) for d in spec.split(";") if d)
        if spec_c != exp:
            fail(ctx, "the tree-level specification (unused_spec) and the property stated on the text disagree",
                 dict(case=c, case_readable=text, model=spec, expected=sorted(exp.elements())))
        dspec_c = Counter((int(d.split(":")[2]), int(d.split(":")[3])) for d in dspec.split(";") if d)
        if dspec_c != dups:
            fail(ctx, "the tree-level specification of the repeated declarations (dup_spec) and the text-level oracle disagree",
                 dict(case=c, case_readable=text, model=dspec, expected=sorted(dups.elements())))
        spec_cases.append((c, o, spec, dspec))
        if not dups:
            old_checked += 1
            oexp, _ = analyse(text, old_devs)
            old_c = Counter(norm(d) for d in old.split(";") if d)
            if old_c != oexp:
                fail(ctx, "the model of the analyser before the repair (analyze_old) is not what the text-level oracle says under the five old deviations",
                     dict(case=c, case_readable=text, model=old, expected=sorted(oexp.elements())))
    # 2. differential + the property's oracle on the implementation's own output
    oracle, known = make_hooks(ctx, meta)
    kinds = Counter(meta[c]["kind"] for c in cases)
    extra = dict(
        rule=("generated Gold files: 1..8 methods (proc/func, with/without parameters, modifiers), 0..6 locals each, each local in one of %d use "
              "categories (%s); top-level declarations before/between/after the methods; every single category x3, every ordered pair of "
              "categories in one method and split over two methods (exhaustive), then %d random programs; for every program one method "
              "permutation and one consistent renaming (same-length fresh name, all spellings); %d damaged programs (model = implementation only; "
              "%d more dropped because the real parser panics on them: C04); first the regression texts of the repaired findings, then the hand-written witnesses. Non-trivial = has a method and a local declaration. "
              "Expected verdicts: computed by the generator from the category AND independently from the text by a token-level statement of the property; "
              "both must agree before a case is used."
              % (len(CATS), ", ".join(CATS), 450 if ctx.quick else 14000, kinds["malformed"], len(dropped))),
        exhaustive=True, case_kinds=dict(kinds), witnesses_replayed=[w[0] for w in WITNESSES],
        regression_corpus=REGRESSION,
        refuted=["C15_old_trailing_refuted", "C15_old_use_before_decl_refuted", "C15_old_callee_refuted",
                 "C15_old_for_counter_refuted", "C15_old_indexed_member_refuted"],
        top_flat_histogram=dict(flat_hist), spec_vs_text_oracle_checked=len(spec_cases), old_model_vs_old_oracle_checked=old_checked,
        samples=[dec(cases[len(WITNESSES) + len(REGRESSION) + 5]), dec([c for c in cases if meta[c]["kind"] == "base"][-1])[:1500],
                 dec([c for c in cases if meta[c]["kind"] == "malformed"][0])[:600]])
    try:
        cov = diff.differential(ctx, "unusedvar", cases, split=lambda out: tuple(out.split("#", 1)), oracle=oracle, known=known,
                                shrinker=shrinker, nontrivial=nontrivial_of(meta), describe=describe)
    except core.Violation as v:
        v.coverage = dict(getattr(v, "coverage", {}) or {}, **extra)
        if v.found_input or not PENDING:
            raise
        cov = dict(v.coverage)
    cov.update(extra)

    # 3. the trees of Properties/C15.v still behave as recorded: the code and the model as the regression examples say,
    #    the model of the analyser before the repair as the C15_old_*_refuted theorems say
    wt = [enc(t) for (_, t, _, _) in WITNESSES]
    wo = core.run_lines(hb, "unusedvar", wt, shards=1)
    wm = core.run_lines(mb, "unusedvar", [o.split("#", 1)[0] for o in wo], shards=1)
    ws = core.run_lines(mb, "unusedvarspec", [o.split("#", 1)[0] for o in wo], shards=1)
    for (name, text, exp, old), o, m, sp in zip(WITNESSES, wo, wm, ws):
        got = o.split("#", 1)[1] if "#" in o else o
        if got != exp or m != exp:
            fail(ctx, "witness %s of Properties/C15.v no longer behaves as recorded (the model must follow the code)" % name,
                 dict(case=enc(text), case_readable=text, observed=got, model=m, expected=exp))
        if sp.split("|")[-1] != old:
            fail(ctx, "witness %s of Properties/C15.v: the model of the analyser before the repair no longer behaves as recorded" % name,
                 dict(case=enc(text), case_readable=text, model=sp, expected=old))

    # 4. theorems C15_unused_exact / C15_duplicates_exact, executed: on every well-formed case the real analyser's
    #    warnings are unused_spec and its errors dup_spec (no guard)
    for (c, o, spec, dspec) in spec_cases:
        ds = [d for d in o.split("#", 1)[1].replace("!POS", "").split("!DIRECT[")[0].split(";") if d]
        impl_u = sorted(d for d in ds if d.split(":")[1] == "U")
        impl_d = sorted(d for d in ds if d.split(":")[1] == "D")
        if impl_u != sorted(d for d in spec.split(";") if d) or impl_d != sorted(d for d in dspec.split(";") if d):
            fail(ctx, "a tree on which the analyser's diagnostics differ from unused_spec / dup_spec (theorems C15_unused_exact, C15_duplicates_exact)",
                 dict(case=c, case_readable=dec(c), observed=o.split("#", 1)[1], model=spec + "|" + dspec))
    if PENDING:
        PENDING[0].coverage = cov
        raise PENDING[0]
    return cov


def replay(ctx, rep):
    case = rep["case"]
    hb = diff.Engines.harness()
    mb = diff.Engines.model()
    out = core.run_lines(hb, "unusedvar", [case], shards=1)[0]
    dump, obs = out.split("#", 1) if "#" in out else ("", out)
    mod = core.run_lines(mb, "unusedvar", [dump], shards=1)[0]
    r = judge(dec(case), obs)
    print("case:\n" + dec(case)); print("implementation:", obs); print("model:", mod)
    print("oracle:", r or "property holds on this case")
    if r or obs != mod:
        print("VIOLATION property=C15 replay=%s" % rep.get("how_to_rerun", "").split()[-1])
        return 1
    return 0
