"""C03  Concurrent requests and changes never corrupt each other's answers."""
from collections import Counter
import itertools, os, random, shutil, tempfile, time
from concurrent.futures import ThreadPoolExecutor
from vlib import core, diff, lsp

MANIFEST = dict(
    engine="E-sched",
    technique="Coq proof: invariant over all interleavings of the notification handlers' critical sections with any number of reading requests (position predicates per handler + global invariant); forced schedules at the cfg-guarded yield points on the real code + randomised pipelined stress against the real binary",
    text=("Theorem C03_linearizable (all initial cache states, all sequences of change/save/close notifications, any number of concurrent requests, "
          "ALL interleavings): every request is answered from the logical version when no notification is in progress and from the version before or "
          "after the notification in progress otherwise; the handler before the repair is refuted by a 5-step schedule (stale on-disk copy). Tie to the "
          "code: (A) hooks build of the harness: every scenario x request kind forces the ordering at one of the four yield points (change handler "
          "between reset and install; analyze_uri after the cache check; annotate_doc after publishing the tree; get_parsed_document between the read "
          "and the write lock): the version each answer was computed from (readable off the answer) must equal the model's for that schedule, and "
          "each answer must equal the answer of the same request alone on that version (no half-analysed document, no mixture); (B) black box: bursts "
          "of 2..8 pipelined requests of mixed kinds overlapping a didChange against the real binary: every response must equal the response of the "
          "same request sent alone to a fresh server holding the version before or the version after the change."),
    note="Partial: interleavings INSIDE a lock-protected region are atomic in the model; that an answer computed from version v equals the lone answer on v is checked on the code (A, B), not proved; OS schedules are sampled in (B).",
    design="6 C03",
    engines=[dict(name="E-sched", path="harness/src/eng_sched.rs (hooks build) + coq/extract/eng_sched.ml + vlib/lsp.py",
                  kind_free_text="forced schedules at yield points in-process; pipelined stress against the real binary; model: extracted Sched.run")],
)
MANIFEST["text"] += ' Fourth session: sixth yield point (between the lint walk and taking the collected diagnostics) with forced schedules of two diagnostics requests around it.'

ASSUMPTIONS = [
    "critical sections (regions under the DocumentInfo write lock) are atomic steps of the model",
    "documentSymbol is served on the main thread and cannot overlap a notification",
    "std::sync::RwLock / Mutex semantics",
]

KINDS = ["completion", "diagnostics", "definition"]
# scenario -> model case (state; notifications; schedule with the second thread placed where the hook parks the first)
MODEL = {
    "change_window": "1 - 0;c2;MMMRMMR",      # main: begin, wlock, reset | reader blocked | install, unlock | reader
    "analyze_pair": "1 - 0;;RR",
    "publish_pair": "1 - 0;;RR",
    "parse_pair": "- - 0;;RR",
}


def text(k):
    return "\n" * k + "class aDoc (aBase)\nF_v%d : int4\nproc Work\n  var u_v%d : int4\n  var t : aBase\n  t.B0 = self.F_v%d\n  self.\nendproc\n" % (k, k, k)


def req_params(kind, uri, k):
    if kind == "textDocument/completion":
        return {"textDocument": {"uri": uri}, "position": {"line": k + 6, "character": 7}}
    if kind == "textDocument/definition":
        return {"textDocument": {"uri": uri}, "position": {"line": k + 5, "character": 17}}
    if kind == "textDocument/prepareTypeHierarchy":
        return {"textDocument": {"uri": uri}, "position": {"line": k, "character": 8}}
    return {"textDocument": {"uri": uri}}


BB_KINDS = ["textDocument/completion", "textDocument/definition", "textDocument/diagnostic", "textDocument/prepareTypeHierarchy"]


def canon(resp):
    import json
    if resp is None:
        return "NO-RESPONSE"
    if "error" in resp:
        return "error"
    def norm(x):
        if isinstance(x, list):
            return sorted((norm(i) for i in x), key=lambda v: json.dumps(v, sort_keys=True))
        if isinstance(x, dict):
            return {k: norm(v) for k, v in x.items()}
        return x
    return json.dumps(norm(resp.get("result")), sort_keys=True)


def solo_answers(binary, root, uri, ver, reqs):
    """answers of each request alone, on a fresh server whose document holds version `ver`"""
    s = lsp.Session(binary, root)
    s.initialize(root)
    s.notify("textDocument/didChange", {"textDocument": {"uri": uri, "version": 1}, "contentChanges": [{"text": text(ver)}]})
    out = {}
    for i, (kind, pos_ver) in enumerate(reqs):
        s.request(100 + i, kind, req_params(kind, uri, pos_ver))
        out[(kind, pos_ver)] = canon(s.wait_response(100 + i, 20))
    s.shutdown_exit(999, 20)
    return out


def stress_one(binary, seed):
    rng = random.Random(seed)
    root = tempfile.mkdtemp(prefix="goldverif-c03-")
    try:
        open(os.path.join(root, "aBase.god"), "w").write("class aBase\nB0 : int4\n")
        open(os.path.join(root, "aDoc.god"), "w").write(text(0))
        uri = lsp.file_uri(os.path.join(root, "aDoc.god"))
        n = rng.randint(2, 8)
        # positions are version dependent: each request is sent with the position for version 1 or 2
        reqs = [(rng.choice(BB_KINDS), rng.choice([1, 2])) for _ in range(n)]
        change_at = rng.randint(0, n)
        s = lsp.Session(binary, root)
        s.initialize(root)
        s.notify("textDocument/didChange", {"textDocument": {"uri": uri, "version": 1}, "contentChanges": [{"text": text(1)}]})
        s.request(50, "textDocument/documentSymbol", {"textDocument": {"uri": uri}})
        s.wait_response(50, 20)
        for i, (kind, pv) in enumerate(reqs):
            if i == change_at:
                s.notify("textDocument/didChange", {"textDocument": {"uri": uri, "version": 2}, "contentChanges": [{"text": text(2)}]})
            s.request(100 + i, kind, req_params(kind, uri, pv))
        if change_at == n:
            s.notify("textDocument/didChange", {"textDocument": {"uri": uri, "version": 2}, "contentChanges": [{"text": text(2)}]})
        got = [canon(s.wait_response(100 + i, 30)) for i in range(n)]
        _, rc = s.shutdown_exit(999, 30)
        if s.panicked() or rc != 0:
            return dict(seed=seed, bad="server panicked or did not exit cleanly (rc=%r)" % (rc,), reqs=reqs, change_at=change_at)
        before = solo_answers(binary, root, uri, 1, reqs)
        after = solo_answers(binary, root, uri, 2, reqs)
        for i, (kind, pv) in enumerate(reqs):
            ok = [before[(kind, pv)]] if i < change_at else []
            ok.append(after[(kind, pv)])
            if i < change_at:
                pass
            if got[i] not in (before[(kind, pv)], after[(kind, pv)]) or (i >= change_at and got[i] != after[(kind, pv)]):
                return dict(seed=seed, bad="response #%d (%s) equals neither the lone answer before nor after the change%s" %
                            (i, kind, "" if i < change_at else " (it was sent after the change: must be the answer after)"),
                            reqs=reqs, change_at=change_at, got=got[i][:400], before=before[(kind, pv)][:400], after=after[(kind, pv)][:400])
        return dict(seed=seed, reqs=reqs, change_at=change_at, n=n)
    finally:
        shutil.rmtree(root, ignore_errors=True)


def big_text(k, pad):
    """version k of the document followed by `pad` further methods: a file whose parse takes long enough to overlap"""
    return text(k) + "".join("proc Pad%d\n  x = %d + (a.b[%d] * 3)\n  if x > 1\n    y = x\n  endif\nendproc\n" % (j, j, j) for j in range(pad))


def stress_save(binary, seed):
    """requests on a document that is NOT open, overlapping a rewrite of its file + didSave (which re-indexes the
    workspace): each response must be the lone answer for the old or for the new file, and once everything has
    settled a further request must be answered exactly as a fresh server on the files as they are now"""
    rng = random.Random(seed)
    root = tempfile.mkdtemp(prefix="goldverif-c03s-")
    try:
        pad = rng.choice([0, 50, 400, 1500])
        nfill = rng.choice([0, 20, 300])
        open(os.path.join(root, "aBase.god"), "w").write("class aBase\nB0 : int4\n")
        for j in range(nfill):
            open(os.path.join(root, "aFill%d.god" % j), "w").write("class aFill%d (aBase)\nQ%d : int4\n" % (j, j))
        path = os.path.join(root, "aDoc.god")
        open(path, "w").write(big_text(0, pad))
        uri = lsp.file_uri(path)
        # documentSymbol is served on the main thread: it overlaps the WORKERS that are parsing the same uncached document
        kinds = ["textDocument/completion", "textDocument/definition", "textDocument/diagnostic", "textDocument/documentSymbol"]
        n = rng.randint(1, 5)
        reqs = [(rng.choice(kinds), rng.choice([0, 2])) for _ in range(n)]
        save_other = rng.random() < 0.3          # the save is about another file: only the re-indexing overlaps
        s = lsp.Session(binary, root)
        s.initialize(root)
        if rng.random() < 0.7:
            time.sleep(rng.choice([0.05, 0.3]))
        for i, (kind, pv) in enumerate(reqs):
            s.request(100 + i, kind, req_params(kind, uri, pv))
        time.sleep(rng.choice([0.0, 0.001, 0.003, 0.01, 0.03]))
        if save_other:
            s.notify("textDocument/didSave", {"textDocument": {"uri": lsp.file_uri(os.path.join(root, "aBase.god"))}})
            final = 0
        else:
            # atomically (write aside + rename): a reader must see the old or the new file, never a truncated one
            with open(path + ".tmp", "w") as f:
                f.write(big_text(2, pad))
            os.replace(path + ".tmp", path)
            s.notify("textDocument/didSave", {"textDocument": {"uri": uri}})
            final = 2
        got = [canon(s.wait_response(100 + i, 60)) for i in range(n)]
        # settled: one more round, sequentially
        late = []
        for i, kind in enumerate(kinds):
            s.request(200 + i, kind, req_params(kind, uri, final))
            late.append(canon(s.wait_response(200 + i, 60)))
        _, rc = s.shutdown_exit(999, 30)
        if s.panicked() or rc != 0:
            return dict(seed=seed, mode="save", bad="server panicked or did not exit cleanly (rc=%r)" % (rc,), reqs=reqs)

        def fresh(ver, rs):
            open(path, "w").write(big_text(ver, pad))
            f = lsp.Session(binary, root)
            f.initialize(root)
            time.sleep(0.2)
            out = []
            for i, (kind, pv) in enumerate(rs):
                f.request(300 + i, kind, req_params(kind, uri, pv))
                out.append(canon(f.wait_response(300 + i, 60)))
            f.shutdown_exit(998, 30)
            return out
        after = fresh(final, reqs + [(k, final) for k in kinds])
        before = fresh(0, reqs) if final != 0 else after[:n]
        for i in range(n):
            if got[i] not in (before[i], after[i]):
                return dict(seed=seed, mode="save", reqs=reqs, pad=pad, fillers=nfill, save_other=save_other,
                            bad="response #%d (%s) overlapping the save equals neither the lone answer for the old file nor for the new one" % (i, reqs[i][0]),
                            got=got[i][:400], before=before[i][:400], after=after[i][:400])
        for i, kind in enumerate(kinds):
            if late[i] != after[n + i]:
                return dict(seed=seed, mode="save", reqs=reqs, pad=pad, fillers=nfill, save_other=save_other,
                            bad="after the save had been processed and all overlapping requests answered, %s is not answered as a fresh server on the current files answers it (something stale was kept)" % kind,
                            got=late[i][:400], after=after[n + i][:400])
        return dict(seed=seed, mode="save", reqs=reqs, change_at=-1, n=n, pad=pad, fillers=nfill)
    finally:
        shutil.rmtree(root, ignore_errors=True)


def correspondence(ctx, broken_obligations=()):
    cov = {}
    # (A) forced schedules on the hooks build
    hb = diff.Engines.harness(hooks=True)
    mb = diff.Engines.model()
    cases = ["%s;%s" % (s, k) for s in MODEL for k in KINDS]
    reps = 2 if ctx.quick else 10
    cases = cases * reps
    # two parked requests: every pair of request-side yield points x both release orders x both start states
    # (hooks 0..3 = analyze:after_cache_check, annotate:after_publish_tree, doc:between_read_and_write_lock,
    #  entity:between_lookup_and_insert); a request that blocks before its yield point is simply not parked
    two = ["two:%s:%d:%d:%s;%s" % (st, a, b, o, k) for st in ("fresh", "changed") for a in range(4) for b in range(4)
           for o in ("ab", "ba") for k in KINDS]
    # the same with the change notification (installing version 2) as the second thread, parked inside its critical
    # section or not at all: the request may be answered from version 1 or 2, and everything must return
    twoc = ["two:changed:%d:%d:%s:c;%s" % (a, b, o, k) for a in range(4) for b in (4, 3) for o in ("ab", "ba") for k in KINDS]
    # hook 5 = diag:between_lint_walk_and_take: a diagnostics request parked after its walk over the annotated tree, with
    # its findings collected but not yet taken, while another diagnostics request runs (to the same point or to the end)
    twod = ["two:%s:%d:%d:%s;diagnostics" % (st, a, b, o) for st in ("fresh", "changed")
            for (a, b) in ((5, 5), (5, 0), (0, 5), (5, 1), (1, 5), (5, 2), (2, 5)) for o in ("ab", "ba")]
    cases = cases + (two + twoc + twod) * (1 if ctx.quick else 3)

    def model_case(c):
        sc = c.split(";")[0]
        if sc.startswith("two:"):
            return MODEL["parse_pair"] if sc.split(":")[1] == "fresh" else MODEL["analyze_pair"]
        return MODEL[sc]
    outs = core.run_lines(hb, "sched", cases, shards=min(core.NCPU, len(cases)))
    preds = core.run_lines(mb, "sched", [model_case(c) for c in cases], shards=1)
    for c, o, p in zip(cases, outs, preds):
        bad = None
        if o.startswith("HANG"):
            bad = "forced schedule %s: a request or the change notification never returned (%s)" % (c, o)
        elif o.startswith(("PANIC", "CRASH", "SETUP-BAD", "NOHOOKS", "BAD")):
            bad = "forced-schedule engine: " + o
        else:
            fields = dict(f.split("=") for f in o.split())
            if fields.get("hook") != "true" and not c.startswith("two:"):
                bad = "the yield point of scenario %s was never reached: the hook or the code path is gone" % c
            else:
                model_versions = [a.split(":")[0] for a in p.split()]
                acceptable = [a.split(":")[1].split("/") for a in p.split()]
                got = [fields[k].split("/") for k in ("r1", "r2") if k in fields]
                got_versions = [g[0] for g in got]
                # the model lists every read; in change_window only the second thread is a request
                if c.startswith("change_window"):
                    model_versions, acceptable = model_versions[-1:], acceptable[-1:]
                if c.split(";")[0].endswith(":c"):
                    # the request overlaps the change: before or after (Sched.v: C03_linearizable), nothing else
                    acceptable, model_versions = [["1", "2"]], got_versions
                for (v, same), acc in zip(got, acceptable):
                    if v not in acc:
                        bad = "a request overlapping %s was answered from version %s; acceptable: %s" % (c.split(";")[0], v, "/".join(acc))
                    elif same != "true":
                        bad = "the answer computed from version %s differs from the answer of the same request alone (half-analysed document or mixture)" % v
                if not bad and got_versions != model_versions:
                    bad = "model predicts versions %r for this forced schedule, implementation used %r" % (model_versions, got_versions)
        if bad:
            path = core.write_replay(ctx.pid, ctx.seed, {"engine": "E-sched", "case": c, "observed": o, "model": p, "expected": bad})
            v = core.Violation(bad, path, True)
            v.coverage = cov
            raise v
    parked = Counter()
    for c, o in zip(cases, outs):
        if c.startswith("two:"):
            f = dict(x.split("=") for x in o.split())
            parked["%s+%s" % (f.get("hook"), f.get("hookb"))] += 1
    cov["two_gate_schedules_parked_a+b"] = dict(parked)
    cov.update(forced_schedules=len(cases), forced_sample=[cases[0] + " -> " + outs[0], cases[-1] + " -> " + outs[-1]])
    # (B) pipelined stress against the real binary
    binary = lsp.build_server()
    n = 160 if ctx.quick else 1500
    t0 = time.time()
    with ThreadPoolExecutor(max_workers=max(2, core.NCPU // 2)) as ex:
        results = list(ex.map(lambda sd: stress_one(binary, ctx.seed * 100000 + sd), range(n)))
        nsave = 60 if ctx.quick else 800
        results += list(ex.map(lambda sd: stress_save(binary, ctx.seed * 100000 + 50000 + sd), range(nsave)))
    for r in results:
        if r.get("bad"):
            path = core.write_replay(ctx.pid, ctx.seed, {"engine": "E-bb stress", "mode": r.get("mode", "change"), "case": r["seed"], "expected": r["bad"], "observed": r})
            v = core.Violation(r["bad"], path, True)
            v.coverage = cov
            raise v
    cov.update(programs=len(cases) + n, evaluations=len(cases) + n,
               distinct_nontrivial=len(set((tuple(r["reqs"]), r["change_at"]) for r in results)) + len(set(cases)),
               disagreements_checked=0, stress_runs=n, stress_wall_s=round(time.time() - t0, 1),
               rule="(A) every scenario (4 yield points) x 3 request kinds, the first thread parked at the yield point until the second request finished or "
                    "blocked; (B) bursts of 2..8 pipelined requests (completion, definition, diagnostic, prepareTypeHierarchy) with a didChange at a random "
                    "point of the burst, each response compared with the lone answers before/after on fresh servers; non-trivial = every case (all have two threads)",
               samples=[dict(reqs=results[0]["reqs"], change_at=results[0]["change_at"]), cases[0]])
    return cov


def replay(ctx, rep):
    if rep.get("engine") == "E-sched":
        hb = diff.Engines.harness(hooks=True)
        o = core.run_lines(hb, "sched", [rep["case"]], shards=1)[0]
        print("case:", rep["case"], "->", o)
        bad = ("/false" in o) or any(f in o for f in ("r2=0/", "r2=?", "r1=?", "PANIC", "hook=false")) and not rep["case"].startswith("parse_pair")
        print("VIOLATION property=C03 replay=%s" % rep.get("how_to_rerun", "?").split()[-1] if bad else "property holds on this schedule")
        return 1 if bad else 0
    r = (stress_save if rep.get("mode") == "save" else stress_one)(lsp.build_server(), rep["case"])
    print(r)
    if r.get("bad"):
        print("VIOLATION property=C03 replay=%s" % rep.get("how_to_rerun", "?").split()[-1])
        return 1
    return 0
