"""Case streams shared by the parser properties (C04, C06, C07, C08, C09)."""
import glob, itertools, os, random, re
from vlib import core, goldgen

LEX_ALPHA = [ord(c) for c in "aB_1. \n\r'\";#<=+&$"]
# 16-kind token alphabet at top level and inside a method body
TOK_TOP = ["proc", "endproc", "func", "return", "class", "a", "(", ")", ":", "=", ".", "+", "var", "if", "endif", "1"]
TOK_BODY = ["a", "(", ")", "[", "]", ".", ",", "=", "+", "-", "1", "if", "endif", "else", "'s'", "foo"]

KEYWORDS = None


def enc(s):
    return ".".join(str(ord(c)) for c in s)


def dec(case):
    return "".join(chr(int(x)) for x in case.split(".")) if case else ""


def keywords():
    global KEYWORDS
    if KEYWORDS is None:
        gen = os.path.join(core.COQ, "theories", "Gen", "Keywords.v")
        KEYWORDS = sorted(set(m.lower() for m in re.findall(r"\(\* (\w+) \*\)", open(gen).read())))
    return KEYWORDS


def kind_names():
    gen = os.path.join(core.COQ, "theories", "Gen", "AstKinds.v")
    return re.findall(r"^\| K(\w+)", open(gen).read(), re.M)


def lex_strings(maxlen):
    for l in range(maxlen + 1):
        for t in itertools.product(LEX_ALPHA, repeat=l):
            yield ".".join(map(str, t))


def tok_sequences(alpha, maxlen, wrap=None):
    for l in range(maxlen + 1):
        for t in itertools.product(alpha, repeat=l):
            s = " ".join(t)
            yield enc(wrap % s if wrap else s)


def fixtures():
    out = []
    for p in sorted(glob.glob("/repo/test/*.god") + glob.glob("/repo/test/workspace/**/*.god", recursive=True)):
        try:
            out.append(open(p, encoding="utf-8", errors="replace").read())
        except OSError:
            pass
    return out


TOKEN_RE = re.compile(r"'(?:[^']|'')*'|\"[^\"]*\"|;[^\n]*|[A-Za-z_][A-Za-z0-9_]*|[0-9][0-9A-Za-z.]*|<<|<=|<>|>>|>=|&&|\+\+|\+=|--|-=|:=|\s+|.", re.S)


def mutate_text(rng, text, pool):
    """one byte- or token-level mutation"""
    k = rng.random()
    if k < 0.35 and text:
        # byte level
        i = rng.randrange(len(text))
        op = rng.randrange(4)
        ch = rng.choice(["(", ")", "'", '"', ";", ".", ",", "\n", " ", "=", "#", "[", "]", "$", "é", ":", "+", "-"])
        if op == 0:
            return text[:i] + text[i + 1:]
        if op == 1:
            return text[:i] + ch + text[i:]
        if op == 2:
            return text[:i] + ch + text[i + 1:]
        return text[:i]
    toks = TOKEN_RE.findall(text)
    if not toks:
        return text
    i = rng.randrange(len(toks))
    op = rng.randrange(5)
    if op == 0:
        del toks[i]
    elif op == 1:
        toks.insert(i, rng.choice(pool) + " ")
    elif op == 2:
        toks[i] = rng.choice(pool)
    elif op == 3:
        j = rng.randrange(len(toks))
        toks[i], toks[j] = toks[j], toks[i]
    else:
        j = min(len(toks), i + rng.randint(1, 6))
        toks[i:j] = toks[i:j] * 2
    return "".join(toks)


def soup(rng, n):
    kws = keywords()
    ops = list("()[]{}*/%@.=,<>+-:&#") + ["<<", "<=", "<>", ">>", ">=", "&&", "++", "+=", "--", "-=", ":="]
    pieces = []
    for _ in range(n):
        k = rng.random()
        if k < 0.5:
            pieces.append(rng.choice(kws))
        elif k < 0.7:
            pieces.append(rng.choice(ops))
        elif k < 0.85:
            pieces.append(rng.choice(["a", "Foo", "x1", "self", "tT", "cC"]))
        elif k < 0.93:
            pieces.append(rng.choice(["1", "2.5", "'s'", "\"d\"", "#13", ";c\n"]))
        else:
            pieces.append(rng.choice(["\n", "\r\n", "$", "é", "'", "\""]))
    return " ".join(pieces)


def unicode_noise(rng, n):
    out = []
    for _ in range(n):
        k = rng.random()
        if k < 0.5:
            out.append(chr(rng.randrange(32, 127)))
        elif k < 0.7:
            out.append(rng.choice("\n\r\t "))
        elif k < 0.9:
            out.append(chr(rng.choice([0xe9, 0x4e2d, 0x1f600, 0xa0, 0x2028, 0x300, 0xfeff, 0x7f, 0x1, 0xffff])))
        else:
            out.append(chr(rng.randrange(0x80, 0x2000)))
    return "".join(out)


def towers(big):
    n, m = (128, 2000) if big else (128, 400)
    return {
        "paren": "proc P\n x = " + "(" * n + "1" + ")" * n + "\nendproc\n",
        "call": "proc P\n x = " + "f(" * n + "1" + ")" * n + "\nendproc\n",
        "if": "proc P\n" + "if a\n" * n + "x=1\n" + "endif\n" * n + "endproc\n",
        "idx": "proc P\n x = " + "a[" * n + "1" + "]" * n + "\nendproc\n",
        "record": "type t : " + "record\n f : " * n + "int4\n" + "endrecord\n" * n,
        "unary": "proc P\n x = " + "not " * n + "a\nendproc\n",
        "set": "proc P\n x = " + "[" * n + "1" + "]" * n + "\nendproc\n",
        "loop": "proc P\n" + "loop\n" * n + "x=1\n" + "endloop\n" * n + "endproc\n",
        "proctype": "type t : " + "proc(A : " * n + "int4" + ")" * n + "\n",
        "args": "proc P\n f(" + ",".join(["1"] * m) + ")\nendproc\n",
        "stmts": "proc P\n" + "x = 1\n" * m + "endproc\n",
        "uses": "uses " + ",".join("a%d" % i for i in range(m)) + "\n",
        "enum": "type t : (" + ",".join("c%d" % i for i in range(m)) + ")\n",
        "sum": "proc P\n x = " + "+".join(["1"] * m) + "\nendproc\n",
        "dots": "proc P\n x = " + ".".join(["a"] * m) + "\nendproc\n",
        "procs": "proc P\nendproc\n" * m,
        "params": "proc P(" + ",".join("A%d : int4" % i for i in range(m)) + ")\nendproc\n",
        "fields": "".join("F%d : int4\n" % i for i in range(m)),
    }


def generated_programs(rng, n, max_depth=3):
    g = goldgen.Gen(rng, max_depth=max_depth)
    out = []
    for _ in range(n):
        t, kids, methods = g.gen_program()
        out.append((t, kids, methods))
    return out
