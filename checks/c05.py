"""C05  Tokens partition the source and carry exact start positions."""
import itertools, os, random, re
from vlib import core, diff

MANIFEST = dict(
    engine="E-lex",
    technique="Coq proof by induction over the lexer loop (partition of the text into chunks, offsets, true line/column, keyword table laws on a table regenerated from the source); exhaustive + random differential run of the extracted model against GoldLexer::lex",
    text=("Theorems over the Gallina model of GoldLexer::lex for all texts: the chunks consumed by tokens, skipped whitespace and "
          "error characters concatenate to the text (no overlap, nothing lost), each token's raw offset is the length of the text "
          "before its chunk, its start line/column are the true line/column of that offset (LF and CRLF, also after multi-line "
          "literals), word/number/operator chunks equal the token value, skipped chunks are whitespace, every other uncovered "
          "character is reported as an error at its true position; keyword classification depends only on the upper-cased word "
          "and yields a keyword type only for a spelling of that keyword (table regenerated from create_word_token on every run). "
          "Tie: all strings up to length 4 (quick) over the 17-symbol alphabet + random texts on both sides, all observations equal; "
          "independent Python oracle on the implementation's output."),
    note="Trusted: Coq kernel, translators T1/T2, extraction, harness. Columns are counted in Unicode scalar values as the lexer does (not UTF-16 units); token END columns use UTF-8 byte length in code and model (not part of the property).",
    design="6 C05",
    engines=[dict(name="E-lex", path="harness/src/eng_lex.rs + coq/extract/eng_lex.ml",
                  kind_free_text="differential: GoldLexer::lex vs extracted Coq model, complete token and error lists")],
)
MANIFEST["text"] += " Fourth session: Model/Unlex.v prints lexeme lists; C05_lex_unlex (for ALL printable lexeme lists lex(unlex ts) gives ts back at the printer's offsets without lexical error), C05_lexeme_context_free, C05_lexemes_printable (the lexer's image is exactly the printable lexemes), C05_relex_normal_form; both statements are also evaluated on the real lexer (3,000 printed lists, 20,000 re-lexed prints per quick run). The lexer model's token END is start column + number of characters since /repo f444e80."

ASSUMPTIONS = [
    "offsets and columns are in Unicode scalar values (chars().enumerate()), as the lexer defines them",
    "keyword table and token kinds are regenerated from /repo/src/lexer on every run by translators T1/T2",
]

ALPHA = [ord(c) for c in "aB_1. \n\r'\";#<=+&$"]


def load_keywords():
    """(upper spelling -> type index) from the generated tables."""
    gen = os.path.join(core.COQ, "theories", "Gen")
    names = re.findall(r"^\| T(\w+)", open(os.path.join(gen, "Tokens.v")).read(), re.M)
    idx = {n: i for i, n in enumerate(names)}
    kws = {}
    for m in re.finditer(r"\(\[[0-9; ]*\], T(\w+)\);?\s*\(\* (\w+) \*\)", open(os.path.join(gen, "Keywords.v")).read()):
        kws.setdefault(m.group(2), idx[m.group(1)])
    return idx, kws


def gen_cases(ctx):
    rng = random.Random(ctx.seed)
    cases = []
    L = 4 if ctx.quick else 5
    for l in range(L + 1):
        for t in itertools.product(ALPHA, repeat=l):
            cases.append(".".join(map(str, t)))
    _, kws = load_keywords()
    kwl = sorted(kws)
    # every keyword spelling of the regenerated table in three casings plus near-misses
    # (this also cross-validates translator T2 against the running lexer)
    for w in kwl:
        for v in (w, w.lower(), w.capitalize(), w + "x", w[:-1], "_" + w, w + "1", w.lower() + " " + w):
            cases.append(".".join(str(ord(c)) for c in v))
    # words that only fold to a keyword under Unicode case mapping (sharp s, long s, dotless i, ligatures, Kelvin sign ...)
    folds = [("SS", "\u00df"), ("S", "\u017f"), ("I", "\u0131"), ("FI", "\ufb01"), ("ST", "\ufb06"), ("FF", "\ufb00"),
             ("FL", "\ufb02"), ("K", "\u212a"), ("I", "\u0130"), ("N", "\u0149"), ("E", "\u00e9"), ("A", "\u00e5")]
    for w in kwl:
        for (a, b) in folds:
            i = w.find(a)
            while i >= 0:
                for v in (w[:i] + b + w[i + len(a):], (w[:i] + b + w[i + len(a):]).lower().replace(b.lower(), b), "x = " + w[:i].lower() + b + w[i + len(a):].lower() + " y"):
                    cases.append(".".join(str(ord(c)) for c in v))
                i = w.find(a, i + 1)
    # the statement of C05_lex_unlex evaluated on the implementation: random lists of printable lexemes, printed with
    # one blank between lexemes (a line feed after a comment) must lex back to exactly these lexemes, without errors
    OPS = [("OBracket", "("), ("CBracket", ")"), ("OSqrBracket", "["), ("CSqrBracket", "]"), ("OCurBracket", "{"),
           ("CCurBracket", "}"), ("Asterisk", "*"), ("Divide", "/"), ("Modulus", "%"), ("AddressOf", "@"), ("Dot", "."),
           ("Equals", "="), ("Comma", ","), ("LessThan", "<"), ("LeftShift", "<<"), ("LessThanOrEqual", "<="),
           ("NotEquals", "<>"), ("GreaterThan", ">"), ("RightShift", ">>"), ("GreaterThanOrEqual", ">="),
           ("StringConcat2", "&"), ("StringConcat", "&&"), ("Plus", "+"), ("Increment", "++"), ("IncrementAssign", "+="),
           ("Minus", "-"), ("Decrement", "--"), ("DecrementAssign", "-="), ("Colon", ":"), ("DeepAssign", ":="), ("Pound", "#")]
    idx, _ = load_keywords()
    for _ in range(3000 if ctx.quick else 60000):
        lx, text = [], ""
        for _ in range(rng.randint(1, 12)):
            k = rng.random()
            if k < 0.25:
                w = rng.choice(kwl)
                w = "".join(c.upper() if rng.random() < 0.5 else c.lower() for c in w)
                lx.append((kws[w.upper()], w)); text += w + " "
            elif k < 0.45:
                w = rng.choice("abXY_") + "".join(rng.choice("abXY_09") for _ in range(rng.randint(0, 6)))
                if w.upper() in kws:
                    continue
                lx.append((idx["Identifier"], w)); text += w + " "
            elif k < 0.55:
                w = rng.choice("0123456789") + "".join(rng.choice("0123456789.eEx") for _ in range(rng.randint(0, 4)))
                lx.append((idx["NumericLiteral"], w)); text += w + " "
            elif k < 0.7:
                v = "".join(rng.choice(["a", " ", "\n", "\r\n", "'", ";", "\u00e9", "x", '"', "#"]) for _ in range(rng.randint(0, 6)))
                lx.append((idx["StringLiteral"], v)); text += "'" + v.replace("'", "''") + "' "
            elif k < 0.8:
                v = "".join(rng.choice("ab '\";\u00e9#") for _ in range(rng.randint(0, 6)))
                lx.append((idx["Comment"], v)); text += ";" + v + "\n"
            else:
                name, sp = rng.choice(OPS)
                lx.append((idx[name], sp)); text += sp + " "
        case = ".".join(str(ord(c)) for c in text)
        _UNLEX[case] = lx
        cases.append(case)
    nrand = 20000 if ctx.quick else 300000
    pieces_ws = [" ", "\t", "\n", "\r\n", "\r", "  ", "\n\n"]
    ops = list("()[]{}*/%@.=,<>+-:&") + ["<<", "<=", "<>", ">>", ">=", "&&", "++", "+=", "--", "-=", ":="]
    weird = ["$", "!", "?", "\\", "~", "^", "|", "`", "\u00e9", "\u4e2d", "\U0001f600", "\x0c", "\u00a0",
             "\ufeff", "\u200b", "\u2028", "\x00", "\x7f", "\u0130", "\u00df"]
    for _ in range(nrand):
        parts = []
        for _ in range(rng.randint(1, 14)):
            k = rng.random()
            if k < 0.2:
                w = rng.choice(kwl)
                w = "".join(c.upper() if rng.random() < 0.5 else c.lower() for c in w)
                if rng.random() < 0.15:
                    w += rng.choice(["x", "_", "1", "S"])
                parts.append(w)
            elif k < 0.35:
                parts.append("".join(rng.choice("abXY_09") for _ in range(rng.randint(1, 6))))
            elif k < 0.42:
                parts.append("".join(rng.choice("0123456789.eEx") for _ in range(rng.randint(1, 5))))
            elif k < 0.55:
                q = rng.choice("'\"")
                body = "".join(rng.choice(["a", " ", "\n", "\r\n", q + q if q == "'" else "'", ";", "é", "x"]) for _ in range(rng.randint(0, 6)))
                parts.append(q + body + (q if rng.random() < 0.85 else ""))
            elif k < 0.62:
                parts.append(";" + "".join(rng.choice("ab '\";é") for _ in range(rng.randint(0, 6))) + rng.choice(["\n", "\r\n", ""]))
            elif k < 0.68:
                parts.append("#" + "".join(rng.choice("0123456789") for _ in range(rng.choice([0, 1, 2, 3, 3, 5, 10, 11, 20, 25]))))
            elif k < 0.8:
                parts.append(rng.choice(ops))
            elif k < 0.86:
                parts.append(rng.choice(weird))
            parts.append(rng.choice(pieces_ws) if rng.random() < 0.7 else "")
        s = "".join(parts)
        if rng.random() < 0.03:
            s = "\ufeff" + s          # a byte order mark in front of the text
        cases.append(".".join(str(ord(c)) for c in s))
    # scale: every kind of atom repeated around the usual internal limits (buffers, caps, u8/u16 counters), alone and
    # separated by blanks / line ends; integer literals around the machine word sizes
    sizes = [99, 100, 101, 127, 128, 129, 255, 256, 257, 1000, 1023, 1024, 1025] + ([] if ctx.quick else [4095, 4096, 4097])
    atoms = ["$", "\u00e9", "a", "7", "'x'", ";c\n", "+", "\n", "\r\n", "'", "#1", "1.5", "\ufeff"]
    for n in sizes:
        for a in atoms:
            cases.append(".".join(str(ord(c)) for c in a * n))
            cases.append(".".join(str(ord(c)) for c in (a + " ") * n))
            cases.append(".".join(str(ord(c)) for c in ("x " + (a + "\n") * n + "class")))
    for d in ["255", "256", "65535", "65536", "2147483647", "2147483648", "4294967295", "4294967296", "9223372036854775807",
              "9223372036854775808", "18446744073709551615", "18446744073709551616", "9" * 40, "0" * 40, "1" * 400]:
        for pre in ["", "#", "x = ", "0.", "1e", "-"]:
            for post in ["", ".5", " y", "x"]:
                cases.append(".".join(str(ord(c)) for c in pre + d + post))
    return cases


def true_pos(text, off):
    line = col = 0
    for c in text[:off]:
        if c == 10:
            line += 1; col = 0
        else:
            col += 1
    return (line, col)


WORDCH = set(range(48, 58)) | set(range(65, 91)) | set(range(97, 123)) | {95}
_kw = {}
_UNLEX = {}     # case -> the lexemes it was printed from


def oracle(case, out):
    """The property's statement evaluated on the implementation's own output."""
    if out.startswith("PANIC") or out == "CRASH":
        return "lexer panicked: " + out
    text = [int(x) for x in case.split(".")] if case else []
    if not _kw:
        idx, kws = load_keywords()
        _kw.update(idx=idx, kws=kws)
    idx, kws = _kw["idx"], _kw["kws"]
    IDENT, NUM, STR, COMMENT, POUND = idx["Identifier"], idx["NumericLiteral"], idx["StringLiteral"], idx["Comment"], idx["Pound"]
    tpart, epart = out.split("|")
    toks = [t.split(":") for t in tpart.split(";")] if tpart else []
    errs = [list(map(int, e.split(":"))) for e in epart.split(";")] if epart else []
    covered = [False] * len(text)
    prev_end = 0
    # (line, column) of every offset, computed once per text (true_pos alone is linear per call)
    posn, line_, col_ = [], 0, 0
    for c_ in text:
        posn.append((line_, col_))
        if c_ == 10:
            line_ += 1; col_ = 0
        else:
            col_ += 1
    posn.append((line_, col_))
    true_pos = lambda _t, off: posn[off]
    for t in toks:
        ty, raw, sl, sc = int(t[0]), int(t[1]), int(t[2]), int(t[3])
        el, ec = int(t[4]), int(t[5])
        val = [int(x) for x in t[6].split(".")] if t[6] else []
        if raw < prev_end:
            return "token at offset %d overlaps or precedes the previous token (ends %d)" % (raw, prev_end)
        if raw >= len(text):
            return "token offset %d beyond the text" % raw
        # extent of the lexeme
        if ty == STR and text[raw] in (39, 34):
            q = text[raw]; i = raw + 1
            while i < len(text):
                if text[i] == q:
                    if q == 39 and i + 1 < len(text) and text[i + 1] == 39:
                        i += 2; continue
                    i += 1; break
                i += 1
            end = i
        elif ty == COMMENT:
            if text[raw] != 59:
                return "comment token at %d does not start at ';'" % raw
            end = raw + 1 + len(val)
            if text[raw + 1:end] != val:
                return "comment value is not the text after ';' at %d" % raw
        else:
            end = raw + len(val)
            if text[raw:end] != val:
                return "text at offset %d is %r but the token value is %r" % (raw, text[raw:end], val)
        if (sl, sc) != true_pos(text, raw):
            return "token at offset %d reports start %r, true line/column is %r" % (raw, (sl, sc), true_pos(text, raw))
        if (el, ec) < (sl, sc):
            return "token range end before start at %d" % raw
        if all(c in WORDCH for c in val) and val and not (48 <= val[0] <= 57) and ty not in (STR, COMMENT):
            w = "".join(map(chr, val)).upper()
            want = kws.get(w, IDENT)
            if ty != want:
                return "word %r classified as type %d, expected %d" % ("".join(map(chr, val)), ty, want)
        if ty in _kw.setdefault("kwtypes", set(kws.values()) - {IDENT}):
            # "no identifier is ever classified as a keyword": a keyword type only for a spelling of that keyword
            # (ASCII case folding only: a word that merely case-folds to a keyword under Unicode rules, like cla\u00df, is a name)
            wa = "".join(chr(c).upper() if c < 128 else chr(c) for c in val)
            if kws.get(wa) != ty:
                return "lexeme %r classified as keyword type %d although it is not a spelling of that keyword" % ("".join(map(chr, val)), ty)
        for i in range(raw, min(end, len(text))):
            covered[i] = True
        prev_end = end
    ei = 0
    for i, c in enumerate(text):
        if covered[i] or c in (32, 9, 10, 13):
            continue
        if ei >= len(errs):
            return "character %d at offset %d is neither covered by a token, whitespace, nor reported" % (c, i)
        e = errs[ei]; ei += 1
        if (e[0], e[1]) != true_pos(text, i) or e[4] != c:
            return "error #%d is at %r for char %d; the uncovered character %d is at %r" % (ei - 1, (e[0], e[1]), e[4], c, true_pos(text, i))
    if ei != len(errs):
        return "%d lexical errors reported for covered or blank characters" % (len(errs) - ei)
    exp = _UNLEX.get(case)
    if exp is not None:
        got = [(int(t[0]), "".join(chr(int(x)) for x in t[6].split(".")) if t[6] else "") for t in toks]
        if got != exp or errs:
            return "printed lexemes %r lex back as %r with %d errors (C05_lex_unlex)" % (exp[:8], got[:8], len(errs))
    return None


def nontrivial(case):
    return case.count(".") >= 1


def shrinker(case):
    cs = case.split(".") if case else []
    for i in range(len(cs)):
        yield ".".join(cs[:i] + cs[i + 1:])


def describe(case):
    return "".join(chr(int(x)) for x in case.split(".")) if case else ""


def correspondence(ctx, broken_obligations=()):
    cases = gen_cases(ctx)
    cov = diff.differential(ctx, "lex", cases, oracle=oracle, shrinker=shrinker, nontrivial=nontrivial, describe=describe)
    if not ctx.quick:
        # around the 16-bit limits: the implementation alone, judged by the property's oracle (the extracted model's
        # non-tail-recursive list functions overflow the OCaml stack on texts of this length)
        big = []
        for n in (65535, 65536, 65537):
            for a in ["$", "\u00e9", "a", "7", "'x'", ";c\n", "+", "\n", "\r\n", "#1", "\ufeff"]:
                big.append(".".join(str(ord(c)) for c in (a + " ") * n))
                big.append(".".join(str(ord(c)) for c in "x " + (a + "\n") * n + "class"))
        outs = core.run_lines(diff.Engines.harness(), "lex", big)
        for c, o in zip(big, outs):
            r = oracle(c, o)
            if r:
                path = core.write_replay(ctx.pid, ctx.seed, {"engine": "lex", "case": c[:4000], "case_readable": describe(c)[:200], "observed": o[:600], "expected": r})
                v = core.Violation(r, path, True)
                v.coverage = cov
                raise v
        cov["large_texts_implementation_only"] = len(big)
    # C05_relex_normal_form evaluated on the implementation: lex a text, print its tokens (one blank between lexemes, a
    # line feed after a comment, literals single-quoted with doubled quotes), lex the print: the same (type, value) list
    # and no lexical error in the print
    idx, _ = load_keywords()
    STR, COM = idx["StringLiteral"], idx["Comment"]
    rrng = random.Random(ctx.seed + 5)
    sample = rrng.sample(cases, min(len(cases), 20000 if ctx.quick else 200000))
    hb = diff.Engines.harness()

    def toks_of(out):
        tpart, epart = out.split("|")
        ts = [t.split(":") for t in tpart.split(";")] if tpart else []
        return [(int(t[0]), [int(x) for x in t[6].split(".")] if t[6] else []) for t in ts], epart
    first = core.run_lines(hb, "lex", sample)
    prints, keep = [], []
    for c, o in zip(sample, first):
        if o.startswith("PANIC") or o == "CRASH":
            continue
        lx, _ = toks_of(o)
        text = []
        for ty, v in lx:
            if ty == STR:
                text += [39] + [y for x in v for y in ((39, 39) if x == 39 else (x,))] + [39, 32]
            elif ty == COM:
                text += [59] + v + [10]
            else:
                text += v + [32]
        prints.append(".".join(map(str, text)))
        keep.append((c, lx))
    second = core.run_lines(hb, "lex", prints)
    for (c, lx), p, o in zip(keep, prints, second):
        lx2, errs = toks_of(o) if not (o.startswith("PANIC") or o == "CRASH") else (None, o)
        if lx2 != lx or errs:
            r = "printing the tokens of the text and lexing the print does not give the same tokens back (C05_relex_normal_form): %r -> %r, errors %r" % (lx[:6], (lx2 or [])[:6], errs[:80])
            path = core.write_replay(ctx.pid, ctx.seed, {"engine": "lex", "case": c[:4000], "case_readable": describe(c)[:200], "print": p[:2000], "observed": o[:600], "expected": r})
            v = core.Violation(r, path, True)
            v.coverage = cov
            raise v
    cov["relexed_prints"] = len(prints)
    cov["rule"] = ("all strings up to length %d over {a,B,_,1,.,space,LF,CR,',\",;,#,<,=,+,&,$} (exhaustive) plus random texts mixing "
                   "keywords in random case, identifiers, numbers, single/double-quoted literals (multi-line, escaped, unterminated), "
                   "comments, #n, operators, stray and non-ASCII characters, LF/CRLF/CR; non-trivial = at least 2 characters"
                   % (4 if ctx.quick else 5))
    cov["exhaustive"] = True
    cov["samples"] = [describe(cases[70000]), describe(cases[-1])[:200], describe(cases[-2])[:200]]
    return cov


def replay(ctx, rep):
    case = rep["case"]
    out = core.run_lines(diff.Engines.harness(), "lex", [case], shards=1)[0]
    r = oracle(case, out)
    print("text:", repr(describe(case))); print("implementation:", out); print("oracle:", r or "property holds on this case")
    if r:
        print("VIOLATION property=C05 replay=%s" % rep.get("how_to_rerun", "?").split()[-1])
        return 1
    return 0
