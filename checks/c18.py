"""C18  Symbol tables behave like nested case-insensitive maps."""
import itertools, random
from vlib import core, diff

MANIFEST = dict(
    engine="E-symtab",
    technique="Coq proof: representation invariant by induction over all op sequences + refinement to nested case-insensitive maps; tied to the code by exhaustive differential run of the extracted model",
    text=("Theorems over the Gallina model of SymbolTable (all op sequences, all chain lengths): lookup = latest insertion in "
          "nearest scope ignoring case, search_all one hit per scope, iteration = insertion order, merged listing = each name "
          "once/nearest wins/complete/ordered, stored indices in range. The model is tied to /repo by running the extracted "
          "model and the real SymbolTable on every insertion sequence up to length 5/4/3 (1/2/3 scopes) over 3 names x 2 "
          "casings followed by every query, plus random sequences; an independent oracle re-states the property on the "
          "implementation's own output."),
    note="Trusted: Coq kernel, extraction (ExtrOcamlBasic), harness. Assumes ASCII names, acyclic parent chains (cycles: C14), id == info.id at insertion.",
    design="6 C18",
    engines=[dict(name="E-symtab", path="harness/src/eng_symtab.rs + coq/extract/eng_symtab.ml",
                  kind_free_text="differential: real SymbolTable vs extracted Coq model on operation sequences")],
)

MANIFEST["text"] += " Fourth session: look-ups under lock contention (engine symtabc: every query while other threads hold the enclosing scopes' mutexes) must give the sequential model's answers."

ASSUMPTIONS = [
    "names are ASCII (identifiers are [A-Za-z0-9_] by construction of the lexer); str::to_uppercase is modelled as ASCII upper-casing",
    "insert_symbol_info is called with id == info.id (as every caller in /repo does)",
    "each scope has at most one parent and the parent links form a chain (no cycle): C14 covers cycles",
]

NAMES = ["a", "A", "b", "B", "foo", "Foo"]


def battery(n):
    ops = []
    for j in range(n):
        for nm in NAMES:
            ops += ["G%d:%s" % (j, nm), "W%d:%s" % (j, nm), "S%d:%s" % (j, nm), "A%d:%s" % (j, nm), "E%d:%s" % (j, nm)]
        ops += ["T%d" % j, "C%d" % j]
    return ops


def gen_cases(ctx):
    rng = random.Random(ctx.seed)
    cases = []
    bounds = {1: 5, 2: 4, 3: 3} if ctx.quick else {1: 6, 2: 5, 3: 5}
    for n, L in bounds.items():
        alphabet = ["I%d:%s" % (j, nm) for j in range(n) for nm in NAMES]
        bat = ",".join(battery(n))
        for l in range(0, L + 1):
            for seq in itertools.product(alphabet, repeat=l):
                cases.append("%d;%s" % (n, ",".join(seq + (bat,))))
    # random longer sequences with interleaved queries
    nrand = 4000 if ctx.quick else 100000
    for _ in range(nrand):
        n = rng.randint(1, 3)
        names = NAMES + ["Bar", "bAr", "x1", "X1", "_y", "_Y"]
        ops = []
        for _ in range(rng.randint(6, 40)):
            j = rng.randrange(n)
            k = rng.choice("IIIIGWSAETC")
            if k in "TC":
                ops.append("%s%d" % (k, j))
            else:
                ops.append("%s%d:%s" % (k, j, rng.choice(names)))
        cases.append("%d;%s" % (n, ",".join(ops)))
    return cases


# ---- the property's own statement as an executable oracle (independent of the Coq model) ----
def spec_outputs(case):
    n, ops = case.split(";", 1)
    n = int(n)
    scopes = [[] for _ in range(n)]          # per scope: list of (id, tag) in insertion order
    outs = []
    tag = 0

    def find(j, name):
        for (i, t) in reversed(scopes[j]):
            if i.upper() == name.upper():
                return (i, t)
        return None

    def get(j, name):
        for k in range(j, n):
            r = find(k, name)
            if r:
                return (k, r)
        return None

    for op in [o for o in ops.split(",") if o]:
        k = op[0]
        rest = op[1:]
        j, _, name = rest.partition(":")
        j = int(j)
        if k == "I":
            scopes[j].append((name, tag)); outs.append(("eq", []))
        elif k == "G":
            r = get(j, name); outs.append(("eq", [("", r[1][0], r[1][1])] if r else []))
        elif k == "W":
            r = get(j, name); outs.append(("eq", [("C%d" % r[0], r[1][0], r[1][1])] if r else []))
        elif k == "S":
            r = find(j, name); outs.append(("eq", [("C%d" % j, r[0], r[1])] if r else []))
        elif k == "A":
            l = []
            for kk in range(j, n):
                r = find(kk, name)
                if r:
                    l.append(("C%d" % kk, r[0], r[1]))
            outs.append(("eq", l))
        elif k == "E":
            outs.append(("eq", [("", "", 1)] if get(j, name) else []))
        elif k == "T":
            outs.append(("eq", [("", i, t) for (i, t) in scopes[j]]))
        elif k == "C":
            # each name once, nearest scope first: expected multiset of (scope, name-key); the entry
            # for a name must be a declaration of that name in the nearest scope that has it
            vis = {}
            for kk in range(j, n):
                for (i, t) in scopes[kk]:
                    vis.setdefault(i.upper(), kk)
            outs.append(("collect", (vis, [dict((t, (i, kk)) for (i, t) in scopes[kk]) for kk in range(n)])))
        tag += 1
    return outs


def parse_obs(s):
    s = s.strip()
    assert s.startswith("[") and s.endswith("]"), s
    s = s[1:-1]
    if not s:
        return []
    r = []
    for item in s.split(","):
        c, i, t = item.split("|")
        r.append((c, i, int(t)))
    return r


def oracle(case, impl_out):
    if impl_out.startswith("PANIC") or impl_out == "CRASH":
        return "implementation panicked: " + impl_out
    exp = spec_outputs(case)
    got = impl_out.split(";")
    if len(got) != len(exp):
        return "wrong number of observations"
    for idx, ((kind, e), g) in enumerate(zip(exp, got)):
        try:
            g = parse_obs(g)
        except Exception:
            return "unparsable observation %r" % g
        if kind == "eq":
            if g != e:
                return "op #%d: expected %r, implementation returned %r" % (idx, e, g)
        else:
            vis, scopes = e
            keys = [i.upper() for (_, i, _) in g]
            if len(keys) != len(set(keys)):
                return "op #%d (merged listing): a name is listed more than once: %r" % (idx, g)
            if set(keys) != set(vis):
                return "op #%d (merged listing): listed names %r, visible names %r" % (idx, sorted(set(keys)), sorted(vis))
            last = -1
            for (_, i, t) in g:
                kk = vis[i.upper()]
                if t not in scopes[kk] or scopes[kk][t][0] != i:
                    return "op #%d (merged listing): entry %s/%d is not a declaration in the nearest scope C%d" % (idx, i, t, kk)
                if kk < last:
                    return "op #%d (merged listing): not nearest scope first" % idx
                last = kk
    return None


def nontrivial(case):
    ops = case.split(";", 1)[1].split(",")
    ins = [o.split(":")[1].upper() for o in ops if o.startswith("I")]
    return len(ins) >= 2 and len(set(ins)) < len(ins)


def shrinker(case):
    n, ops = case.split(";", 1)
    ops = [o for o in ops.split(",") if o]
    for i in range(len(ops)):
        yield "%s;%s" % (n, ",".join(ops[:i] + ops[i + 1:]))


def known(case, impl_out, model_out):
    return None


def correspondence(ctx, broken_obligations=()):
    cases = gen_cases(ctx)
    cov = diff.differential(ctx, "symtab", cases, oracle=oracle, known=known, shrinker=shrinker,
                            nontrivial=nontrivial)
    # look-ups under lock contention: the same random sequences through engine symtabc (every query runs while other
    # threads hold the mutexes of the enclosing scopes for a few milliseconds); the model is the sequential one: a
    # busy enclosing scope makes a look-up WAIT, it never changes the answer
    rnd = [c for c in cases if not c.startswith("1;") and len(c) < 400]
    crng = random.Random(ctx.seed + 18)
    ccases = crng.sample(rnd, min(len(rnd), 800 if ctx.quick else 8000))
    covc = diff.differential(ctx, "symtabc", ccases, model_engine="symtab", oracle=oracle, known=known, shrinker=shrinker,
                             nontrivial=nontrivial)
    cov["contended"] = {"programs": covc["programs"], "disagreements_checked": covc["disagreements_checked"],
                        "oracle_failures": covc["oracle_failures"],
                        "rule": "random op sequences over chains of 2..3 scopes; every query while each enclosing scope's mutex is held by another thread"}
    cov["rule"] = ("all insertion sequences over 6 spellings (3 names x 2 casings) x scopes of a chain of n scopes, "
                   "n=1..3, up to length %s, each followed by every query on every scope and name; plus random "
                   "sequences of 6..40 mixed ops; non-trivial = some name (ignoring case) inserted at least twice"
                   % ("5/4/3" if ctx.quick else "6/5/5"))
    cov["exhaustive"] = True
    cov["samples"] = [cases[len(cases) // 3][:300], cases[-1][:300]]
    return cov


def replay(ctx, rep):
    case = rep["case"]
    hb = diff.Engines.harness()
    out = core.run_lines(hb, rep.get("engine", "symtab"), [case], shards=1)[0]
    r = oracle(case, out)
    print("case:", case); print("implementation:", out); print("oracle:", r or "property holds on this case")
    if r:
        print("VIOLATION property=C18 replay=%s" % rep.get("how_to_rerun", "").split()[-1])
        return 1
    return 0
