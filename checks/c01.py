"""C01  Every request is answered exactly once and the server stays alive."""
import os, random, shutil, tempfile, threading, time
from concurrent.futures import ThreadPoolExecutor
from vlib import core, diff, lsp, goldgen
from checks import parser_common as pc

MANIFEST = dict(
    engine="E-bb",
    technique="Coq proof over the message-loop model (all scripts x all pool schedules) on dispatch tables regenerated from main_loop by translator T4; black-box correspondence: generated pipelined LSP scripts against the real binary over stdio",
    text=("Theorems (Properties/C01.v) for ALL message scripts and ALL schedules of pool-job completion: the multiset of response ids sent "
          "by the time the process exits equals the ids of the requests received before shutdown plus the shutdown id (each once, nothing "
          "else), independent of the schedule; exit status 0 exactly after shutdown;exit. The dispatch tables (methods, sync/pooled, reply on "
          "fall-through) are regenerated from /repo/src/main.rs on every run and the translator refuses an arm that sends nothing or does not "
          "`continue`; `fallthrough_reply = true` and method distinctness are proof obligations on the regenerated table. Handler totality is "
          "discharged by C04/C14, pool drain by C20. Tie to the code: the real binary is driven over stdio with generated scripts (7 methods + "
          "unsupported ones + 4 notifications + unknown notifications, schema-valid params, arbitrary positions and URIs, well-formed / mutated / "
          "garbage / missing files, no waiting between messages, shutdown with work in flight); observed id multiset and exit status are "
          "compared with the extracted model's and with the property's oracle (every request id answered exactly once, no panic on stderr)."),
    note="Partial: OS scheduling of the 7 workers is sampled, not enumerated (the theorem quantifies over the model's schedules). Trusted: translator T4, Python LSP client, lsp-server's framing and shutdown handshake.",
    design="6 C01",
    engines=[dict(name="E-bb", path="vlib/lsp.py + checks/c01.py + coq/extract/eng_server.ml",
                  kind_free_text="black box: real gold-lang-lsp --stdio driven by a Python client; model: extracted Server.run_server")],
)
MANIFEST["text"] += ' Fourth session: identical requests in flight followed by a notification about their document (scripts of kind twins).'

ASSUMPTIONS = [
    "schema-valid params only (a JSON shape error is a client bug: the server panics by design on ExtractError::JsonError)",
    "lsp-server 0.7 handle_shutdown / stdio transport behave as documented",
    "OS scheduling of the worker pool is sampled by running each script; the theorem covers all schedules of the model",
]

SUPPORTED_POS = ["textDocument/definition", "textDocument/completion", "textDocument/prepareTypeHierarchy"]
SUPPORTED_DOC = ["textDocument/documentSymbol", "textDocument/diagnostic"]
SUPPORTED_ITEM = ["typeHierarchy/subtypes", "typeHierarchy/supertypes"]
UNSUPPORTED = ["textDocument/hover", "workspace/symbol", "textDocument/references", "$/unknown", "textDocument/formatting", "foo"]
NOTIFS = ["textDocument/didOpen", "textDocument/didChange", "textDocument/didSave", "textDocument/didClose"]


def make_workspace(rng, root):
    g = goldgen.Gen(rng, max_depth=2)
    files = []
    names = ["aAlpha", "aBeta", "aGamma", "aDelta"]
    for i, nm in enumerate(names[: rng.randint(1, 4)]):
        text, _, _ = g.gen_program(n_decls=rng.randint(0, 5), header="none")
        parent = " (%s)" % rng.choice(names) if rng.random() < 0.6 else ""
        text = "class %s%s\n" % (nm, parent) + text
        k = rng.random()
        if k < 0.25:
            text = pc.mutate_text(rng, text, ["(", ")", "endproc", "if", "'", ".", "proc"])
        elif k < 0.35:
            text = pc.soup(rng, rng.randint(1, 40))
        p = os.path.join(root, nm + ".god")
        open(p, "w", encoding="utf-8").write(text)
        files.append(p)
    # core bundles (directories named WAM* / WF*): analysed by a pool job at start-up, while the first messages arrive
    if rng.random() < 0.5:
        for d in rng.sample(["WAMcore", "WFbase", "WAM", "WFx1"], rng.randint(1, 2)):
            os.mkdir(os.path.join(root, d))
            prev = None
            for j in range(rng.choice([3, 10, 40, 120])):
                nm = "a%s%d" % (d, j)
                body, _, _ = g.gen_program(n_decls=rng.randint(0, 3), header="none")
                par = " (%s)" % prev if prev and rng.random() < 0.5 else ""
                open(os.path.join(root, d, nm + ".god"), "w", encoding="utf-8").write("class %s%s\n" % (nm, par) + body)
                prev = nm if rng.random() < 0.7 else prev
                if j < 2:
                    files.append(os.path.join(root, d, nm + ".god"))
    # files that are not text: odd lengths, byte order marks, invalid UTF-8, NUL bytes, nothing at all
    if rng.random() < 0.35:
        for nm, raw in rng.sample([("aBomLE", b"\xff\xfeclass aBomLE\n"), ("aBomOdd", b"\xff\xfec\x00l\x00a"), ("aBomBE", b"\xfe\xff\x00c\x00l"),
                                   ("aUtf8Bom", b"\xef\xbb\xbfclass aUtf8Bom\nF : int4\n"), ("aBadUtf", b"class aBadUtf\n\xc3\x28 \xff\xff : int4\n"),
                                   ("aNul", b"class aNul\x00\nproc P\x00\nendproc\n"), ("aEmpty", b""), ("aLatin", "class aLatin\nconst c = 'd\xe9j\xe0'\n".encode("latin-1"))],
                                  rng.randint(1, 3)):
            p = os.path.join(root, nm + ".god")
            open(p, "wb").write(raw)
            files.append(p)
    sub = os.path.join(root, "sub")
    os.mkdir(sub)
    p = os.path.join(sub, "aDeep.god")
    open(p, "w").write("class aDeep (aAlpha)\nproc Init\n  inherited self.Init\nendproc\n")
    files.append(p)
    return files


def gen_script(rng, root, files):
    """list of (kind, payload) where payload is the JSON message without id for requests"""
    uris = [lsp.file_uri(f) for f in files] + [lsp.file_uri(os.path.join(root, "missing.god")),
                                             lsp.file_uri(os.path.join(root, "nodir", "x.god")),
                                             lsp.file_uri(os.path.join(root, "notgold.txt"))]
    # URIs that are not plain file paths: other schemes (editors pull diagnostics for virtual documents), a directory,
    # percent-escapes, an authority
    odd = ["untitled:Untitled-1", "git:/x/aAlpha.god?ref=HEAD", "output:extension-output-1", lsp.file_uri(root),
           lsp.file_uri(os.path.join(root, "sub")), "file:///%E6%97%A5/a%20b.god", "file://host" + os.path.join(root, "aAlpha.god"),
           lsp.file_uri(files[0]).replace("aAlpha", "a%41lpha"), "vscode-notebook-cell:/x.god#W0"]
    msgs = []
    for _ in range(rng.randint(1, 30)):
        k = rng.random()
        u = rng.random()
        uri = rng.choice(uris) if u < 0.8 else rng.choice(uris[-3:]) if u < 0.92 else rng.choice(odd)
        pos = {"line": rng.choice([0, 1, 2, 3, 5, 8, 40, 100000]), "character": rng.choice([0, 1, 4, 7, 12, 200])}
        if k < 0.55:
            m = rng.choice(SUPPORTED_POS + SUPPORTED_DOC + SUPPORTED_ITEM)
            if m in SUPPORTED_POS:
                params = {"textDocument": {"uri": uri}, "position": pos}
            elif m in SUPPORTED_DOC:
                params = {"textDocument": {"uri": uri}}
            else:
                rngg = {"start": {"line": 0, "character": 0}, "end": {"line": 0, "character": 5}}
                params = {"item": {"name": rng.choice(["aAlpha", "aBeta", "AALPHA", "Init", "Nope", "X"]),
                                   "kind": rng.choice([5, 12, 8, 6]), "uri": uri, "range": rngg, "selectionRange": rngg}}
            msgs.append(("req", m, params))
        elif k < 0.7:
            m = rng.choice(UNSUPPORTED)
            msgs.append(("req", m, {"textDocument": {"uri": uri}, "position": pos}))
        else:
            m = rng.choice(NOTIFS + ["$/cancelRequest", "workspace/didChangeConfiguration"])
            if m == "textDocument/didOpen":
                params = {"textDocument": {"uri": uri, "languageId": rng.choice(["gold", "gold", "text"]), "version": 1, "text": "class aX\n"}}
            elif m == "textDocument/didChange":
                txt = rng.choice(["class aAlpha\nproc P\n  x = \nendproc\n", pc.soup(rng, 10), "", "class aAlpha (aBeta)\nF : int4\n"])
                ch = [{"text": txt}] if rng.random() < 0.85 else [{"range": {"start": {"line": 0, "character": 0}, "end": {"line": 0, "character": 1}}, "text": "x"}]
                if rng.random() < 0.05:
                    ch = []
                params = {"textDocument": {"uri": uri, "version": 2}, "contentChanges": ch}
            elif m == "textDocument/didSave":
                params = {"textDocument": {"uri": uri}}
            elif m == "textDocument/didClose":
                params = {"textDocument": {"uri": uri}}
            elif m == "$/cancelRequest":
                params = {"id": rng.randint(1, 30)}
            else:
                params = {"settings": {}}
            msgs.append(("notif", m, params))
    return msgs


def gen_burst(rng, root, files):
    """change / request / change on ONE document of some size, back to back, many rounds: the notification handler on
    the main thread meets a worker that is still analysing the text it replaces"""
    g = goldgen.Gen(rng, max_depth=2)
    f = rng.choice(files)
    uri = lsp.file_uri(f)
    nm = os.path.basename(f)[:-4]
    texts = []
    for _ in range(3):
        body, _, _ = g.gen_program(n_decls=rng.randint(12, 30), header="none")
        texts.append("class %s (aAlpha)\n" % nm + body)
    msgs = []
    for i in range(rng.randint(10, 40)):
        def change():
            return ("notif", "textDocument/didChange", {"textDocument": {"uri": uri, "version": i + 2}, "contentChanges": [{"text": rng.choice(texts)}]})
        msgs.append(change())
        m = rng.choice(SUPPORTED_POS + SUPPORTED_DOC)
        pos = {"line": rng.randint(0, 30), "character": rng.choice([0, 2, 4, 7])}
        msgs.append(("req", m, {"textDocument": {"uri": uri}, "position": pos} if m in SUPPORTED_POS else {"textDocument": {"uri": uri}}))
        if rng.random() < 0.8:
            msgs.append(change())
        if rng.random() < 0.1:
            msgs.append(("notif", rng.choice(["textDocument/didSave", "textDocument/didClose"]), {"textDocument": {"uri": uri}}))
    return msgs


def gen_twins(rng, root, files):
    """the SAME request twice (or three times) back to back on one document of some size, and a notification about that
    document right behind them, round after round: whatever the server shares between identical requests in flight
    (coalescing, caches keyed by document) must still answer every one of them exactly once"""
    g = goldgen.Gen(rng, max_depth=2)
    f = rng.choice(files[:4])
    uri = lsp.file_uri(f)
    nm = os.path.basename(f)[:-4]
    body, _, _ = g.gen_program(n_decls=rng.randint(200, 500), header="none")
    text = "class %s\n" % nm + body
    msgs = [("notif", "textDocument/didChange", {"textDocument": {"uri": uri, "version": 2}, "contentChanges": [{"text": text}]})]
    for i in range(rng.randint(6, 16)):
        m = rng.choice(SUPPORTED_POS + ["textDocument/diagnostic"] * 3 + SUPPORTED_DOC)
        pos = {"line": rng.randint(0, 200), "character": rng.choice([0, 2, 4, 7])}
        params = {"textDocument": {"uri": uri}, "position": pos} if m in SUPPORTED_POS else {"textDocument": {"uri": uri}}
        for _ in range(rng.choice([2, 2, 3])):
            msgs.append(("req", m, params))
        k = rng.random()
        if k < 0.5:
            msgs.append(("notif", "textDocument/didChange", {"textDocument": {"uri": uri, "version": i + 3}, "contentChanges": [{"text": text + "\n; %d\n" % i}]}))
        elif k < 0.7:
            msgs.append(("notif", "textDocument/didSave", {"textDocument": {"uri": uri}}))
        elif k < 0.85:
            msgs.append(("notif", "textDocument/didClose", {"textDocument": {"uri": uri}}))
        if rng.random() < 0.5:
            msgs.append(("req", m, params))
    return msgs


def gen_backlog(rng, root, files):
    """many pooled requests on a document of some size and the shutdown right behind them: requests still queued when
    the shutdown arrives belong to "everything it received before the shutdown" and must be answered"""
    g = goldgen.Gen(rng, max_depth=2)
    f = rng.choice(files[:4])
    uri = lsp.file_uri(f)
    nm = os.path.basename(f)[:-4]
    body, _, _ = g.gen_program(n_decls=rng.randint(300, 700), header="none")
    msgs = [("notif", "textDocument/didChange", {"textDocument": {"uri": uri, "version": 2}, "contentChanges": [{"text": "class %s\n" % nm + body}]})]
    for i in range(rng.randint(120, 300)):
        m = rng.choice(SUPPORTED_POS + ["textDocument/diagnostic", "textDocument/diagnostic"])
        pos = {"line": rng.randint(0, 200), "character": rng.choice([0, 2, 4, 7])}
        msgs.append(("req", m, {"textDocument": {"uri": uri}, "position": pos} if m in SUPPORTED_POS else {"textDocument": {"uri": uri}}))
    return msgs


def run_script(binary, seed):
    rng = random.Random(seed)
    root = tempfile.mkdtemp(prefix="goldverif-c01-")
    try:
        files = make_workspace(rng, root)
        msgs = (gen_burst(rng, root, files) if seed % 8 == 7 else gen_backlog(rng, root, files) if seed % 8 == 3
                else gen_twins(rng, root, files) if seed % 8 == 5 else gen_script(rng, root, files))
        s = lsp.Session(binary, root)
        init = s.initialize(root)
        if init is None:
            s.kill()
            return dict(seed=seed, error="no initialize response", stderr="".join(s.stderr[-20:]))
        if rng.random() < 0.5:
            time.sleep(rng.choice([0.0, 0.05, 0.3]))     # sometimes while the class tree is still being built
        ids = []
        items = []
        nid = 1
        for (kind, m, params) in msgs:
            if kind == "req":
                s.request(nid, m, params)
                ids.append(nid)
                items.append("R%d:%s" % (nid, m))
                nid += 1
            else:
                s.notify(m, params)
                items.append("N:%s" % m)
            if rng.random() < 0.1 and seed % 8 != 3:        # (a backlog script is sent without pauses)
                time.sleep(0.01)
        sid = 1000
        resp, rc = s.shutdown_exit(sid, timeout=40)
        items += ["S%d" % sid, "E"]
        got = [m.get("id") for m in s.responses if ("result" in m or "error" in m) and m.get("id") != 0]
        server_requests = [m for m in s.responses if "method" in m and "id" in m]
        return dict(seed=seed, script=",".join(items), sent_ids=ids + [sid], got=sorted(got), rc=rc,
                    panicked=s.panicked(), n_msgs=len(msgs), stderr_tail="".join(s.stderr[-8:]) if (s.panicked() or rc != 0) else "",
                    msgs=[(k, m) for (k, m, _) in msgs], server_requests=len(server_requests))
    finally:
        shutil.rmtree(root, ignore_errors=True)


def oracle(r):
    if r.get("error"):
        return r["error"]
    if r["panicked"]:
        return "a thread of the server panicked: " + r["stderr_tail"][-300:]
    want = sorted(r["sent_ids"])
    if r["got"] != want:
        missing = [i for i in want if i not in r["got"]]
        extra = [i for i in r["got"] if r["got"].count(i) > want.count(i)]
        return "response ids differ from request ids: unanswered %r, duplicated or unknown %r" % (missing, sorted(set(extra)))
    if r["rc"] != 0:
        return "exit status %r after shutdown;exit" % (r["rc"],)
    return None


def correspondence(ctx, broken_obligations=()):
    binary = lsp.build_server()
    n = 400 if ctx.quick else 5000
    seeds = [ctx.seed * 100000 + i for i in range(n)]
    t0 = time.time()
    with ThreadPoolExecutor(max_workers=core.NCPU) as ex:
        results = list(ex.map(lambda sd: run_script(binary, sd), seeds))
    # the model's prediction for each script
    mb = diff.Engines.model()
    scripts = [r.get("script", "E") for r in results]
    pred = core.run_lines(mb, "server", scripts)
    disagreements = 0
    hist = {}
    for r, p in zip(results, pred):
        for (k, m) in r.get("msgs", []):
            hist[m] = hist.get(m, 0) + 1
        bad = oracle(r)
        if not r.get("error"):
            obs = " ".join(map(str, r["got"])) + "|" + ("0" if r["rc"] == 0 else "1")
            if obs != p:
                disagreements += 1
                bad = bad or ("model predicts %r, observed %r" % (p, obs))
        if bad:
            path = core.write_replay(ctx.pid, ctx.seed, {"engine": "E-bb", "case": r["seed"], "script": r.get("script"),
                                                       "observed": {k: r.get(k) for k in ("got", "rc", "panicked", "stderr_tail")},
                                                       "model": p, "expected": bad})
            v = core.Violation(bad, path, True)
            v.coverage = dict(programs=len(results), evaluations=len(results), disagreements_checked=disagreements)
            raise v
    # forced schedules at the yield points (hooks build): a request parked at each yield point while the change
    # notification runs (and the other way round) - everything must return
    hb = diff.Engines.harness(hooks=True)
    fcases = ["two:changed:%d:%d:%s:c;%s" % (a, b, o, k) for a in range(4) for b in (4, 3) for o in ("ab", "ba")
              for k in ("completion", "diagnostics", "definition")]
    fcases += ["%s;%s" % (sc, k) for sc in ("change_window", "analyze_pair", "publish_pair", "parse_pair") for k in ("completion", "diagnostics", "definition")]
    fouts = core.run_lines(hb, "sched", fcases, shards=min(core.NCPU, len(fcases)))
    for c, o in zip(fcases, fouts):
        if o.startswith(("HANG", "PANIC", "CRASH")):
            bad = "forced schedule %s: a request or the change notification never returned or panicked (%s)" % (c, o)
            path = core.write_replay(ctx.pid, ctx.seed, {"engine": "E-sched", "case": c, "observed": o, "expected": bad})
            v = core.Violation(bad, path, True)
            v.coverage = dict(programs=len(results), evaluations=len(results), disagreements_checked=disagreements)
            raise v
    cov = dict(programs=len(results), evaluations=len(results), forced_schedules_returning=len(fcases),
               distinct_nontrivial=len(set(r["script"] for r in results if r.get("n_msgs", 0) >= 3)),
               disagreements_checked=disagreements, message_histogram=hist,
               rule="generated pipelined scripts of 1..30 messages (7 supported methods, 6 unsupported, 4+2 notification kinds; URIs of well-formed, "
                    "mutated, garbage and missing files; positions inside and far outside) over a generated 2-5 file workspace, ended by shutdown;exit; "
                    "non-trivial = at least 3 messages",
               samples=[results[0].get("script", "")[:300], results[-1].get("script", "")[:300]],
               bb_wall_s=round(time.time() - t0, 1))
    return cov


def replay(ctx, rep):
    if rep.get("engine") == "E-sched":
        o = core.run_lines(diff.Engines.harness(hooks=True), "sched", [rep["case"]], shards=1)[0]
        print("forced schedule:", rep["case"]); print("observed:", o)
        if o.startswith(("HANG", "PANIC", "CRASH")):
            print("VIOLATION property=C01 replay=%s" % rep.get("how_to_rerun", "?").split()[-1])
            return 1
        print("property holds on this schedule")
        return 0
    binary = lsp.build_server()
    r = run_script(binary, rep["case"])
    bad = oracle(r)
    print("script:", r.get("script")); print("observed ids:", r.get("got"), "rc", r.get("rc"), "panicked", r.get("panicked"))
    print("oracle:", bad or "property holds on this script")
    if bad:
        print("VIOLATION property=C01 replay=%s" % rep.get("how_to_rerun", "?").split()[-1])
        return 1
    return 0
