"""C10  Go-to-definition lands on the declaration the scoping rules select."""
from vlib import core, diff
from checks import sem_common as S

PID = "C10"
KINDS = "D"

MANIFEST = dict(
    engine="E-sem",
    technique="Coq proof: the resolution the definition service performs on the symbol tables the annotator builds (C18 model: search_wparent / search_all on the chain method table :: class table :: ancestors' tables, then the `uses` loop) equals the declarative scoping rules, for all abstract workspaces; tied to the code by a differential run of the extracted model against ProjectManager::generate_goto_definitions on rendered workspaces",
    text=("PARTIAL. Theorems over the Gallina model Model/Scoping.v of the scoping core (abstract workspace = entities with "
          "parent, uses, members, methods with parameters and locals; tables built as handle_class / handle_*_decl / "
          "notify_new_scope build them; look-ups as search_sym_info_w_class / search_all_symbol_info perform them), for ALL "
          "workspaces: a plain identifier resolves to the latest local/parameter of that name, else the member of the class, "
          "else of the nearest ancestor, else a constant/type of a used entity in uses order (C10_plain, exact guard on "
          "`uses`; C10_plain_in_chain unguarded); a name after a dot resolves to one declaration per declaring ancestor, "
          "nearest first (C10_member; C10_member_in_context from inside any class, the enclosing one included); the declared "
          "names of fields, constants, types and methods; every target is a declaration of that name in the linked entity (C10_target_*); letter "
          "case of identifier and class is irrelevant; unresolved -> empty; the lineage fuel suffices in a forest; re-casing the references STORED in the "
          "workspace (parent classes, uses, declared type names incl. aliases / refto / listof; ws_sim) leaves the symbol "
          "tables, every definition answer and the static class of every dotted operand unchanged "
          "(C10_workspace_recase*, no well-formedness needed; C10_spelling_test_immaterial). Three "
          "*_refuted theorems state where /repo departs from the wording (uses, class names, forward reference in a chain); "
          "one states the defect of the step repaired by 945552f. The model is tied to /repo by rendering generated "
          "workspaces (forests to depth 4, overriding, shadowing, modules, uses, aliases, chains, calls, any letter case) to "
          "Gold files and comparing, for every identifier occurrence, the links of generate_goto_definitions (twice, 10 s "
          "watchdog) with the extracted model's answer mapped through the table of rendered declaration positions; an "
          "independent oracle evaluates the property's wording on the implementation's answers; every returned range is "
          "checked well-formed with selection inside target. Metamorphic stage: pairs (workspace, same workspace with the stored "
          "references re-cased) at identical positions: implementation and model answer both variants identically."),
    note=("partial: proved for the scoping core on abstract workspaces; the rendering of a workspace to files, the parser, the "
          "annotated tree, the position -> node step (search_encasing_node) and the eval-type annotation of expressions are "
          "validated by the differential run only. Trusted: Coq kernel, extraction (ExtrOcamlBasic), harness, renderer in "
          "checks/sem_common.py. Assumes unique entity names ignoring case = file stems, parents forming a forest, ASCII names, "
          "top-level constants/types/fields declared before the first method, locals declared at the top of the body."),
    design="6 C10",
    engines=[dict(name="E-sem", path="harness/src/eng_sem.rs + coq/extract/eng_sem.ml",
                  kind_free_text="differential: ProjectManager::generate_goto_definitions / generate_completion_proposals on a rendered temp workspace (positional queries) vs the extracted Coq scoping model (abstract queries); answers = ordered (target stem, selection range) lists / sorted label lists")],
)

ASSUMPTIONS = [
    "entity names are unique ignoring case and equal to their file stems; parent links form a forest (cycles: C13/C14); names are ASCII over [A-Za-z0-9_] and none is a keyword, a native type name or an intrinsic (WriteLn, Write, Concat)",
    "inside a file: class/module header, uses, then constants, types and fields, then the methods; a constant/type/field declared AFTER a method is registered in that method's table by the annotator (observed: it is then invisible everywhere else) and is outside the model",
    "local variables are declared at the top of the method body (a `var` after its first use is not yet in the table when the use is annotated: C15 use-before-declaration)",
    "declared types are native names, class/module names, refto/listof of those, unknown names, or aliases (`type t : <native | class | refto class>`) declared textually before their use; no declared type name equals a variable or field name visible at that point; no member or variable is called `self` or like a class/module",
    "the declared type of a MEMBER (field, function, alias) never needs a `uses` look-up: it is native, a class/module, listof, refto, or an alias declared by the class or an ancestor; parameters and locals use aliases through `uses` and unknown type names freely. Observed otherwise: a member's declared type is evaluated whenever its file is analysed as a dependency; a `uses` look-up made then analyses further files while the tables of others are published but still empty, and the answer to one and the same request depends on which file was requested first (class aBase `uses aSub`, `F : tSub`, aSub (aBase) declares `type tSub : aOther`: `s.F.X` in a third file resolves only if aBase was requested before)",
    "no method name is declared twice in one entity (each procedure/function has one body scope)",
    "inside method m of class C a dotted chain that runs through a strict descendant D of C does not continue with a name that C declares as a method after m (what D's tables see of C at that moment depends on the history of requests: the tables of D are built on demand)",
    "the statement directly after an incomplete line `x.` starts with a keyword (the parser's empty operand extends to the next token, which swallows a cursor placed there)",
    "HashMap iteration order is not observed: completion labels are compared sorted; definition links are compared in the order returned",
]


def nontrivial(line):
    """some definition query is expected to land in ANOTHER file, or to list several declarations"""
    case = S.Case.parse(line)
    sem = S.Sem(case.ws)
    for (k, stem, l, c, qu) in case.queries:
        if k != "D":
            continue
        for ok in sem.expected(k, qu):
            if len(ok) > 1 or (ok and ok[0][0] != stem):
                return True
    return False


def correspondence(ctx, broken_obligations=()):
    S.replay_witnesses(ctx, PID, KINDS)
    S.replay_regressions(ctx, PID, KINDS)
    cases, hist = S.gen_cases(ctx, KINDS)
    meta = coverage_meta(cases, hist)
    try:
        cov = diff.differential(ctx, "sem", cases, oracle=S.oracle, known=S.make_known(ctx), shrinker=S.shrinker,
                                nontrivial=nontrivial, describe=S.describe, canon=S.canon)
    except core.Violation as v:
        v.coverage = dict(getattr(v, "coverage", {}) or {}, **meta)
        raise
    cov.update(meta)
    cov.update(S.recase_stage(ctx, PID, KINDS))
    return cov


def coverage_meta(cases, hist):
    cov = {}
    nq = sum(hist.values())
    cov["requests"] = nq
    cov["rule"] = ("%d generated workspaces (2..6 classes in inheritance forests up to depth 4, 0..2 modules, sometimes a class "
                   "aListOfInstances, a missing parent, a non-indexed `uses`; members re-declared down the chain in other letter "
                   "case, members of another kind under the same name, parameters/locals named like members or like each other; "
                   "declared types native / class / refto / listof / alias / unknown; bodies of assignments, calls with "
                   "arguments, if-blocks, partial names and dangling dots over chains of up to 3 dots through fields, functions "
                   "(with and without call brackets), self, class and module qualifiers, used entities' members and unknown "
                   "names, every reference in random letter case) rendered to one Gold file per entity; one definition request "
                   "(repeated once) at the first character, and often the last character / the end, of EVERY identifier "
                   "occurrence: statement identifiers, names after dots, call names and arguments, type references, the parent "
                   "class, declared names of methods / fields / constants / types, return types; %d requests in all; first the "
                   "%d witness workspaces of the refuted clauses and of the repaired defects (regression cases); non-trivial = some request expected to land in another file or "
                   "to list several declarations" % (len(cases) - len(S.DEVS_OF[PID]) - len(S.REGRESSIONS[PID]), nq, len(S.DEVS_OF[PID]) + len(S.REGRESSIONS[PID])))
    cov["input_histogram"] = {"P plain identifier / type reference / return type": hist.get("P", 0), "M name after a dot": hist.get("M", 0),
                              "N declared name of a method": hist.get("N", 0),
                              "G declared name of a constant/type/field": hist.get("G", 0)}
    cov["samples"] = [S.describe(cases[0]), S.describe(cases[len(cases) // 2])]
    cov["refuted_or_partial"] = [
        "partial: scoping core proved on abstract workspaces; rendering, parser, annotated tree, position -> node validated by the differential run",
        "C10_plain_refuted_uses (class %s)" % S.DEV_USES,
        "C10_plain_refuted_entity_name (class names and `self` resolve to the class symbol: accepted by the oracle as the declaration of that entity or nothing)",
        "C10_chain_refuted_forward (class %s)" % S.DEV_FWD,
        "C10_old_member_refuted_local (the step before fix 945552f; regression case %s)" % S.FIX_OWN,
    ]
    return cov


def replay(ctx, rep):
    return S.replay(ctx, rep, PID)
