"""C10  Go-to-definition lands on the declaration the scoping rules select."""
import glob, os, random
from vlib import core, diff, goldgen
from checks import sem_common as S

PID = "C10"
KINDS = "D"

MANIFEST = dict(
    engine="E-sem",
    technique="Coq proof: the resolution the definition service performs on the symbol tables the annotator builds (C18 model: search_wparent / search_all on the chain method table :: class table :: ancestors' tables, then the `uses` loop) equals the declarative scoping rules, for all abstract workspaces; tied to the code by a differential run of the extracted model against ProjectManager::generate_goto_definitions on rendered workspaces",
    text=("PARTIAL. Theorems over the Gallina model Model/Scoping.v of the scoping core (abstract workspace = entities with "
          "parent, uses, members, methods with parameters and locals; tables built as handle_class / handle_*_decl / "
          "notify_new_scope build them; look-ups as search_sym_info_w_class / search_all_symbol_info perform them), for ALL "
          "workspaces: a plain identifier resolves to the latest local/parameter of that name, else the member of the class, "
          "else of the nearest ancestor, else a constant/type of a used entity in uses order (C10_plain, exact guard on "
          "`uses`; C10_plain_in_chain unguarded); a name after a dot resolves to one declaration per declaring ancestor, "
          "nearest first (C10_member; C10_member_in_context from inside any class, the enclosing one included); the declared "
          "names of fields, constants, types and methods; every target is a declaration of that name in the linked entity (C10_target_*); letter "
          "case of identifier and class is irrelevant; unresolved -> empty; the lineage fuel suffices in a forest; re-casing the references STORED in the "
          "workspace (parent classes, uses, declared type names incl. aliases / refto / listof; ws_sim) leaves the symbol "
          "tables, every definition answer and the static class of every dotted operand unchanged "
          "(C10_workspace_recase*, no well-formedness needed; C10_spelling_test_immaterial). Three "
          "*_refuted theorems state where /repo departs from the wording (uses, class names, forward reference in a chain); "
          "one states the defect of the step repaired by 945552f. The model is tied to /repo by rendering generated "
          "workspaces (forests to depth 4, overriding, shadowing, modules, uses, aliases, chains, calls, any letter case) to "
          "Gold files and comparing, for every identifier occurrence, the links of generate_goto_definitions (twice, 10 s "
          "watchdog) with the extracted model's answer mapped through the table of rendered declaration positions; an "
          "independent oracle evaluates the property's wording on the implementation's answers; every returned range is "
          "checked well-formed with selection inside target. Metamorphic stage: pairs (workspace, same workspace with the stored "
          "references re-cased) at identical positions: implementation and model answer both variants identically."),
    note=("partial: proved for the scoping core on abstract workspaces; the rendering of a workspace to files, the parser, the "
          "annotated tree, the position -> node step (search_encasing_node) and the eval-type annotation of expressions are "
          "validated by the differential run only. Trusted: Coq kernel, extraction (ExtrOcamlBasic), harness, renderer in "
          "checks/sem_common.py. Assumes unique entity names ignoring case = file stems, parents forming a forest, ASCII names, "
          "top-level constants/types/fields declared before the first method, locals declared at the top of the body."),
    design="6 C10",
    engines=[dict(name="E-sem", path="harness/src/eng_sem.rs + coq/extract/eng_sem.ml",
                  kind_free_text="differential: ProjectManager::generate_goto_definitions / generate_completion_proposals on a rendered temp workspace (positional queries) vs the extracted Coq scoping model (abstract queries); answers = ordered (target stem, selection range) lists / sorted label lists"),
             dict(name="E-deftree", path="harness/src/eng_deftree.rs + coq/extract/eng_deftree.ml",
                  kind_free_text="two-phase differential: real lexer+parser+ProjectManager (one-file temp workspace) go-to-definition and completion at the start / middle / end of every identifier token vs the extracted DefTree.definition / DefTree.completion on the dumped tree; parts needing another document are classified Outside by the model and skipped (counted); C10_tree_* / C11_tree_* tie these answers to the abstract model on entity_of_tree"),
             dict(name="E-wstree", path="harness/src/eng_wstree.rs + coq/extract/eng_wstree.ml",
                  kind_free_text="two-phase differential on WORKSPACES of files: real lexer+parser on every file (trees dumped), per file a fresh ProjectManager on the temp workspace answering go-to-definition and completion at the start / middle / end of every identifier token vs the extracted WsTree.wdefinition / WsTree.wcompletion on the dumped trees (parent linking through the class index with the cycle guard, definitions-only tables of ancestors, the `uses` loop, target = file stem + selection range; operands before a dot: self / own name / another indexed entity / a variable, parameter or field of native, indexed-class, refto or listof type); dotted chains, calls, aliases and unknown type names before a dot are left Outside; C10_ws_* / C11_ws_* tie these answers to the abstract model on map entity_of_tree ws"),
             dict(name="E-annot", path="harness/src/eng_annot.rs + coq/extract/eng_annot.ml",
                  kind_free_text="two-phase differential: real lexer+parser+AstAnnotator (full and definitions-only mode; root table and every method node's table: for_class_or_module, symbols in iter_symbols order with id / SymbolType / selection_range / range, uses) vs the extracted Coq model Annot.annotate on the dumped tree; C10_tables_from_tree* tie these tables to Scoping.root_table / method_table")],
)

ASSUMPTIONS = [
    "entity names are unique ignoring case and equal to their file stems; parent links form a forest (cycles: C13/C14); names are ASCII over [A-Za-z0-9_] and none is a keyword, a native type name or an intrinsic (WriteLn, Write, Concat)",
    "inside a file: class/module header, uses, then constants, types and fields, then the methods; a constant/type/field declared AFTER a method is registered in that method's table by the annotator (observed: it is then invisible everywhere else) and is outside the model",
    "local variables are declared at the top of the method body (a `var` after its first use is not yet in the table when the use is annotated: C15 use-before-declaration)",
    "declared types are native names, class/module names, refto/listof of those, unknown names, or aliases (`type t : <native | class | refto class>`) declared textually before their use; no declared type name equals a variable or field name visible at that point; no member or variable is called `self` or like a class/module",
    "the declared type of a MEMBER (field, function, alias) never needs a `uses` look-up: it is native, a class/module, listof, refto, or an alias declared by the class or an ancestor; parameters and locals use aliases through `uses` and unknown type names freely. Observed otherwise: a member's declared type is evaluated whenever its file is analysed as a dependency; a `uses` look-up made then analyses further files while the tables of others are published but still empty, and the answer to one and the same request depends on which file was requested first (class aBase `uses aSub`, `F : tSub`, aSub (aBase) declares `type tSub : aOther`: `s.F.X` in a third file resolves only if aBase was requested before)",
    "no method name is declared twice in one entity (each procedure/function has one body scope)",
    "inside method m of class C a dotted chain that runs through a strict descendant D of C does not continue with a name that C declares as a method after m (what D's tables see of C at that moment depends on the history of requests: the tables of D are built on demand)",
    "the statement directly after an incomplete line `x.` starts with a keyword (the parser's empty operand extends to the next token, which swallows a cursor placed there)",
    "workspace-level tree tie (C10_ws_*, C11_ws_*, engine wstree): one request session = a fresh ProjectManager asked about ONE file (that file annotated in the full mode, every other file definitions-only, on demand); on a parent cycle the chain of the REQUESTED file is modelled when the class header is the first child of the root of every file on the path (the order of annotation is then fixed), a USED entity on a parent cycle is left Outside; the refinement theorems assume no lineage walk comes back (ws_acyclic: with the cycle guard the code CUTS the chain, Scoping.lineage walks round until its fuel ends - C10_ws_cycle_guard), every file called like its header, pairwise distinct stems ignoring case",
    "tree-level tie (C10_tables_from_tree*, engine annot): the annotated tree is built from get_children_arc while the dump reports get_children_ref (treedump.rs flags a disagreement of the two views with attribute 99; none observed); non-Option struct fields (identifier tokens, name node of a method) are always present in a dumped tree - for other `node` values the model uses range 0; symbol payload other than id / sym_type / selection_range / range (eval_type, type_str, parent) and the parent link of the root table are not part of the tree-level model",
    "HashMap iteration order is not observed: completion labels are compared sorted; definition links are compared in the order returned",
]


def nontrivial(line):
    """some definition query is expected to land in ANOTHER file, or to list several declarations"""
    case = S.Case.parse(line)
    sem = S.Sem(case.ws)
    for (k, stem, l, c, qu) in case.queries:
        if k != "D":
            continue
        for ok in sem.expected(k, qu):
            if len(ok) > 1 or (ok and ok[0][0] != stem):
                return True
    return False


def correspondence(ctx, broken_obligations=()):
    S.replay_witnesses(ctx, PID, KINDS)
    S.replay_regressions(ctx, PID, KINDS)
    cases, hist = S.gen_cases(ctx, KINDS)
    meta = coverage_meta(cases, hist)
    try:
        cov = diff.differential(ctx, "sem", cases, oracle=S.oracle, known=S.make_known(ctx), shrinker=S.shrinker,
                                nontrivial=nontrivial, describe=S.describe, canon=S.canon)
    except core.Violation as v:
        v.coverage = dict(getattr(v, "coverage", {}) or {}, **meta)
        raise
    cov.update(meta)
    cov.update(S.recase_stage(ctx, PID, KINDS))
    # the three tree-level stages: a disagreement the oracle accepts (no failing input) is kept pending while the later
    # stages look for a concrete input on which the property's own statement fails
    pending = None
    for name, stage in (("annot", annot_stage), ("deftree", deftree_stage), ("wstree", wstree_stage)):
        try:
            cov[name] = stage(ctx)
        except core.Violation as v:
            if getattr(v, "found_input", True):
                v.coverage = dict(cov, **(getattr(v, "coverage", {}) or {}))
                raise
            pending = pending or v
    if pending is not None:
        pending.coverage = dict(cov, **(getattr(pending, "coverage", {}) or {}))
        raise pending
    return cov


def coverage_meta(cases, hist):
    cov = {}
    nq = sum(hist.values())
    cov["requests"] = nq
    cov["rule"] = ("%d generated workspaces (2..6 classes in inheritance forests up to depth 4, 0..2 modules, sometimes a class "
                   "aListOfInstances, a missing parent, a non-indexed `uses`; members re-declared down the chain in other letter "
                   "case, members of another kind under the same name, parameters/locals named like members or like each other; "
                   "declared types native / class / refto / listof / alias / unknown; bodies of assignments, calls with "
                   "arguments, if-blocks, partial names and dangling dots over chains of up to 3 dots through fields, functions "
                   "(with and without call brackets), self, class and module qualifiers, used entities' members and unknown "
                   "names, every reference in random letter case) rendered to one Gold file per entity; one definition request "
                   "(repeated once) at the first character, and often the last character / the end, of EVERY identifier "
                   "occurrence: statement identifiers, names after dots, call names and arguments, type references, the parent "
                   "class, declared names of methods / fields / constants / types, return types; %d requests in all; first the "
                   "%d witness workspaces of the refuted clauses and of the repaired defects (regression cases); non-trivial = some request expected to land in another file or "
                   "to list several declarations" % (len(cases) - len(S.DEVS_OF[PID]) - len(S.REGRESSIONS[PID]), nq, len(S.DEVS_OF[PID]) + len(S.REGRESSIONS[PID])))
    cov["input_histogram"] = {"P plain identifier / type reference / return type": hist.get("P", 0), "M name after a dot": hist.get("M", 0),
                              "N declared name of a method": hist.get("N", 0),
                              "G declared name of a constant/type/field": hist.get("G", 0)}
    cov["samples"] = [S.describe(cases[0]), S.describe(cases[len(cases) // 2])]
    cov["refuted_or_partial"] = [
        "partial: scoping core proved on abstract workspaces; rendering, parser, annotated tree, position -> node validated by the differential run",
        "C10_plain_refuted_uses (class %s)" % S.DEV_USES,
        "C10_plain_refuted_entity_name (class names and `self` resolve to the class symbol: accepted by the oracle as the declaration of that entity or nothing)",
        "C10_chain_refuted_forward (class %s)" % S.DEV_FWD,
        "C10_old_member_refuted_local (the step before fix 945552f; regression case %s)" % S.FIX_OWN,
    ]
    return cov


def replay(ctx, rep):
    if rep.get("engine") == "annot":
        diff.differential(ctx, "annot", [rep["case"]], split=lambda out: tuple(out.split("#", 1)), oracle=annot_oracle,
                          describe=annot_describe)
        return 0
    if rep.get("engine") == "deftree":
        _dt_fill_positions([rep["case"]])
        diff.differential(ctx, "deftree", [rep["case"]], split=dt_split, oracle=dt_oracle, canon=dt_canon, describe=annot_describe)
        return 0
    if rep.get("engine") == "wstree":
        case = rep["case"]
        for stem, text in ws_files(case):
            print("--- %s.god" % stem)
            print(text)
        raw = _ws_fill_positions([case])
        impl = raw[0].split("#", 1)[1] if "#" in raw[0] else raw[0]
        mod = core.run_lines(diff.Engines.model(), "wstree", raw)[0]
        print("implementation :", impl[:1500])
        print("model          :", mod[:1500])
        print("oracle         :", ws_oracle(case, dt_canon(impl)))
        try:
            diff.differential(ctx, "wstree", [case], split=dt_split, oracle=ws_oracle, canon=dt_canon, describe=ws_describe)
        except core.Violation as v:
            print("VIOLATION property=%s replay=%s" % (PID, rep.get("how_to_rerun", "").split()[-1] if rep.get("how_to_rerun") else getattr(v, "replay", "?")))
            return 1
        print("implementation and model agree, the oracle accepts the implementation's answers")
        return 0
    return S.replay(ctx, rep, PID)


# =============================================================================================
# tree-level tie: the symbol tables the abstract theorems talk about ARE the tables AstAnnotator
# builds from the real syntax tree (Model/Annot.v, Proofs/AnnotProofs.v, C10_tables_from_tree*)
# engine `annot` (two-phase): text -> real lexer+parser -> tree dump -> real AstAnnotator (full and
# definitions-only) vs the extracted Annot.annotate on the dumped tree
# =============================================================================================
A_NAMES = ["Foo", "foo", "FOO", "Bar", "bar", "Count", "count", "x", "X", "y", "Item", "item", "self", "Self", "Run", "run",
           "Init", "Value", "value", "tRef", "cMax", "theList", "aThing", "Zed9", "a_b", "I4"]
A_TYPES = ["int4", "Int4", "cstring", "CString", "boolean", "aThing", "aOther", "tRef", "Num8", "text"]


A_TP = "tp_"           # reserved prefix: names of parameters of procedure / function TYPES


def a_cps(t):
    return ".".join(str(ord(c)) for c in t)


def a_text(case):
    head = case.split("@")[0].strip()
    return "".join(chr(int(x)) for x in head.split(".")) if head else ""


class AGen:
    """Gold classes / modules shaped like the files the scoping model abstracts, plus the declarations the
       annotator treats specially: procedure / function TYPES (their parameters are declaration nodes), locals in
       nested blocks, Name#Event methods, forward / external methods, duplicate names, names differing in case
       only, parameters without type, declarations / uses / headers after methods."""

    def __init__(self, rng):
        self.r = rng

    def name(self):
        return self.r.choice(A_NAMES)

    def ty(self, depth=0):
        r = self.r
        k = r.random()
        if k < 0.55:
            return r.choice(A_TYPES)
        if k < 0.65:
            return "refTo " + r.choice(["aThing", "aOther", "[P,A] aThing"])
        if k < 0.75:
            return "listOf " + r.choice(["aThing", "[O] aOther"])
        if k < 0.9 and depth < 2:
            return "procedure (%s)" % self.params(depth + 1, of_type=True) if r.random() < 0.8 else "procedure"
        if depth < 2:
            return "function (%s) return %s" % (self.params(depth + 1, of_type=True), r.choice(A_TYPES))
        return r.choice(A_TYPES)

    def params(self, depth=0, of_type=False):
        """of_type: the parameters of a procedure / function TYPE; their names carry the reserved prefix tp_ (no
           other name of a generated or fixed document does), see annot_oracle"""
        r = self.r
        ps = []
        for _ in range(r.randint(0, 3)):
            k = r.random()
            mod = r.choice(["", "", "", "inOut ", "var ", "const "])
            nm = (A_TP + self.name()) if of_type else self.name()
            if k < 0.12:
                ps.append(mod + nm)                                   # no type
            else:
                ps.append("%s%s : %s" % (mod, nm, self.ty(depth)))
        return ", ".join(ps)

    def stmts(self, depth, out, ind):
        r = self.r
        for _ in range(r.randint(0, 3)):
            k = r.random()
            pad = " " * ind
            if k < 0.35:
                out.append("%svar %s : %s" % (pad, self.name(), self.ty(1)))
            elif k < 0.55:
                out.append("%s%s = %s + 1" % (pad, self.name(), self.name()))
            elif k < 0.65:
                out.append("%swriteln(%s.%s)" % (pad, self.name(), self.name()))
            elif k < 0.8 and depth < 3:
                out.append("%sif %s > 0" % (pad, self.name()))
                self.stmts(depth + 1, out, ind + 2)
                if r.random() < 0.4:
                    out.append(pad + "else")
                    self.stmts(depth + 1, out, ind + 2)
                out.append(pad + "endif")
            elif k < 0.9 and depth < 3:
                isloop = r.random() < 0.5
                out.append(pad + ("loop" if isloop else "while %s < 3" % self.name()))
                self.stmts(depth + 1, out, ind + 2)
                out.append(pad + ("endLoop" if isloop else "endWhile"))
            else:
                out.append("%s; %s" % (pad, self.name()))

    def method(self):
        r = self.r
        out = []
        isf = r.random() < 0.4
        nm = self.name() + ("#" + self.name() if r.random() < 0.15 else "")
        head = "%s %s" % (r.choice(["func", "function", "Func"]) if isf else r.choice(["proc", "procedure", "Proc"]), nm)
        if r.random() < 0.7:
            head += "(%s)" % self.params()
        if isf:
            head += " return " + r.choice(A_TYPES)
        k = r.random()
        if k < 0.1:
            out.append(head + " forward")
            return out
        if k < 0.15:
            out.append(head + " external 'some.dll'")
            return out
        if k < 0.3:
            head += r.choice([" private", " protected override", " final"])
        out.append(head)
        self.stmts(0, out, 2)
        out.append(r.choice(["endfunc", "endFunc"]) if isf else r.choice(["endproc", "endProc"]))
        return out

    def decl(self):
        r = self.r
        k = r.random()
        if k < 0.25:
            return ["const %s = %s" % (self.name(), r.choice(["1", "42", "'txt'", "-1"]))]
        if k < 0.5:
            return ["type %s : %s" % (self.name(), self.ty())]
        if k < 0.55:
            return ["type %s : record" % self.name(), "  %s : int4" % self.name(), "  %s : cstring" % self.name(), "endRecord"]
        return ["%s%s : %s" % (r.choice(["", "", "memory "]), self.name(), self.ty())]

    def header(self):
        r = self.r
        k = r.random()
        n = r.choice(["aThing", "aOther", "athing", "Foo"])
        if k < 0.55:
            return ["class " + n]
        if k < 0.75:
            return ["class %s (%s)" % (n, r.choice(["aBase", n, n.upper()]))]
        return ["module " + n]

    def uses(self):
        r = self.r
        return ["uses " + ", ".join(r.sample(["aLib", "aBase", "aUtil", "aOther", "alib"], r.randint(1, 3)))]

    def program(self):
        r = self.r
        lines = []
        k = r.random()
        if k < 0.85:
            lines += self.header()
        for _ in range(r.choice([0, 1, 1, 2])):
            lines += self.uses()
        for _ in range(r.randint(0, 5)):
            lines += self.decl()
        for _ in range(r.randint(0, 4)):
            lines += self.method()
            if r.random() < 0.12:                                     # something after a method
                lines += r.choice([self.decl, self.uses, self.header])()
        if r.random() < 0.1:
            lines.insert(r.randint(0, len(lines)), "")
        return "\n".join(lines) + ("\n" if r.random() < 0.9 else "")


def a_mutate(rng, text):
    """hostile variants of a document"""
    lines = text.split("\n")
    k = rng.random()
    if not lines or k < 0.08:
        return text[:rng.randint(0, len(text))]                      # truncated file
    i = rng.randrange(len(lines))
    if k < 0.25:                                                      # duplicate a line (duplicate names)
        lines.insert(rng.randint(0, len(lines)), lines[i])
    elif k < 0.4:                                                     # the same line in another letter case
        lines.insert(rng.randint(0, len(lines)), rng.choice([lines[i].upper(), lines[i].lower(), lines[i].swapcase()]))
    elif k < 0.5:                                                     # drop a declared type
        lines[i] = lines[i].split(":")[0] if ":" in lines[i] else lines[i]
    elif k < 0.6:                                                     # Name#Event
        lines[i] = re_sub_first(lines[i])
    elif k < 0.72:                                                    # move a line to the end (declaration after methods)
        lines.append(lines.pop(i))
    elif k < 0.8:                                                     # delete a line (unterminated blocks / methods)
        lines.pop(i)
    elif k < 0.9 and lines[i]:                                        # delete / insert a character
        j = rng.randrange(len(lines[i]))
        lines[i] = lines[i][:j] + rng.choice(["", "", "(", ")", ":", ",", "#", " ", "'", "é", ";", "\t", "\r"]) + lines[i][j + 1:]
    else:                                                             # swap two lines
        j = rng.randrange(len(lines))
        lines[i], lines[j] = lines[j], lines[i]
    return "\n".join(lines)


def re_sub_first(line):
    import re
    return re.sub(r"^(\s*(?:proc|procedure|func|function)\s+\w+)", r"\1#Evt", line, count=1, flags=re.I)


A_FIXED = [
    "",
    "class aFoo",
    "module aMod\nconst c = 1\nproc P\nendproc\n",
    "class aFoo (aFoo)\nuses aLib, aLib2\nconst cA = 1\ntype tCb : procedure(tp_x : int4)\nfa : int4\nproc Run(p : int4)\n var l : int4\n if p > 0\n  var inner : cstring\n endif\nendproc\nfb : int4\nuses zz\nfunc G#Ev(cb : procedure(tp_y : int4)) return int4 forward\nconst fa = 2\n",
    "class aFoo\nFa : int4\nfa : cstring\nFA : int4\nproc Run(Fa : int4, fa : int4)\n var FA : int4\n var Fa : int4\nendproc\nproc RUN\nendproc\n",
    "proc P(a, b : int4)\n var self : int4\nendproc\nclass aLate\nmodule aLater\n",
    "class aFoo\nproc A#B(x : int4)\nendproc\nfunc A#B return int4\nendfunc\nproc A # B\nendproc\n",
    "class aFoo\nproc P\n var a : int4\n",
    "class aFoo\nf : procedure(tp_a : procedure(tp_b : int4), tp_c : int4)\nproc P(cb : function(tp_q : int4) return int4)\n var v : procedure(tp_w : int4)\nendproc\n",
    # witness of the defect repaired by c14b1c2 (C10_old_type_param_leak_refuted / C10_fixed_type_param_leak)
    "class aFoo\ntype tCb : procedure(tp_xparam : int4)\nproc Run(p : int4)\n var cb : procedure(tp_y : int4)\n tp_xparam = 1\nendproc\n",
    "module aMod\ntype tFn : function(tp_a : int4, inOut tp_b : cstring) return int4\nfCb : procedure(tp_c : int4)\nfunc F(q : function(tp_d : int4) return int4) return int4\nendfunc\n",
]


def annot_parse_tables(obs):
    """'F<tables>|D<tables>' -> {mode: [ (cls, [(name, kind, sel, range)], [uses]) ]} ; None when not of that form"""
    def cps(s):
        return "" if s == "-" else "".join(chr(int(x)) for x in s.split("."))
    res = {}
    parts = obs.split("|")
    if len(parts) != 2 or not parts[0].startswith("FR") or not parts[1].startswith("DR"):
        return None
    for mode, part in (("F", parts[0][2:]), ("D", parts[1][2:])):
        tabs = []
        for t in part.split("M"):
            a, b = t.index("["), t.index("]")
            cls = None if t[:a] == "~" else cps(t[:a])
            syms = []
            for sy in t[a + 1:b].split(" "):
                if not sy:
                    continue
                nm, kd, sel, rg = sy.split("/")
                syms.append((cps(nm), int(kd), tuple(int(x) for x in sel.split(":")), tuple(int(x) for x in rg.split(":"))))
            uses = [cps(u) for u in t[b + 2:-1].split(" ") if u]
            tabs.append((cls, syms, uses))
        res[mode] = tabs
    return res


def annot_oracle(case, obs):
    """C10's clause about link ranges, on the implementation's output alone: the selection range of every symbol
       of every table is one line wide, lies inside the symbol's range, and the source text sliced by it is the
       symbol's name (`self`: the class name, i.e. the name of the symbol inserted just before it)."""
    if obs == "" or obs.startswith("X"):
        return None                     # lexer/parser did not return (C04's subject)
    if obs.startswith("PANIC") or obs == "CRASH" or obs.startswith("ERR") or "!DOCINFO" in obs:
        return "annotator did not deliver tables: %s" % obs[:200]
    tabs = annot_parse_tables(obs)
    if tabs is None:
        return "unreadable observation"
    lines = a_text(case).split("\n")
    tp_marked = case.endswith("@tp")
    for mode in ("F", "D"):
        for ti, (cls, syms, uses) in enumerate(tabs[mode]):
            prev = None
            for (nm, kd, sel, rg) in syms:
                where = "%s table %d symbol %r" % (mode, ti, nm)
                sl, sc, el, ec = sel
                if sl != el or sl >= len(lines):
                    return "%s: selection range %r not on one existing line" % (where, sel)
                want = prev if (nm == "self" and kd == 0 and prev is not None) else nm
                got = lines[sl][sc:ec]
                if "#" in want and kd in (3, 4):
                    got = "".join(got.split())        # `Name # Event`: the id is the two names joined by '#'
                if got != want:
                    return "%s: text at selection range %r is %r" % (where, sel, got)
                if not ((rg[0], rg[1]) <= (sl, sc) and (el, ec) <= (rg[2], rg[3])):
                    return "%s: selection %r outside range %r" % (where, sel, rg)
                # the parameters of a procedure / function TYPE declare nothing (repair c14b1c2): in the documents
                # marked @tp the names with the reserved prefix occur as such parameters only
                if tp_marked and nm.lower().startswith(A_TP):
                    return "%s: the parameter of a procedure/function TYPE is a symbol of a table" % where
                prev = nm
    return None


def annot_nontrivial(case):
    t = a_text(case)
    return sum(1 for l in t.split("\n") if l.strip()) >= 4


def annot_describe(case):
    return a_text(case)


def annot_shrinker(case):
    t = a_text(case)
    lines = t.split("\n")
    for i in range(len(lines)):
        yield a_cps("\n".join(lines[:i] + lines[i + 1:])) + ("@tp" if case.endswith("@tp") else "")


def annot_cases(ctx):
    rng = random.Random(ctx.seed * 7919 + 10)
    hist = {}
    texts = []

    marked = set()

    def add(kind, t):
        # the case line is code points separated by '.'; an empty document is the empty line
        if kind in ("fixed", "scoping_shaped_program"):
            marked.add(len(texts))          # un-mutated: tp_ names are parameters of procedure/function types only
        texts.append(t)
        hist[kind] = hist.get(kind, 0) + 1

    for t in A_FIXED:
        add("fixed", t)
    files = sorted(glob.glob("/repo/test/*.god") + glob.glob("/repo/test/workspace/*.god"))
    ftexts = []
    for f in files:
        t = open(f, "rb").read().decode("utf-8", errors="replace")
        ftexts.append(t)
        add("repo_test_file", t)
    scale = 1 if ctx.quick else 12
    g = goldgen.Gen(rng)
    gtexts = []
    for _ in range(450 * scale):
        t = g.gen_program()[0]
        gtexts.append(t)
        add("goldgen_program", t)
    ag = AGen(rng)
    atexts = []
    for _ in range(450 * scale):
        t = ag.program()
        atexts.append(t)
        add("scoping_shaped_program", t)
    for _ in range(550 * scale):
        k = rng.random()
        base = rng.choice(atexts) if k < 0.55 else rng.choice(gtexts) if k < 0.85 else rng.choice(ftexts)
        t = a_mutate(rng, base)
        if rng.random() < 0.3:
            t = a_mutate(rng, t)
        add("mutated", t)
    return [a_cps(t) + ("@tp" if i in marked else "") for i, t in enumerate(texts)], hist


def annot_stage(ctx):
    cases, hist = annot_cases(ctx)
    cov = diff.differential(ctx, "annot", cases, split=lambda out: tuple(out.split("#", 1)), oracle=annot_oracle,
                            shrinker=annot_shrinker, nontrivial=annot_nontrivial, describe=annot_describe)
    cov["input_histogram"] = hist
    cov["documents_with_type_parameters_checked"] = sum(1 for c in cases if c.endswith("@tp") and A_TP in a_text(c))
    # how many of the documents have the regular shape C10_tables_from_tree is stated for (AnnotProofs.regularb)
    dumps = [o.split("#", 1)[0] for o in core.run_lines(diff.Engines.harness(), "annot", cases)]
    flags = core.run_lines(diff.Engines.model(), "annotreg", dumps)
    cov["regular_documents"] = sum(1 for f in flags if f == "1")
    cov["irregular_documents"] = sum(1 for f in flags if f == "0")
    cov["rule"] = ("every document is lexed+parsed by the real code (DocumentService::parse_content), the tree is dumped, "
                   "SemanticAnalysisService::analyze runs the real AstAnnotator on it in the full and in the definitions-only mode; "
                   "observation = for the root table and every method node's table, in walk order: for_class_or_module, every symbol "
                   "in iter_symbols order (id, SymbolType, selection_range, range) and get_list_of_uses; compared with the extracted "
                   "Annot.annotate on the dumped tree. Oracle (implementation alone): the source text sliced by each symbol's "
                   "selection range is the symbol's name, on one line, inside the symbol's range. Documents: goldgen programs, "
                   "scoping-shaped classes/modules (procedure/function types with parameters, locals in nested blocks, Name#Event, "
                   "forward/external, duplicate names, names differing in case only, untyped parameters, declarations / uses / "
                   "headers after methods), the .god files of /repo/test and /repo/test/workspace, and mutated variants "
                   "(duplicated / re-cased / moved / deleted lines, dropped types, #Event names, character edits, truncation)")
    cov["samples"] = [annot_describe(cases[len(A_FIXED) + 25])[:400], annot_describe(cases[-1])[:400]]
    return cov


# =============================================================================================
# tree-level tie of the ANSWERS (one document): Model/DefTree.v, Proofs/DefTreeProofs.v, C10_tree_* / C11_tree_*
# engine `deftree` (two-phase): text -> real lexer+parser -> tree dump + every identifier position ->
# real ProjectManager (one-file temp workspace) go-to-definition + completion at every position
# vs the extracted DefTree.definition / DefTree.completion on the dumped tree
# =============================================================================================
def dt_strip_foreign(text):
    """the same document without a parent class and without `uses` lines"""
    import re
    out = []
    for l in text.split("\n"):
        if re.match(r"^\s*uses\b", l, re.I):
            continue
        l = re.sub(r"^(\s*class\s+\w+)\s*\([^)]*\)", r"\1", l, flags=re.I)
        out.append(l)
    return "\n".join(out)


def dt_cases(ctx):
    rng = random.Random(ctx.seed * 104729 + 11)
    hist = {}
    cases = []

    def add(kind, t):
        cases.append(a_cps(t) + "@" + kind)
        hist[kind] = hist.get(kind, 0) + 1

    scale = 1 if ctx.quick else 10
    for t in A_FIXED + DT_FIXED:
        add("fixed", t)
    ag = AGen(rng)
    g = goldgen.Gen(rng)
    base = []
    for _ in range(260 * scale):
        t = ag.program()
        base.append(t)
        add("own" if dt_strip_foreign(t) == t else "with_parent_or_uses", t)
        if dt_strip_foreign(t) != t:
            add("own", dt_strip_foreign(t))
    for _ in range(60 * scale):
        t = g.gen_program()[0]
        base.append(t)
        add("goldgen", t)
    files = sorted(glob.glob("/repo/test/*.god") + glob.glob("/repo/test/workspace/*.god"))
    for f in files:
        t = open(f, "rb").read().decode("utf-8", errors="replace")
        if len(t) < 6000:
            add("repo_test_file", t)
    for _ in range(120 * scale):
        add("mutated", a_mutate(rng, rng.choice(base)))
    return cases, hist


DT_FIXED = [
    "class aFoo\nconst cA = 1\ntype tRef : refTo aFoo\nfa : int4\nproc Run(p : int4, Fa : tRef)\n var l : int4\n l = p + fa + cA\n self.fa = Fa\n self.Run(l)\n zz = 1\nendproc\nfunc G(q : int4) return tRef\n return self.fa\nendfunc\n",
    "module aMod\nconst cA = 1\nfa : int4\nfunc F(fa : int4) return int4\n var CA : int4\n return fa + ca + aMod.fa + aMod.F(1)\nendfunc\n",
    "class aFoo\nfa : int4\nproc Run(x : int4)\n var x : int4\n var X : cstring\n x = fa\n if x > 0\n  var fa : int4\n  fa = x\n endif\n self.\n x.\nendproc\n",
    "class aFoo\nproc A\n self.B\n B\nendproc\nproc B\n self.A\nendproc\nproc b\nendproc\n",
]


def dt_split(out):
    # the model receives the whole line (it echoes the implementation's answer, marked '?', where its outcome is Outside)
    return (out, out.split("#", 1)[1]) if "#" in out else (out, out)


def dt_canon(x):
    return x.replace("?", "")


def dt_parse(case, obs_head=None):
    return a_text(case)


def dt_ident_at(lines, l, c):
    """the identifier (maximal [A-Za-z0-9_] run) touching position (l, c)"""
    if l >= len(lines):
        return ""
    s = lines[l]
    ok = lambda ch: ch.isalnum() or ch == "_"
    a = c
    while a > 0 and ok(s[a - 1]):
        a -= 1
    b = c
    while b < len(s) and ok(s[b]):
        b += 1
    return s[a:b]


DT_POS = {}


def dt_oracle(case, obs):
    """on the implementation's answers alone: every definition link's selection range, sliced from the text, is the
       identifier under the cursor ignoring case (for `self`: anything the class is called); completion labels are
       pairwise distinct ignoring case; nothing panics or errs"""
    if obs == "" or obs.startswith("X"):
        return None
    if obs.startswith("PANIC") or obs == "CRASH":
        return "the request did not return: %s" % obs[:100]
    poss = DT_POS.get(case)
    lines = a_text(case).split("\n")
    answers = obs.split(";") if obs else []
    for k, a in enumerate(answers):
        if "PANIC" in a or "ERR" in a:
            return "answer %d: %s" % (k, a[:80])
        d, c = a[1:].split("C", 1)
        if c not in ("-", ""):
            labs = ["".join(chr(int(x)) for x in lab.split(".")) if lab != "~" else "" for lab in c.split(",")]
            up = [x.upper() for x in labs]
            if len(set(up)) != len(up):
                return "answer %d: completion labels not distinct ignoring case: %r" % (k, labs)
        if d not in ("-", "") and poss is not None and k < len(poss):
            l, col = poss[k]
            ident = dt_ident_at(lines, l, col)
            for lk in d.split(","):
                if "!" in lk:
                    return "answer %d: link into another file %s" % (k, lk)
                sel = [int(x) for x in lk.split("/")[0].split(":")]
                if sel[0] != sel[2] or sel[0] >= len(lines):
                    return "answer %d: selection range %r not on one existing line" % (k, sel)
                got = lines[sel[0]][sel[1]:sel[3]]
                if "#" in got:
                    got = "".join(got.split())
                if got.upper() != ident.upper() and ident.upper() != "SELF":
                    # the one systematic exception of the code: a cursor on an OPTION of `refTo [P,A] aType` is answered
                    # with the declaration of aType (the encasing node is the type reference)
                    if not dt_in_brackets(lines, l, col):
                        return "answer %d at %d:%d on %r: the link selects %r" % (k, l, col, ident, got)
    return None


def dt_in_brackets(lines, l, c):
    s = lines[l] if l < len(lines) else ""
    a = s.rfind("[", 0, c + 1)
    return a >= 0 and "]" not in s[a:c]


def deftree_stage(ctx):
    cases, hist = dt_cases(ctx)
    hb = diff.Engines.harness()
    raw = core.run_lines(hb, "deftree", cases)
    DT_POS.clear()
    npos = 0
    for c, o in zip(cases, raw):
        if "#" in o and not o.startswith("X"):
            head = o.split("#", 1)[0].split("@")
            ps = [tuple(int(x) for x in p.split(":")) for p in head[2].split(",")] if len(head) > 2 and head[2] else []
            DT_POS[c] = ps
            npos += len(ps)
    cov = diff.differential(ctx, "deftree", cases, split=dt_split, oracle=dt_oracle, canon=dt_canon,
                            nontrivial=lambda c: len(DT_POS.get(c, ())) >= 12, describe=annot_describe)
    # how much the model answers itself (not Outside), per request kind and per class of document
    mod = core.run_lines(diff.Engines.model(), "deftree", raw)
    stats = {}
    for c, m in zip(cases, mod):
        kind = c.rsplit("@", 1)[1]
        st = stats.setdefault(kind, {"definition_modelled": 0, "definition_outside": 0, "completion_modelled": 0,
                                      "completion_outside": 0, "definition_nonempty": 0})
        for a in (m.split(";") if m else []):
            d, cc = a[1:].split("C", 1)
            st["definition_outside" if d.startswith("?") else "definition_modelled"] += 1
            st["completion_outside" if cc.startswith("?") else "completion_modelled"] += 1
            if not d.startswith("?") and d != "-":
                st["definition_nonempty"] += 1
    cov["positions"] = npos
    cov["requests"] = 2 * npos
    cov["input_histogram"] = hist
    cov["modelled_vs_outside"] = stats
    cov["rule"] = ("documents of annot_stage's generators (scoping-shaped classes / modules with and without parent / uses - every "
                   "document with a parent or uses also in its stripped form -, goldgen programs, /repo/test files, mutated "
                   "variants, fixed corner cases); each written alone into a temp workspace as <header name>.god; positions = start, "
                   "middle and end of EVERY identifier token of the real lexer; at each position go-to-definition and completion of "
                   "the real ProjectManager vs DefTree.definition / DefTree.completion on the dumped tree (links = target selection "
                   "range / target range in the order returned, labels in the order returned); parts the model classifies as "
                   "Outside (they need another document) are skipped and counted. Oracle (implementation alone): each link's "
                   "selection range sliced from the text is the identifier under the cursor ignoring case (`self` excepted; "
                   "options of `refTo [..]` excepted), labels pairwise distinct ignoring case, no error, no panic")
    cov["samples"] = [annot_describe(cases[len(A_FIXED)])[:300]]
    return cov


# =============================================================================================
# tree-level tie of the ANSWERS on a WORKSPACE of documents: Model/WsTree.v, Proofs/WsTreeProofs.v, C10_ws_* / C11_ws_*
# engine `wstree` (two-phase): several files -> real lexer+parser (every tree dumped, every identifier position) ->
# per file a fresh ProjectManager on the temp workspace: go-to-definition + completion at every position of that file
# vs the extracted WsTree.wdefinition / WsTree.wcompletion on the dumped trees
# =============================================================================================
import re as _re

WS_HEADER = _re.compile(r"^(\s*class\s+)(\w+)(\s*\(\s*(\w+)\s*\))?", _re.I | _re.M)


def ws_line(files, kind):
    return ";".join("%s=%s" % (s, a_cps(t)) for s, t in files) + "@" + kind


def ws_files(case):
    body = case.rsplit("@", 1)[0]
    out = []
    for f in body.split(";"):
        if not f:
            continue
        s, cps = f.split("=", 1)
        out.append((s, "".join(chr(int(x)) for x in cps.split(".")) if cps else ""))
    return out


def ws_recase(rng, name):
    return "".join(ch.upper() if rng.random() < 0.5 else ch.lower() for ch in name)


def ws_mutations(rng, files):
    """[(kind, files)]: the variants the scoping rules name"""
    out = []
    heads = {}
    for s, t in files:
        m = WS_HEADER.search(t)
        if m:
            heads[s] = (m.group(2), m.group(4))
    children = [s for s, (n, p) in heads.items() if p]
    parents = sorted({p.upper() for (n, p) in heads.values() if p})
    # a parent file is missing
    cands = [s for s, _ in files if s.upper() in parents]
    if cands:
        gone = rng.choice(cands)
        out.append(("missing_parent", [(s, t) for s, t in files if s != gone]))
    # a parent cycle: a root of the forest gets one of the classes that have a parent as its parent
    roots = [s for s, (n, p) in heads.items() if not p]
    if roots and children:
        r, c = rng.choice(roots), rng.choice(children)
        out.append(("parent_cycle", [(s, WS_HEADER.sub(lambda m: m.group(1) + m.group(2) + " (" + ws_recase(rng, c) + ")", t, count=1)
                                      if s == r else t) for s, t in files]))
    # two classes naming each other / a class naming itself in another letter case
    if len(heads) >= 2:
        a, b = rng.sample(sorted(heads), 2)
        def sub(s, t):
            if s == a:
                return WS_HEADER.sub(lambda m: m.group(1) + m.group(2) + " (" + b + ")", t, count=1)
            if s == b:
                return WS_HEADER.sub(lambda m: m.group(1) + m.group(2) + " (" + ws_recase(rng, a) + ")", t, count=1)
            return t
        out.append(("parent_cycle", [(s, sub(s, t)) for s, t in files]))
    if heads:
        a = rng.choice(sorted(heads))
        out.append(("self_parent", [(s, WS_HEADER.sub(lambda m: m.group(1) + m.group(2) + " (" + ws_recase(rng, m.group(2)) + ")", t, count=1)
                                     if s == a else t) for s, t in files]))
    # a member of a child declared again (other letter case, other kind) in its parent and in the parent's parent
    decl = _re.compile(r"^(\w+) : (.*)$", _re.M)
    for c in children[:2]:
        m = decl.search(dict(files)[c])
        p = heads[c][1]
        tgt = [s for s, _ in files if s.upper() == p.upper()]
        if m and tgt:
            extra = "%s : int4\nconst %s = 7\n" % (ws_recase(rng, m.group(1)), ws_recase(rng, m.group(1)))
            def ins(t):
                k = t.find("\n\n")
                return t[:k + 1] + extra + t[k + 1:] if k >= 0 else t + "\n" + extra
            out.append(("duplicate_across_ancestors", [(s, ins(t) if s == tgt[0] else t) for s, t in files]))
            break
    # `uses` of an unknown entity first
    usesre = _re.compile(r"^(uses\s+)(.*)$", _re.I | _re.M)
    withuses = [s for s, t in files if usesre.search(t)]
    if withuses:
        a = rng.choice(withuses)
        out.append(("uses_unknown_first", [(s, usesre.sub(lambda m: m.group(1) + "aNowhere, " + m.group(2), t, count=1) if s == a else t)
                                           for s, t in files]))
    elif heads:
        a = rng.choice(sorted(heads))
        other = [s for s in heads if s != a]
        def addu(t):
            k = t.find("\n")
            return t[:k + 1] + "uses aNowhere" + (", " + rng.choice(other) if other else "") + "\n" + t[k + 1:]
        out.append(("uses_unknown_first", [(s, addu(t) if s == a else t) for s, t in files]))
    # names differing in case only: a second declaration of a member in another letter case, next to the first
    for s0, t0 in files:
        m = decl.search(t0)
        if m:
            t1 = t0[:m.end()] + "\n" + m.group(1).swapcase() + " : cstring" + t0[m.end():]
            out.append(("case_only_names", [(s, t1 if s == s0 else t) for s, t in files]))
            break
    # the file is not called like its class
    if heads:
        a = rng.choice(sorted(heads))
        if not any(s.upper() == (a + "x").upper() for s, _ in files):
            out.append(("stem_is_not_header_name", [((s + "x") if s == a else s, t) for s, t in files]))
    return out


WS_FIXED = [
    [("aChild", "class aChild (aParent)\nuses aLib\nfc : int4\nproc Run(p : int4)\n var l : int4\n l = p + fc + fp + cLib + cP\n self.fp = l\n self.Run(l)\n self.Base\n zz = 1\nendproc\nproc Base\nendproc\n"),
     ("aParent", "class aParent\nconst cP = 2\nfp : int4\nproc Base\n fp = 1\nendproc\n"),
     ("aLib", "module aLib\nconst cLib = 1\nfunc LibF(x : int4) return int4\n return x\nendfunc\n")],
    [("aA", "class aA (aB)\nfa : int4\nproc Run\n fa = fb + fc\n self.fb = 1\nendproc\n"),
     ("aB", "class aB (aC)\nfb : int4\nproc RunB\n fa = fb + fc\nendproc\n"),
     ("aC", "class aC (aB)\nfc : int4\nproc RunC\n fa = fb + fc\n self.\nendproc\n")],
    [("aA", "class aA (AA)\nfa : int4\nproc Run\n fa = 1\nendproc\n")],
    # constants and types declared INSIDE a method body, named like class-level ones / used from another method
    [("aLoc", "class aLoc\nconst cLimit = 10\nproc First\n const cLimit = 5\n type tLocal : int4\n var a : tLocal\n x = cLimit\nendproc\n"
              "proc Second\n var b : tLocal\n y = cLimit\nendproc\n")],
    # body-less methods WITH parameters (forward / external) between methods with bodies: their parameters are nobody's locals
    [("aExt", "class aExt (aExtBase)\nconst cDerived = 1\nHandle : int4\nproc Open(Handle : int4, Mode : int4) external 'Dll.Open'\n"
              "func Find(Key : int4) return int4 forward\nproc Work(Count : int4)\n var total : int4\n total = Count + cBase\n \n self.Handle = total\nendproc\n"
              "func Find(Key : int4) return int4\n return Key\nendfunc\n"),
     ("aExtBase", "class aExtBase\nconst cBase = 2\nproc Close(Handle : int4) forward\nproc Ping\n x = 1\nendproc\n")],
    [("aA", "class aA (aB)\nuses aU\nproc Run\n x = cU + fa + fb\nendproc\n"),
     ("aB", "class aB (aA)\nfb : int4\n"),
     ("aU", "class aU (aV)\nconst cU = 1\n"),
     ("aV", "class aV (aU)\nfa : int4\n")],
]


def ws_cases(ctx):
    rng = random.Random(ctx.seed * 7919 + 5)
    cases, hist = [], {}

    def add(kind, files):
        if not files or len({s.upper() for s, _ in files}) != len(files):
            return
        cases.append(ws_line(files, kind))
        hist[kind] = hist.get(kind, 0) + 1

    for f in WS_FIXED:
        add("fixed", f)
    repo = []
    for f in sorted(glob.glob("/repo/test/workspace/*.god")):
        t = open(f, "rb").read().decode("utf-8", errors="replace")
        if len(t) < 6000:
            repo.append((os.path.splitext(os.path.basename(f))[0], t))
    add("repo_test_workspace", repo)
    n = 40 if ctx.quick else 400
    for _ in range(n):
        case, _h = S.gen_case(rng, "DC")
        files = list(case.files)
        add("generated", files)
        for kind, fs in ws_mutations(rng, files):
            if rng.random() < (0.5 if ctx.quick else 0.8):
                add(kind, fs)
    for kind, fs in ws_mutations(rng, repo):
        add("repo_" + kind, fs)
    return cases, hist


WS_POS = {}


_RE_METH = _re.compile(r"^\s*(proc|procedure|func|function)\b", _re.I)
_RE_END = _re.compile(r"^\s*(endproc|endfunc|end)\s*$", _re.I)
_RE_ID = _re.compile(r"[A-Za-z_][A-Za-z0-9_]*")


def _ws_body_span(lines, l):
    """(header line, end line) of the method whose BODY holds line l (strictly between the two), else None"""
    if l >= len(lines) or _RE_METH.match(lines[l]) or _RE_END.match(lines[l]):
        return None
    start = None
    for i in range(l - 1, -1, -1):
        if _RE_END.match(lines[i]):
            return None
        if _RE_METH.match(lines[i]):
            start = i
            break
    if start is None:
        return None
    for i in range(l + 1, len(lines)):
        if _RE_END.match(lines[i]):
            return (start, i)
        if _RE_METH.match(lines[i]):
            return None
    return None


def _ws_plain_allowed(files, lines, l, col):
    """upper-cased names a plain completion at (l, col) may propose, or None when the position is not strictly inside a
    method body / is after a dot / the text is not laid out one declaration per line"""
    if l >= len(lines):
        return None
    start = None
    for i in range(l, -1, -1):
        if i < l and _RE_END.match(lines[i]):
            return None
        if _RE_METH.match(lines[i]):
            start = i
            break
    if start is None or start == l:
        return None
    end = None
    for i in range(l, len(lines)):
        if _RE_END.match(lines[i]):
            end = i
            break
        if i > l and _RE_METH.match(lines[i]):
            return None
    if end is None or end == l:
        return None
    line = lines[l]
    j = min(col, len(line))
    while j > 0 and (line[j - 1].isalnum() or line[j - 1] == "_"):
        j -= 1
    if _re.search(r"\.\s*$", line[:j]) or "." in line[j:col + 1]:
        return None
    allowed = set(x.upper() for x in _RE_ID.findall(lines[start]))
    for i in range(start + 1, end):
        for kw in ("var", "const"):
            m = _re.match(r"^\s*%s\s+([A-Za-z_][A-Za-z0-9_]*)" % kw, lines[i], _re.I)
            if m:
                allowed.add(m.group(1).upper())
    for (_, t) in files:
        for ln in t.split("\n"):
            m = _re.match(r"^\s*const\s+([A-Za-z_][A-Za-z0-9_]*)", ln, _re.I)
            if m:
                allowed.add(m.group(1).upper())
    return allowed


def ws_oracle(case, obs):
    """on the implementation's answers alone: every definition link's selection range, sliced from the TARGET file's
       text, is the identifier under the cursor ignoring case (`self` excepted; options of `refTo [..]` excepted); the
       target file exists; completion labels are pairwise distinct ignoring case; nothing panics, errs or hangs"""
    if obs.startswith("HANG"):
        return "the requests did not return within 120 s"
    if obs == "" or obs.startswith("X"):
        return None
    if obs.startswith("PANIC") or obs == "CRASH":
        return "the request did not return: %s" % obs[:100]
    files = ws_files(case)
    texts = {s: t.split("\n") for s, t in files}
    poss = WS_POS.get(case)
    per_file = obs.split("|")
    for fi, answers in enumerate(per_file):
        if fi >= len(files):
            break
        stem = files[fi][0]
        lines = texts[stem]
        for k, a in enumerate(answers.split(";") if answers else []):
            if "PANIC" in a or "ERR" in a:
                return "file %s answer %d: %s" % (stem, k, a[:80])
            d, c = a[1:].split("C", 1)
            if c not in ("-", ""):
                labs = ["".join(chr(int(x)) for x in lab.split(".")) if lab != "~" else "" for lab in c.split(",")]
                up = [x.upper() for x in labs]
                if len(set(up)) != len(up):
                    return "file %s answer %d: completion labels not distinct ignoring case: %r" % (stem, k, labs)
            if c not in ("-", "") and poss is not None and fi < len(poss) and k < len(poss[fi]):
                # C11's second clause, as a necessary condition read off the TEXT: in a method body, not after a dot, every
                # proposal is a parameter / local of THAT method or a constant declared somewhere in the workspace
                l, col = poss[fi][k]
                allowed = _ws_plain_allowed(files, lines, l, col)
                if allowed is not None:
                    extra = [x for x in labs if x.upper() not in allowed]
                    if extra:
                        return ("file %s at %d:%d: completion in a method body proposes %r: neither a parameter / local of the "
                                "enclosing method nor a constant of the workspace" % (stem, l, col, extra))
            if d not in ("-", "") and poss is not None and fi < len(poss) and k < len(poss[fi]):
                l, col = poss[fi][k]
                ident = dt_ident_at(lines, l, col)
                for lk in d.split(","):
                    parts = lk.split("/")
                    tstem = "".join(chr(int(x)) for x in parts[0].split(".")) if parts[0] else ""
                    if tstem not in texts:
                        return "file %s answer %d: link into a file that does not exist: %r" % (stem, k, tstem)
                    tl = texts[tstem]
                    sel = [int(x) for x in parts[1].split(":")]
                    if sel[0] != sel[2] or sel[0] >= len(tl):
                        return "file %s answer %d: selection range %r not on one existing line of %s" % (stem, k, sel, tstem)
                    # the scoping rules never select a declaration inside ANOTHER method's body (a local, or a constant /
                    # type declared inside a body, belongs to that method alone)
                    tspan = _ws_body_span(tl, sel[0])
                    if tspan is not None and not (tstem == stem and tspan[0] <= l <= tspan[1]):
                        return ("file %s at %d:%d on %r: the link lands on line %d of %s, inside the body of a method the cursor is not in (lines %d-%d)"
                                % (stem, l, col, ident, sel[0], tstem, tspan[0], tspan[1]))
                    got = tl[sel[0]][sel[1]:sel[3]]
                    if "#" in got:
                        got = "".join(got.split())
                    if got.upper() != ident.upper() and ident.upper() != "SELF":
                        if not dt_in_brackets(lines, l, col):
                            return "file %s at %d:%d on %r: the link selects %r in %s" % (stem, l, col, ident, got, tstem)
    return None


def ws_describe(case):
    return {"kind": case.rsplit("@", 1)[1], "files": {s: t[:800] for s, t in ws_files(case)}}


def ws_shrinker(case):
    """drop one file; drop one line of one file"""
    kind = case.rsplit("@", 1)[1]
    files = ws_files(case)
    out = []
    for i in range(len(files)):
        if len(files) > 1:
            out.append(ws_line(files[:i] + files[i + 1:], kind))
    for i, (s, t) in enumerate(files):
        ls = t.split("\n")
        for j in range(len(ls)):
            out.append(ws_line(files[:i] + [(s, "\n".join(ls[:j] + ls[j + 1:]))] + files[i + 1:], kind))
    return out


def _ws_fill_positions(cases):
    """runs the harness once to learn the positions the oracle needs; returns the raw harness lines"""
    hb = diff.Engines.harness()
    raw = core.run_lines(hb, "wstree", cases)
    WS_POS.clear()
    for c, o in zip(cases, raw):
        if "#" in o and not o.startswith("X") and not o.startswith("HANG"):
            head = o.split("#", 1)[0].split("@")
            if len(head) > 2:
                WS_POS[c] = [[tuple(int(x) for x in p.split(":")) for p in ps.split(",")] if ps else [] for ps in head[2].split("|")]
    return raw


def _dt_fill_positions(cases):
    hb = diff.Engines.harness()
    raw = core.run_lines(hb, "deftree", cases)
    DT_POS.clear()
    for c, o in zip(cases, raw):
        if "#" in o and not o.startswith("X"):
            head = o.split("#", 1)[0].split("@")
            DT_POS[c] = [tuple(int(x) for x in p.split(":")) for p in head[2].split(",")] if len(head) > 2 and head[2] else []
    return raw


def wstree_stage(ctx):
    cases, hist = ws_cases(ctx)
    raw = _ws_fill_positions(cases)
    npos = sum(sum(len(p) for p in pl) for pl in WS_POS.values())
    nfiles = sum(len(pl) for pl in WS_POS.values())
    cov = diff.differential(ctx, "wstree", cases, split=dt_split, oracle=ws_oracle, canon=dt_canon, shrinker=ws_shrinker,
                            nontrivial=lambda c: sum(len(p) for p in WS_POS.get(c, ())) >= 30, describe=ws_describe)
    mod = core.run_lines(diff.Engines.model(), "wstree", raw)
    stats = {}
    for c, o, m in zip(cases, raw, mod):
        kind = c.rsplit("@", 1)[1]
        st = stats.setdefault(kind, {"definition_modelled": 0, "definition_outside": 0, "completion_modelled": 0,
                                      "completion_outside": 0, "definition_nonempty": 0, "definition_into_another_file": 0})
        stems = o.split("#", 1)[0].split("@")[1].split("|") if "#" in o and o.count("@") >= 2 else []
        for fi, per in enumerate(m.split("|") if m else []):
            own = stems[fi] if fi < len(stems) else ""
            for a in (per.split(";") if per else []):
                d, cc = a[1:].split("C", 1)
                st["definition_outside" if d.startswith("?") else "definition_modelled"] += 1
                st["completion_outside" if cc.startswith("?") else "completion_modelled"] += 1
                if not d.startswith("?") and d != "-":
                    st["definition_nonempty"] += 1
                    if any(lk.split("/")[0] != own for lk in d.split(",")):
                        st["definition_into_another_file"] += 1
    cov["workspaces"] = len(cases)
    cov["files"] = nfiles
    cov["positions"] = npos
    cov["requests"] = 2 * npos
    cov["input_histogram"] = hist
    cov["modelled_vs_outside"] = stats
    cov["rule"] = ("workspaces of the abstract-workspace generator of checks/sem_common.py rendered to files by its renderer (forests "
                   "to depth 4, modules, uses, overriding in other letter case, aliases, dotted chains), /repo/test/workspace/*.god as "
                   "one workspace, hand-written corner cases, and text-level mutants of all of them: a parent file removed, a root "
                   "class given one of its descendants as parent / two classes naming each other (in another letter case), a class "
                   "naming itself in another letter case, a child's member declared again (other case, other kind) in its parent, "
                   "an unknown entity first in `uses`, two declarations differing in letter case only, a file not called like its "
                   "class. Every file lexed and parsed by the real lexer and parser; for EVERY file a fresh ProjectManager on the temp "
                   "workspace answers go-to-definition and completion at the start, middle and end of EVERY identifier token of that "
                   "file; compared with WsTree.wdefinition / WsTree.wcompletion on the dumped trees (links = target file stem, "
                   "selection range, range in the order returned; labels in the order returned). Parts the model classifies Outside "
                   "(the operand before a dot is a dotted chain, a call, or has an alias / unknown declared type; a used entity on a parent cycle) are skipped and counted. "
                   "Oracle (implementation alone): each link's selection range sliced from the TARGET file's text is the identifier "
                   "under the cursor ignoring case (`self`, options of `refTo [..]` excepted), labels pairwise distinct ignoring "
                   "case, no error, no panic, no hang")
    cov["samples"] = [ws_describe(cases[0])]
    return cov
