"""C12  The outline lists every top-level declaration once, in source order."""
import json, os, random, re
from vlib import core, diff

MANIFEST = dict(
    engine="E-parse",
    technique="Coq proof over all trees (characterisation of the outline as wrap(first header, filter_map entry children), entry defined exactly on the five declaration kinds, list-homomorphism corollaries for insert/remove/swap/permute); two-phase differential run of the extracted model against DocumentSymbolGeneratorFromAst on the real parser's trees; generator-side expected outlines as independent oracle",
    text=("Theorems over the Gallina model of DocumentSymbolGeneratorFromAst::generate_symbols for ALL syntax trees: the outline is the "
          "in-order list of entries of the root's const/type/field/proc/func children (one each, nothing for comments, uses, headers, "
          "empty nodes), each named by its identifier with the SymbolKind of its construct, range = node range, selection = identifier "
          "range; nested under the FIRST class/module header when there is one (at most one container, children Some[] when empty), "
          "flat otherwise; the loop's unwrap cannot panic; inserting / removing / swapping / permuting non-header children changes the "
          "entry list by exactly that edit. Tie: generated Gold programs (0/1/several headers, uses, constants, 14 type forms, fields, "
          "procs/funcs with params, modifiers, forward/external, Name#Event, bodies, comments, annotations, random layout and keyword "
          "casing) and their insert/delete/swap edits are lexed+parsed by the real code, the real generator's outline is compared with "
          "the extracted model run on the dumped tree, with the outline the generator of the program expected (names, kinds, order, "
          "container, start and name positions; independent of model and implementation) and, for edits, with the base program's "
          "outline; a second stream of mutated/arbitrary documents is checked against the declaration nodes of the implementation's own tree."),
    note="Trusted: Coq kernel, translator T5 (node kinds), extraction, harness (treedump.rs), the generator of expected outlines in checks/c12.py. Not covered here: the documentSymbol JSON wire format (E-bb) and C12_generated-from-C06 (needs the grammar model).",
    design="6 C12",
    engines=[dict(name="E-parse", path="harness/src/eng_outline.rs + coq/extract/eng_outline.ml",
                  kind_free_text="two-phase differential: real lexer+parser+DocumentSymbolGeneratorFromAst vs extracted Coq outline model on the dumped tree")],
)

MANIFEST["text"] += ' Fourth session: C12_outline_of_text composes the lexer round trip, the file theorem and the outline characterisation on one object: for every printed file of the grammar the outline is the entries of its declarations in order under at most one container.'

ASSUMPTIONS = [
    "ProjectManager::generate_document_symbols passes the document's `ast` (the root returned by parse_gold on the lexed file content) unchanged to DocumentSymbolGeneratorFromAst::generate_symbols (read by inspection of manager/mod.rs and document_service.rs); the engine calls lex + parse_gold + generate_symbols directly",
    "the tree dump (harness/src/treedump.rs) reports get_children_ref, get_identifier, get_range and the token fields faithfully; non-Option struct fields (identifier, value_token, type_node, return_type) are always present in a dumped tree - for other `node` values the model uses the empty string / range 0",
    "node-kind indices are regenerated from /repo/src/parser/ast.rs by translator T5 on every run",
    "lexer/parser panics or diagnostics on mutated documents are not C12's subject (C04/C06); generated well-formed programs must parse without diagnostics (checked)",
]

SK = dict(const=14, type=7, field=8, proc=6, func=12, cls=5, module=2)


# =============================================================================================
# tables regenerated from the sources
# =============================================================================================
_tables = {}


def tables():
    if not _tables:
        gen = os.path.join(core.COQ, "theories", "Gen")
        kinds = re.findall(r"^\| (KAst\w+)", open(os.path.join(gen, "AstKinds.v")).read(), re.M)
        _tables["kind"] = {k[1:]: i for i, k in enumerate(kinds)}
        kws = set(m.group(1) for m in re.finditer(r"\(\* (\w+) \*\)", open(os.path.join(gen, "Keywords.v")).read()))
        _tables["kw"] = kws
    return _tables


# =============================================================================================
# generator of Gold programs from an abstract declaration list
# =============================================================================================
STEMS = ["Foo", "Bar", "Baz", "Qux", "Item", "Value", "Count", "Name", "Node", "List", "Total", "Index", "Limit",
         "Open", "Close", "Init", "Run", "Check", "Size", "Key", "Data", "Mode", "Flag", "Step2", "X", "y_1", "Zed"]
BASIC_TYPES = ["int4", "Int1", "INT2", "int8", "boolean", "char", "Num4", "num8", "Decimal", "CString", "string31", "Text",
               "aFoo", "tBar", "aNamedObject"]


class Gen:
    def __init__(self, rng):
        self.rng = rng
        self.uid = 0
        self.kw = tables()["kw"]

    # ---- lexical helpers ----
    def kwd(self, w):
        r = self.rng.random()
        if r < 0.4:
            return w.lower()
        if r < 0.55:
            return w.upper()
        if r < 0.75:
            return w[0].upper() + w[1:].lower()
        return "".join(c.upper() if self.rng.random() < 0.5 else c.lower() for c in w)

    def ident(self, prefix=""):
        while True:
            s = prefix + self.rng.choice(STEMS) + (str(self.rng.randint(0, 99)) if self.rng.random() < 0.5 else "")
            if self.rng.random() < 0.2:
                s += self.rng.choice(STEMS)
            if s.upper() not in self.kw:
                return s

    def basic_type(self):
        return self.rng.choice(BASIC_TYPES)

    def sp(self, nl=False):
        r = self.rng.random()
        if r < 0.8:
            return " "
        if r < 0.88:
            return "  "
        if r < 0.94:
            return "\t"
        if nl and r < 0.98:
            return self.rng.choice(["\n", "\r\n"]) + " " * self.rng.randint(0, 6)
        return "   "

    # ---- type expressions: list of tokens ("" glue handled by join) ----
    def type_tokens(self, forms):
        f = self.rng.choice(forms)
        k = self.kwd
        if f == "basic":
            t = self.basic_type(); return [t], t
        if f == "sized":
            t = self.rng.choice(["cstring", "CString", "int", "string"]); return [t, "(", str(self.rng.randint(1, 255)), ")"], t
        if f == "enum":
            vs = [self.ident("c") for _ in range(self.rng.randint(1, 4))]
            toks = ["("]
            for i, v in enumerate(vs):
                if i:
                    toks.append(",")
                toks.append(v)
                if self.rng.random() < 0.2:
                    toks += ["=", str(i)]
            return toks + [")"], None
        if f == "composed":
            t = self.ident("t"); return [t, "+", "(", self.ident("c"), ",", self.ident("c"), ")"], None
        if f == "record":
            toks = [k("record")]
            if self.rng.random() < 0.3:
                toks += ["(", self.ident("t"), ")"]
            for _ in range(self.rng.randint(0, 3)):
                toks += ["\n", self.ident("f"), ":", self.basic_type()]
            return toks + ["\n", k("endrecord")], None
        if f == "refto":
            t = self.ident("a"); return [k("refto"), t], t
        if f == "listof":
            t = self.ident("a")
            toks = [k("listof")]
            if self.rng.random() < 0.5:
                toks += ["[", "P", ",", "A", "]"]
            toks.append(t)
            if self.rng.random() < 0.3:
                toks += [k("inverse"), self.ident("v")]
            return toks, t
        if f == "range":
            return [str(self.rng.randint(0, 9)), k("to"), str(self.rng.randint(10, 99))], None
        if f == "set":
            return ["[", self.ident("t"), "]"], None
        if f == "pointer":
            return [".", self.basic_type()], None
        if f == "array":
            toks = [k("array"), "[", self.ident("t"), "]"]
            if self.rng.random() < 0.3:
                toks += ["[", "1", k("to"), "5", "]"]
            return toks + [k("of"), self.basic_type()], None
        if f == "proctype":
            toks = [k(self.rng.choice(["procedure", "proc"]))]
            if self.rng.random() < 0.7:
                toks += self.params()
            return toks, None
        if f == "functype":
            return [k(self.rng.choice(["function", "func"]))] + self.params() + [k("return"), self.basic_type()], None
        if f == "instanceof":
            return [k("instanceof"), self.ident("a")], None
        raise AssertionError(f)

    TYPE_FORMS = ["basic", "basic", "sized", "enum", "composed", "record", "refto", "listof", "range", "set", "pointer",
                  "array", "proctype", "functype", "instanceof"]
    FIELD_FORMS = ["basic", "basic", "basic", "sized", "refto", "listof", "array", "pointer", "instanceof", "set"]

    def params(self):
        toks = ["("]
        for i in range(self.rng.randint(1, 4)):
            if i:
                toks.append(",")
            if self.rng.random() < 0.4:
                toks.append(self.kwd(self.rng.choice(["var", "const", "inout"])))
            toks.append(self.ident("p"))
            if self.rng.random() < 0.9:
                tt, _ = self.type_tokens(["basic", "basic", "sized", "refto"])
                toks += [":"] + tt
        return toks + [")"]

    def expr(self, d=0):
        r = self.rng.random()
        if d > 1 or r < 0.35:
            return self.rng.choice([self.ident("v"), str(self.rng.randint(0, 100)), "'s'", "self." + self.ident("m"), "true", "nil"])
        if r < 0.6:
            return self.expr(d + 1) + " " + self.rng.choice(["+", "-", "*", "/", "=", "<>", "<", ">=", "and", "or"]) + " " + self.expr(d + 1)
        if r < 0.75:
            return "(" + self.expr(d + 1) + ")"
        if r < 0.9:
            return self.ident("Do") + "(" + ", ".join(self.expr(d + 1) for _ in range(self.rng.randint(0, 2))) + ")"
        return self.kwd("not") + " " + self.expr(d + 1)

    def body_lines(self, is_func, depth=0):
        k = self.kwd
        lines = []
        if depth == 0:
            for _ in range(self.rng.choice([0, 0, 1, 2])):
                lines.append(k("var") + " " + self.ident("v") + " : " + self.basic_type())
            # declaration keywords INSIDE a body: none of these is a top-level declaration, none may reach the outline
            if self.rng.random() < 0.25:
                n1, n2, n3 = self.ident("v"), self.ident("p"), self.ident("q")
                lines.append(self.rng.choice([
                    k("var") + " %s : " % n1 + k("proc") + "(%s : int4, %s : int4)" % (n2, n3),
                    k("var") + " %s : " % n1 + k("procedure") + "(%s : int4)" % n2,
                    k("var") + " %s : " % n1 + k("func") + "(%s : int4) " % n2 + k("return") + " int4",
                    k("var") + " %s : " % n1 + k("function") + "(%s : int4) " % n2 + k("return") + " int4",
                    k("const") + " c%s = 1" % n1,
                    k("type") + " t%s : int4" % n1,
                    k("var") + " %s : " % n1 + k("refto") + " aOther",
                ]))
        for _ in range(self.rng.randint(0, 4)):
            r = self.rng.random()
            if r < 0.3:
                lines.append(self.ident("v") + " = " + self.expr())
            elif r < 0.5:
                lines.append(self.ident("Do") + "(" + ", ".join(self.expr(1) for _ in range(self.rng.randint(0, 3))) + ")")
            elif r < 0.62:
                lines.append("; " + self.rng.choice(["todo", "note: x = 1", "proc inside comment", "class aFake", "const c = 1"]))
            elif r < 0.75 and depth < 2:
                lines.append(k("if") + " " + self.expr())
                lines += ["   " + l for l in self.body_lines(is_func, depth + 1)]
                if self.rng.random() < 0.4:
                    lines.append(k("else"))
                    lines += ["   " + l for l in self.body_lines(is_func, depth + 1)]
                lines.append(k("endif"))
            elif r < 0.82 and depth < 2:
                lines.append(k("while") + " " + self.expr())
                lines += ["   " + l for l in self.body_lines(is_func, depth + 1)]
                lines.append(k("endwhile"))
            elif r < 0.9:
                lines.append((k("return") + " " + self.expr()) if is_func else k("exit"))
            else:
                lines.append("self." + self.ident("m") + " = " + self.expr())
        return lines

    # ---- blocks: a block is a dict(text, tag, exp...) whose text starts at column 0 and ends with a newline ----
    def block(self, tag, toks, marks=None, exp=None, trailer=True, multiline=True):
        """toks: list of token strings; "\\n" forces a line break; marks: name -> token index."""
        self.uid += 1
        marks = marks or {}
        out = []
        n = 0
        pos = {}
        lead = self.rng.choice(["", "", "", "  ", "    ", "\t"])
        out.append(lead); n += len(lead)
        prev = None
        for i, t in enumerate(toks):
            if t == "\n":
                s = self.rng.choice(["\n", "\r\n"]) + " " * self.rng.randint(0, 4)
                out.append(s); n += len(s); prev = None
                continue
            if prev is not None:
                glue = (prev, t)
                tight_ok = (prev in "([,.:=+" or t in ")],(:=+") and not (prev[-1:].isalnum() and t[:1].isalnum())
                if prev == "." or prev == "#" or t == "#":
                    s = ""
                elif tight_ok and self.rng.random() < 0.5:
                    s = ""
                else:
                    s = self.sp(nl=multiline)
                out.append(s); n += len(s)
            for m, ix in marks.items():
                if ix == i:
                    pos[m] = n
            out.append(t); n += len(t); prev = t
        if trailer and self.rng.random() < 0.2:
            s = self.rng.choice([" ", "  "]) + "; " + self.rng.choice(["trailing", "(note)", "const x = 1", "été ∑", "func f return int4"])
            out.append(s); n += len(s)
        s = self.rng.choice(["\n", "\n", "\n", "\r\n", "\n\n", "\n  \n"])
        out.append(s)
        b = dict(uid=self.uid, tag=tag, text="".join(out))
        b.update(pos)
        if exp:
            b.update(exp)
        return b

    def b_class(self):
        name = self.ident("a")
        toks = [self.kwd("class"), name]
        parent = None
        if self.rng.random() < 0.6:
            parent = self.ident("a")
            toks += ["(", parent, ")"]
        return self.block("cls", toks, dict(start=0), dict(name=name, detail=parent, kind=SK["cls"]), multiline=False)

    def b_module(self):
        name = self.ident("m")
        return self.block("module", [self.kwd("module"), name], dict(start=0), dict(name=name, detail=None, kind=SK["module"]), multiline=False)

    def b_uses(self):
        toks = [self.kwd("uses")]
        for i in range(self.rng.randint(1, 4)):
            if i:
                toks.append(",")
            toks.append(self.ident("a"))
        return self.block("uses", toks)

    def b_comment(self):
        self.uid += 1
        t = self.rng.choice(["; plain comment", ";", "; const cFake = 1", ";; proc hidden", "; class aHidden (aBase)",
                             "; unicode: été 中文 \U0001f600", ";(block style)", ";\ttabbed"])
        return dict(uid=self.uid, tag="comment", text=self.rng.choice(["", "  "]) + t + self.rng.choice(["\n", "\r\n", "\n\n"]))

    def annot(self):
        return ["[", self.ident("An")] + ([",", self.ident("An")] if self.rng.random() < 0.3 else []) + ["]"]

    def b_const(self):
        name = self.ident("c")
        r = self.rng.random()
        if r < 0.45:
            v = self.rng.choice(["0", "1", "42", "255", "3.14", "10.5", "1000000"]); lit = v
        elif r < 0.9:
            v = self.rng.choice(["abc", "hello world", "x", "a;b", "Été", "proc", "12", "it s", "[x]", "(y)", "#1"])
            lit = "'" + v + "'"
        else:
            v = None
            lit = self.rng.choice(["''", "'it''s'", "\"dq\"", "'multi\nline'"])
        pre = self.annot() if self.rng.random() < 0.08 else []
        toks = pre + [self.kwd("const"), name, "=", lit]
        if self.rng.random() < 0.25:
            toks.append(self.kwd("multilang"))
        return self.block("const", toks, dict(start=len(pre), nm=len(pre) + 1),
                          dict(name=name, detail=v, dk=v is not None, kind=SK["const"]))

    def b_type(self):
        name = self.ident("t")
        tt, _ = self.type_tokens(self.TYPE_FORMS)
        pre = self.annot() if self.rng.random() < 0.1 else []
        toks = pre + [self.kwd("type"), name, ":"] + tt
        return self.block("type", toks, dict(start=len(pre), nm=len(pre) + 1), dict(name=name, detail=None, dk=True, kind=SK["type"]))

    def b_field(self):
        name = self.ident(self.rng.choice(["", "v", "my"]))
        tt, tn = self.type_tokens(self.FIELD_FORMS)
        pre = self.annot() if self.rng.random() < 0.1 else []
        mem = [self.kwd("memory")] if self.rng.random() < 0.2 else []
        toks = pre + mem + [name, ":"] + tt
        for m in self.rng.sample(["private", "protected", "final", "override"], self.rng.choice([0, 0, 1, 2])):
            toks.append(self.kwd(m))
        if self.rng.random() < 0.1:
            toks += [self.kwd("absolute"), self.ident("v")]
        return self.block("field", toks, dict(start=len(pre), nm=len(pre) + len(mem)),
                          dict(name=name, detail=tn, dk=tn is not None, kind=SK["field"]))

    def b_method(self, is_func):
        k = self.kwd
        name = self.ident(self.rng.choice(["", "Do", "Get", "on"]))
        if self.rng.random() < 0.06:
            # the sixteen token types parse_ident_token accepts: keywords elsewhere, names here
            name = self.kwd(self.rng.choice(["type", "top", "from", "where", "order", "by", "select", "fetch", "into", "using",
                                             "distinct", "descending", "conditional", "allversionsof", "phantomstoo"]))
        if self.rng.random() < 0.2:
            name = name + "#" + self.ident(self.rng.choice(["", "Ev"]))
        pre = self.annot() if self.rng.random() < 0.06 else []
        kw = k(self.rng.choice(["function", "func"])) if is_func else k(self.rng.choice(["procedure", "proc"]))
        toks = pre + [kw]
        parts = name.split("#")
        nm_ix = len(toks)
        toks.append(parts[0])
        if len(parts) == 2:
            toks += ["#", parts[1]]
        if self.rng.random() < 0.6:
            toks += self.params()
        ret = None
        if is_func:
            ret = self.basic_type()
            toks += [k("return"), ret]
        mods = self.rng.sample(["private", "protected", "final", "override"], self.rng.choice([0, 0, 0, 1, 2]))
        bodyless = False
        r = self.rng.random()
        if r < 0.15:
            mods.append("forward"); bodyless = True
        elif r < 0.3:
            mods.append("external"); bodyless = True
        self.rng.shuffle(mods)
        for m in mods:
            toks.append(k(m))
            if m == "external":
                toks.append("'" + self.rng.choice(["kernel32.dll", "my lib.dll", "x"]) + "'")
        if not bodyless:
            for l in self.body_lines(is_func):
                toks += ["\n", l]   # a whole statement line is one opaque "token" for layout purposes
            toks += ["\n", k("endfunc" if is_func else "endproc") if self.rng.random() < 0.85 else k("end")]
        tag = "func" if is_func else "proc"
        return self.block(tag, toks, dict(start=len(pre), nm=nm_ix),
                          dict(name=name, detail=ret, dk=True, kind=SK[tag]), multiline=False)

    def decl(self):
        r = self.rng.random()
        if r < 0.2:
            return self.b_const()
        if r < 0.4:
            return self.b_type()
        if r < 0.6:
            return self.b_field()
        if r < 0.8:
            return self.b_method(False)
        return self.b_method(True)

    def program(self):
        """list of blocks"""
        rng = self.rng
        blocks = []
        h = rng.random()
        if h < 0.15:
            heads = []
        elif h < 0.6:
            heads = [self.b_class()]
        elif h < 0.8:
            heads = [self.b_module()]
        else:
            heads = [self.b_class() if rng.random() < 0.5 else self.b_module() for _ in range(rng.randint(2, 3))]
        body = []
        if rng.random() < 0.5:
            body.append(self.b_uses())
        n = rng.choice([0, 1, 2, 3, 4, 5, 6, 7, 8, 10, 12])
        for _ in range(n):
            if rng.random() < 0.2:
                body.append(self.b_comment())
            body.append(self.decl())
        if rng.random() < 0.2:
            body.append(self.b_comment())
        if heads:
            if rng.random() < 0.75:
                blocks = [heads[0]] + body
                rest = heads[1:]
            else:
                blocks = body
                rest = heads
            for hd in rest:       # further (or late) headers anywhere
                blocks.insert(rng.randint(0, len(blocks)), hd)
            if rng.random() < 0.15:
                blocks.insert(0, self.b_comment())
        else:
            blocks = body
        return blocks


DECL_TAGS = ("const", "type", "field", "proc", "func")
HEAD_TAGS = ("cls", "module")


def encode(blocks, pid=None, base=None, edit=None):
    """case line = "<text as code points>@<json: the abstract program>"; the harness reads only
    the part before '@'."""
    text = "".join(b["text"] for b in blocks)
    meta = dict(pid=pid, base=base, edit=edit,
                blocks=[{k: v for k, v in b.items() if k != "text"} | {"len": len(b["text"])} for b in blocks])
    return ".".join(str(ord(c)) for c in text) + "@" + json.dumps(meta, separators=(",", ":"))


def decode(case):
    """-> (text, meta or None); meta blocks get their text back"""
    cps, _, meta = case.partition("@")
    text = "".join(chr(int(x)) for x in cps.split(".")) if cps else ""
    if not meta:
        return text, None
    meta = json.loads(meta)
    off = 0
    for b in meta["blocks"]:
        b["text"] = text[off:off + b["len"]]
        b["off"] = off
        off += b["len"]
    return text, meta


def line_col(text, off):
    line = text.count("\n", 0, off)
    last = text.rfind("\n", 0, off)
    return line, off - (last + 1)


# =============================================================================================
# parsing the observations
# =============================================================================================
def cps_str(s):
    return "" if s == "-" else "".join(chr(int(x)) for x in s.split("."))


def parse_outline(s):
    """'[sym,sym]' -> list of dict(name, detail, kind, range, sel, children)"""
    pos = 0

    def lst():
        nonlocal pos
        assert s[pos] == "[", s[pos:pos + 20]
        pos += 1
        res = []
        if s[pos] == "]":
            pos += 1
            return res
        while True:
            res.append(sym())
            if s[pos] == ",":
                pos += 1
            elif s[pos] == "]":
                pos += 1
                return res
            else:
                raise ValueError("bad outline at %d" % pos)

    def field():
        nonlocal pos
        j = pos
        while s[j] not in "|,]":
            j += 1
        w = s[pos:j]
        pos = j
        return w

    def sym():
        nonlocal pos
        name = cps_str(field()); pos += 1
        d = field(); pos += 1
        detail = None if d == "~" else cps_str(d)
        kind = int(field()); pos += 1
        rng = tuple(int(x) for x in field().split(":")); pos += 1
        sel = tuple(int(x) for x in field().split(":")); pos += 1
        if s[pos] == "~":
            pos += 1
            ch = None
        else:
            ch = lst()
        return dict(name=name, detail=detail, kind=kind, range=rng, sel=sel, children=ch)

    r = lst()
    if pos != len(s):
        raise ValueError("trailing characters in outline")
    return r


_PAREN = re.compile(r"[()]")


def parse_tree(s, maxdepth=2):
    """s-expression dump -> nested dict(kind, ident, range, attrs, children); children below
    maxdepth are skipped (not needed by the outline)."""
    pos = 0

    def skip():
        nonlocal pos
        depth = 0
        for m in _PAREN.finditer(s, pos):
            if m.group() == "(":
                depth += 1
            else:
                depth -= 1
                if depth == 0:
                    pos = m.end()
                    return
        raise ValueError("unbalanced tree dump")

    def node(d):
        nonlocal pos
        assert s[pos] == "("
        j = s.index("{", pos)
        head = s[pos + 1:j].split()
        e = s.index("}", j)
        attrs = {}
        if e > j + 1:
            for kv in s[j + 1:e].split(";"):
                k, _, v = kv.partition("=")
                attrs[int(k)] = v
        pos = e + 1
        ch = []
        while True:
            while s[pos] == " ":
                pos += 1
            if s[pos] == ")":
                pos += 1
                break
            if d + 1 > maxdepth:
                skip()
            else:
                ch.append(node(d + 1))
        return dict(kind=int(head[0]), ident=cps_str(head[1]), range=tuple(int(x) for x in head[3:7]), attrs=attrs, children=ch)

    return node(0)


def tok_of_attr(v):
    """'t<tok>' or 'l<tok>,...' -> (range, value) of the (first) token, None when absent"""
    if v is None:
        return None
    body = v[1:]
    if v[0] == "l":
        if not body:
            return None
        body = body.split(",")[0]
    f = body.split(":")
    return (tuple(int(x) for x in f[2:6]), cps_str(f[6]))


# =============================================================================================
# the property's statement on the implementation's own output
# =============================================================================================
def expected_from_tree(root):
    """(container or None, entries) the property requires for this tree: one entry per top-level
    const/type/field/proc/func node in order, the first class/module as container."""
    K = tables()["kind"]
    cont = None
    entries = []
    for n in root["children"]:
        k = n["kind"]
        a = n["attrs"]
        if k in (K["AstClass"], K["AstModule"]):
            if cont is None:
                if k == K["AstClass"]:
                    idt = tok_of_attr(a.get(1))
                    par = tok_of_attr(a.get(2))
                    cont = dict(name=idt[1], detail=par[1] if par else None, kind=SK["cls"], range=n["range"], sel=n["range"])
                else:
                    cont = dict(name=n["ident"], detail=None, kind=SK["module"], range=n["range"], sel=n["range"])
            continue
        if k == K["AstConstantDeclaration"]:
            idt = tok_of_attr(a.get(1)); val = tok_of_attr(a.get(7))
            entries.append(dict(name=idt[1], detail=val[1], kind=SK["const"], range=n["range"], sel=idt[0], children=None))
        elif k == K["AstTypeDeclaration"]:
            idt = tok_of_attr(a.get(1))
            entries.append(dict(name=idt[1], detail=None, kind=SK["type"], range=n["range"], sel=idt[0], children=None))
        elif k == K["AstGlobalVariableDeclaration"]:
            idt = tok_of_attr(a.get(1))
            entries.append(dict(name=idt[1], detail=n["children"][0]["ident"], kind=SK["field"], range=n["range"], sel=idt[0], children=None))
        elif k == K["AstProcedure"]:
            c0 = n["children"][0]
            entries.append(dict(name=c0["ident"], detail=None, kind=SK["proc"], range=n["range"], sel=c0["range"], children=None))
        elif k == K["AstFunction"]:
            c0, c1 = n["children"][0], n["children"][1]
            entries.append(dict(name=c0["ident"], detail=c1["ident"], kind=SK["func"], range=n["range"], sel=c0["range"], children=None))
    return cont, entries


def check_tree_relative(tree_s, outline):
    root = parse_tree(tree_s)
    cont, entries = expected_from_tree(root)
    if cont is not None:
        want = [dict(cont, children=entries)]
    else:
        want = entries
    if outline == want:
        return None
    # say which clause fails
    got_entries = outline
    if cont is not None:
        conts = [d for d in outline if d["kind"] in (SK["cls"], SK["module"])]
        if len(outline) != 1 or len(conts) != 1:
            return "the tree has a class/module header but the outline has %d top-level entries, %d of them containers" % (len(outline), len(conts))
        c = outline[0]
        if {k: c[k] for k in ("name", "detail", "kind", "range", "sel")} != cont:
            return "container is %r, the first class/module header of the tree is %r" % ({k: c[k] for k in ("name", "detail", "kind", "range", "sel")}, cont)
        if c["children"] is None:
            return "container has children None"
        got_entries = c["children"]
    if len(got_entries) != len(entries):
        return "%d entries for %d top-level declaration nodes of the tree" % (len(got_entries), len(entries))
    for i, (g, w) in enumerate(zip(got_entries, entries)):
        if g != w:
            return "entry #%d is %r, the %d-th declaration node of the tree requires %r" % (i, g, i, w)
    return "outline differs from the one required by the tree"


def split_obs(obs):
    head, _, out = obs.partition("#")
    nd, _, tree = head.partition(" ")
    return nd, tree, out


OBS = {}   # pid -> {uid: entry normalised to the start line of its block} for edit checks (per batch)


def check_expected(text, meta, ndiags, outline):
    """the outline the generator of the program expects (independent of model and implementation)"""
    if ndiags != "0":
        return "the parser reports %s diagnostics on a generated well-formed program" % ndiags
    blocks = meta["blocks"]
    heads = [b for b in blocks if b["tag"] in HEAD_TAGS]
    decls = [b for b in blocks if b["tag"] in DECL_TAGS]
    if heads:
        h = heads[0]
        if len(outline) != 1:
            return "file declares %s %s: expected a single container entry, outline has %d top-level entries" % (h["tag"], h["name"], len(outline))
        c = outline[0]
        if (c["name"], c["kind"], c["detail"]) != (h["name"], h["kind"], h["detail"]):
            return "container is (%r, kind %d, %r); the first header declares (%r, kind %d, %r)" % (
                c["name"], c["kind"], c["detail"], h["name"], h["kind"], h["detail"])
        if c["range"][:2] != line_col(text, h["off"] + h["start"]) or c["sel"] != c["range"]:
            return "container range %r / selection %r do not start at the header %r" % (c["range"], c["sel"], line_col(text, h["off"] + h["start"]))
        if c["children"] is None:
            return "container has no children list"
        got = c["children"]
    else:
        got = outline
    if len(got) != len(decls):
        return "outline has %d entries, the file declares %d constants/types/fields/procs/funcs: %r vs %r" % (
            len(got), len(decls), [g["name"] for g in got], [d["name"] for d in decls])
    for i, (g, d) in enumerate(zip(got, decls)):
        if g["name"] != d["name"] or g["kind"] != d["kind"]:
            return "entry #%d is (%r, kind %d); declaration #%d is %s %r (kind %d)" % (i, g["name"], g["kind"], i, d["tag"], d["name"], d["kind"])
        if d.get("dk") and g["detail"] != d["detail"]:
            return "entry #%d (%s %s) has detail %r, declared %r" % (i, d["tag"], d["name"], g["detail"], d["detail"])
        if g["children"] is not None:
            return "entry #%d (%s) has a children list" % (i, d["name"])
        st = line_col(text, d["off"] + d["start"])
        if g["range"][:2] != st:
            return "entry #%d (%s) range starts at %r, the declaration starts at %r" % (i, d["name"], g["range"][:2], st)
        ns = line_col(text, d["off"] + d["nm"])
        if g["sel"] != ns + (ns[0], ns[1] + len(d["name"])):
            return "entry #%d (%s) selection range is %r, the name is written at %r" % (i, d["name"], g["sel"], ns + (ns[0], ns[1] + len(d["name"])))
        if not (g["range"][:2] <= g["sel"][:2] and g["sel"][2:] <= g["range"][2:]):
            return "entry #%d (%s): selection %r not inside range %r" % (i, d["name"], g["sel"], g["range"])
    # edits: every declaration also present in the base program has the same entry up to the line shift
    norm = {}
    for g, d in zip(got, decls):
        l0 = line_col(text, d["off"])[0]
        norm[d["uid"]] = (g["name"], g["detail"], g["kind"], g["range"][0] - l0, g["range"][1], g["range"][2] - l0, g["range"][3],
                          g["sel"][0] - l0, g["sel"][1], g["sel"][2] - l0, g["sel"][3])
    if heads:
        c = outline[0]
        l0 = line_col(text, heads[0]["off"])[0]
        norm[heads[0]["uid"]] = (c["name"], c["detail"], c["kind"], c["range"][0] - l0, c["range"][1], c["range"][2] - l0, c["range"][3])
    if meta.get("pid") is not None:
        OBS[meta["pid"]] = (norm, [d["uid"] for d in decls], heads[0]["uid"] if heads else None)
    if meta.get("base") is not None and meta["base"] in OBS:
        bnorm, border, bhead = OBS[meta["base"]]
        for uid, e in norm.items():
            if uid in bnorm and bnorm[uid] != e:
                return "edit %r changed the entry of an untouched declaration: %r became %r" % (meta["edit"], bnorm[uid], e)
        kind, info = meta["edit"][0], meta["edit"][1:]
        cur = [d["uid"] for d in decls]
        if kind == "insert":
            want = [u for u in cur if u != info[0]]
            if want != border:
                return "insert: the other entries are not the base outline's entries in order"
        elif kind == "delete":
            if cur != [u for u in border if u != info[0]]:
                return "delete: the remaining entries are not the base outline's other entries in order"
        elif kind == "swap":
            if sorted(cur) != sorted(border):
                return "swap: entry set changed"
    return None


def oracle(case, obs):
    if obs.startswith("PANIC") or obs == "CRASH":
        return "outline generation panicked: " + obs[:200]
    if obs.startswith("X"):
        return None   # lexer/parser panic on a (mutated) document: C04's subject, nothing to say about the outline
    nd, tree_s, out_s = split_obs(obs)
    try:
        outline = parse_outline(out_s)
    except Exception as e:
        return "unparsable outline: %r" % (e,)
    r = check_tree_relative(tree_s, outline)
    if r:
        return r
    text, meta = decode(case)
    if meta is not None:
        return check_expected(text, meta, nd, outline)
    return None


# =============================================================================================
# case generation
# =============================================================================================
SOUP = ["class", "module", "proc", "procedure", "endproc", "func", "function", "endfunc", "const", "type", "uses", "return",
        "end", "record", "endrecord", "memory", "refto", "forward", "external", "private", "multilang", "(", ")", "[", "]", ":",
        "=", ",", "#", ".", "+", "'s'", "1", "x", "aFoo", "int4", ";c\n", "\n", "if", "endif", "var"]


def mutate(rng, text):
    k = rng.random()
    lines = text.split("\n")
    if k < 0.15 and len(lines) > 1:
        i = rng.randrange(len(lines)); del lines[i]; return "\n".join(lines)
    if k < 0.3 and len(lines) > 1:
        i = rng.randrange(len(lines)); lines.insert(rng.randrange(len(lines)), lines[i]); return "\n".join(lines)
    if k < 0.4 and len(lines) > 2:
        i, j = rng.randrange(len(lines)), rng.randrange(len(lines)); lines[i], lines[j] = lines[j], lines[i]; return "\n".join(lines)
    if k < 0.6:
        words = re.split(r"(\s+)", text)
        if len(words) > 2:
            i = rng.randrange(len(words))
            if rng.random() < 0.5:
                del words[i]
            else:
                words.insert(i, rng.choice(SOUP) + " ")
        return "".join(words)
    if k < 0.7 and text:
        return text[:rng.randrange(len(text))]
    if k < 0.8 and text:
        i = rng.randrange(len(text)); return text[:i] + text[i + 1:]
    if k < 0.9 and text:
        i = rng.randrange(len(text)); return text[:i] + rng.choice(["\n", " ", ";", "'", "\"", "#", "(", "é", "$"]) + text[i:]
    return " ".join(rng.choice(SOUP) for _ in range(rng.randint(1, 40)))


def to_cps(text):
    return ".".join(str(ord(c)) for c in text)


def gen_batch(rng, g, nbase, pid0):
    """nbase base programs, three declaration-level edits of each, and one mutated document each"""
    cases = []
    for b in range(nbase):
        pid = pid0 + b
        blocks = g.program()
        cases.append(encode(blocks, pid=pid))
        idx = [i for i, bl in enumerate(blocks) if bl["tag"] in DECL_TAGS]
        # insert
        d = g.decl()
        at = rng.randint(0, len(blocks))
        cases.append(encode(blocks[:at] + [d] + blocks[at:], base=pid, edit=("insert", d["uid"])))
        # delete
        if idx:
            i = rng.choice(idx)
            cases.append(encode(blocks[:i] + blocks[i + 1:], base=pid, edit=("delete", blocks[i]["uid"])))
        # swap two declarations
        if len(idx) >= 2:
            i, j = rng.sample(idx, 2)
            bl = list(blocks); bl[i], bl[j] = bl[j], bl[i]
            cases.append(encode(bl, base=pid, edit=("swap", blocks[i]["uid"], blocks[j]["uid"])))
        # malformed / arbitrary stream: tree-relative statement only
        text = "".join(x["text"] for x in blocks)
        for _ in range(rng.randint(1, 3)):
            text = mutate(rng, text)
        cases.append(to_cps(text))
    return cases


FIXED = [
    "", "class aFoo", "module mBar", "class aFoo (aBar)\nclass aBaz\nmodule mQux\nconst c = 1\n",
    "const c = 1\nmodule mA\nclass aB\nx : int4\n", "; only a comment", "uses aFoo, aBar\n", "[Ann]\nconst c = 'v'\n",
    "proc p\nendproc\nproc p\nendproc\n", "func f#Ev(a : int4) return int4 forward\nfunc g return aFoo external 'x.dll'\n",
    "class aFoo\nclass aFoo\n", "type t : record\n a : int4\nendrecord\nmemory m : refTo [P] aBar private\n",
    "proc p\n  const = \nendproc\nconst c = 2", "const", "proc", "class", "func f return", "x :", "type t :",
]


def nontrivial(case):
    _, _, meta = case.partition("@")
    if meta:
        return meta.count('"tag":"const"') + meta.count('"tag":"type"') + meta.count('"tag":"field"') + \
            meta.count('"tag":"proc"') + meta.count('"tag":"func"') >= 2
    return case.count(".") >= 20


def shrinker(case):
    text, meta = decode(case)
    if meta is not None:
        bl = meta["blocks"]
        for i in range(len(bl)):
            rest = [{k: v for k, v in b.items() if k != "off"} for b in bl[:i] + bl[i + 1:]]
            yield encode(rest)          # no base: the expected-outline check alone
        return
    lines = text.split("\n")
    if len(lines) > 1:
        for i in range(len(lines)):
            yield to_cps("\n".join(lines[:i] + lines[i + 1:]))
    else:
        ws = text.split(" ")
        for i in range(len(ws)):
            yield to_cps(" ".join(ws[:i] + ws[i + 1:]))


def describe(case):
    text, meta = decode(case)
    if meta is not None and meta.get("edit"):
        return "[edit %r of program %r]\n%s" % (meta["edit"], meta.get("base"), text)
    return text


def split(out):
    # model input = everything before '#'; the model echoes it, so both sides print the same full line
    return out.split("#", 1)[0], out


def correspondence(ctx, broken_obligations=()):
    rng = random.Random(ctx.seed)
    g = Gen(rng)
    nbase = 1000 if ctx.quick else 21000
    per = 1000
    total = {"programs": 0, "evaluations": 0, "distinct_nontrivial": 0, "disagreements_checked": 0, "oracle_failures": 0,
             "diff_wall_s": 0.0}
    hist = {}
    samples = []
    first = True
    done = 0
    while done < nbase:
        n = min(per, nbase - done)
        OBS.clear()
        cases = gen_batch(rng, g, n, done)
        if first:
            cases = [to_cps(t) for t in FIXED] + cases
        cov = diff.differential(ctx, "outline", cases, split=split, oracle=oracle, shrinker=shrinker,
                                nontrivial=nontrivial, describe=describe)
        for k in total:
            total[k] = round(total[k] + cov[k], 2)
        for c in cases:
            _, _, meta = c.partition("@")
            if not meta:
                hist["mutated_or_fixed"] = hist.get("mutated_or_fixed", 0) + 1
                continue
            m = json.loads(meta)
            key = "base" if m.get("edit") is None else "edit_" + m["edit"][0]
            hist[key] = hist.get(key, 0) + 1
            if m.get("edit") is None:
                hs = sum(1 for b in m["blocks"] if b["tag"] in HEAD_TAGS)
                hist["headers_%s" % (hs if hs < 2 else "several")] = hist.get("headers_%s" % (hs if hs < 2 else "several"), 0) + 1
                for b in m["blocks"]:
                    hist["decl_" + b["tag"]] = hist.get("decl_" + b["tag"], 0) + 1
        if first:
            samples = [describe(cases[len(FIXED)])[:600], describe(cases[len(FIXED) + 1])[:600], describe(cases[-1])[:300]]
            first = False
        done += n
    OBS.clear()
    total["engine"] = "outline"
    total["rule"] = ("generated Gold programs from an abstract block list (0 / 1 / several class+module headers, header first or late, "
                     "uses, comments, annotations, const string/numeric/multilang, 14 type forms, fields with memory/modifiers/absolute, "
                     "proc/func with params, modifiers, forward, external 'dll', Name#Event, bodies of 0..4 statements, random layout / "
                     "CRLF / keyword casing), each with one insert, one delete and one swap of a declaration, each checked against "
                     "(a) the extracted Coq model on the dumped tree, (b) the generator's expected outline incl. start and name positions "
                     "and 0 parser diagnostics, (c) for edits the base program's outline up to the line shift; plus 1 mutated document per "
                     "program (line/word/char deletions, insertions, truncation, keyword soup) and fixed corner cases checked against the "
                     "declaration nodes of the implementation's own tree; non-trivial = at least 2 declarations (or 20+ chars for mutated)")
    total["input_histogram"] = hist
    total["samples"] = samples
    total["partial"] = ["the generator-side oracle checks names, kinds, order and positions of the expected outline for the generator's whole grammar; as a Coq theorem the composition text -> tokens -> tree -> outline is C12_outline_of_text, for the files of the grammar proved in C06 (FileRT.Decls)"]
    return total


def pretty(out_s):
    """readable form of a canonical outline"""
    try:
        def show(l, ind):
            r = []
            for d in l:
                r.append("%s%s  kind=%d detail=%r range=%r selection=%r%s" % (ind, d["name"], d["kind"], d["detail"], d["range"], d["sel"],
                         "" if d["children"] is not None else "  (leaf)"))
                if d["children"] is not None:
                    r += show(d["children"], ind + "    ")
            return r
        return "\n".join(show(parse_outline(out_s), "    ")) or "    (empty)"
    except Exception:
        return "    " + out_s[:2000]


def replay(ctx, rep):
    case = rep["case"]
    hb = diff.Engines.harness()
    out = core.run_lines(hb, "outline", [case], shards=1)[0]
    OBS.clear()
    r = oracle(case, out)
    mod = None
    if not (out.startswith("PANIC") or out == "CRASH"):
        mod = core.run_lines(diff.Engines.model(), "outline", [split(out)[0]], shards=1)[0]
    print("text:\n" + describe(case))
    print("implementation outline:\n" + (pretty(out.split("#", 1)[-1]) if "#" in out else "    " + out[:500]))
    if mod is not None and mod != out:
        print("model outline (differs):\n" + pretty(mod.split("#", 1)[-1]))
    elif mod is not None:
        print("model outline: identical")
    print("oracle:", r or "property holds on this case")
    if r or (mod is not None and mod != out):
        print("VIOLATION property=C12 replay=%s" % rep.get("how_to_rerun", "?").split()[-1])
        return 1
    return 0
