"""Shared by checks/c13.py and checks/c14.py: workspace descriptions, Gold text layout, the case
syntax of engine `forest`, parsing of its observations.

A workspace is a list of FileD.  The Python side is the only place that knows the text layout: it
renders the text and hands the positions of the interesting tokens to both engines in the case."""
import itertools, random


class FileD:
    """stem.god:  [class <cls> [(<par>)]]  [uses ...]  fields, methods
       members: list of (name, kind, override) with kind 'p' proc, 'f' func, 'v' field
       body: list of lines put inside the first method (C14: references to other entities)"""
    def __init__(self, stem, cls=None, par=None, uses=(), members=(), body=(), extra=()):
        self.stem, self.cls, self.par = stem, cls, par
        self.uses, self.members, self.body = list(uses), list(members), list(body)
        self.extra = list(extra)      # further top-level declaration lines (not members of the model: e.g. a field of an unknown type)

    def render(self):
        """-> (text, cls_pos, par_pos, [(name, kind, line, col)], [probe (line, col)])"""
        lines = []
        cls_pos = par_pos = None
        if self.cls is not None:
            if self.par is not None:
                lines.append("class %s (%s)" % (self.cls, self.par))
                par_pos = (0, len("class %s (" % self.cls))
            else:
                lines.append("class %s" % self.cls)
            cls_pos = (0, 6)
        else:
            lines.append("; no class in this file")
        lines.append(("uses " + ", ".join(self.uses)) if self.uses else "")
        lines.append("")
        mpos = []
        probes = []
        fields = [m for m in self.members if m[1] == "v"]
        meths = [m for m in self.members if m[1] != "v"]
        for (name, kind, ovr) in fields:
            mpos.append((name, kind, len(lines), 0))
            lines.append("%s : int4" % name)
        for x in self.extra:
            lines.append(x)
        lines.append("")
        first = True
        for (name, kind, ovr) in meths:
            head = ("proc %s(p1 : int4)" if kind == "p" else "func %s(p1 : int4) return int4") % name
            if ovr:
                head += " override"
            mpos.append((name, kind, len(lines), 5))
            lines.append(head)
            if first and self.body:
                for b in self.body:
                    if b.startswith("var "):
                        lines.append("   " + b)
                lines.append("   ;")
                for b in self.body:
                    if not b.startswith("var "):
                        # probes: the first identifier of the line and, when there is a dot, the one after it
                        probes.append((len(lines), 4))
                        if "." in b:
                            probes.append((len(lines), 3 + b.index(".") + 2))
                        lines.append("   " + b)
            else:
                lines.append("   ; body")
            first = False
            lines.append("endproc" if kind == "p" else "endfunc")
        return "\n".join(lines) + "\n", cls_pos, par_pos, mpos, probes

    def encode(self):
        text, cp, pp, mpos, probes = self.render()
        cps = ".".join(str(ord(c)) for c in text)
        cls = "-" if self.cls is None else "%s:%d:%d" % (self.cls, cp[0], cp[1])
        par = "-" if (self.cls is None or self.par is None) else "%s:%d:%d" % (self.par, pp[0], pp[1])
        uses = "+".join(self.uses) if self.uses else "-"
        mem = "+".join("%s:%s:%d:%d" % m for m in mpos) if mpos else "-"
        pr = "+".join("%d:%d" % p for p in probes) if probes else "-"
        return "~".join([self.stem, cls, par, uses, mem, pr, cps])


def encode_case(mode, files):
    return mode + "|" + ";".join(f.encode() for f in files)


def decode_case(case):
    """-> (mode, [dict(stem, cls, par, uses, members=[(name, kind, line, col)], text)])"""
    mode, rest = case.split("|", 1)
    out = []
    for fs in rest.split(";"):
        if not fs:
            continue
        f = fs.split("~")
        def tok(s):
            if s == "-":
                return None
            q = s.split(":")
            return (q[0], int(q[-2]), int(q[-1]))
        members = []
        if f[4] != "-":
            for m in f[4].split("+"):
                q = m.split(":")
                members.append((q[0], q[1], int(q[2]), int(q[3])))
        text = "".join(chr(int(x)) for x in f[6].split(".")) if f[6] else ""
        out.append(dict(stem=f[0], cls=tok(f[1]), par=tok(f[2]), uses=[] if f[3] == "-" else f[3].split("+"),
                        members=members, text=text))
    return mode, out


def with_mode(case, mode):
    return mode + "|" + case.split("|", 1)[1]


def describe(case):
    try:
        mode, files = decode_case(case)
    except Exception:
        return case
    return {"mode": mode, "files": dict((f["stem"] + ".god", f["text"]) for f in files)}


def parse_hier(out):
    """observation of a seq/par/sched case -> {tag: (prepare, sup, sub)} each a sorted list of items or 'ERR'/'-'"""
    res = {}
    if not out:
        return res
    for e in out.split(";"):
        tag, _, body = e.partition("[")
        body = body[:-1]
        parts = body.split("|")
        def items(s):
            if s in ("ERR", "-"):
                return s
            return [x for x in s.split(",") if x]
        res[tag] = tuple(items(p) for p in parts)
    return res


def recase(name, rng):
    """another spelling of the same (case-insensitive) name"""
    r = rng.random()
    if r < 0.3:
        return name.upper()
    if r < 0.5:
        return name.lower()
    if r < 0.7:
        return name.swapcase()
    return "".join(c.upper() if rng.random() < 0.5 else c.lower() for c in name)


def robust_differential(ctx, engine, cases, oracle, shrinker, repeats=8, budget=60, **kw):
    """diff.differential, but failures that depend on the schedule or on the enumeration order of the
    files (they do not reproduce on every run) are shrunk by re-running every candidate `repeats` times."""
    import json
    from vlib import core, diff
    try:
        return diff.differential(ctx, engine, cases, oracle=oracle, **kw)
    except core.Violation as v:
        if not v.found_input or shrinker is None:
            raise
        rep = json.load(open(v.replay))
        case, observed, what = rep["case"], rep.get("observed"), v.what
        hb = diff.Engines.harness(hooks=kw.get("hooks", False))
        canon = kw.get("canon")
        known = kw.get("known")

        def fails(cand):
            outs = core.run_lines(hb, engine, [cand] * repeats, shards=1)
            for o in outs:
                o2 = canon(o) if canon else o
                r = oracle(cand, o2)
                if r is not None and not (known and known(cand, o2, None)):
                    return o2, r
            return None
        improved = True
        while improved and budget > 0:
            improved = False
            for cand in shrinker(case):
                budget -= 1
                if budget <= 0:
                    break
                f = fails(cand)
                if f:
                    case, (observed, what) = cand, f
                    improved = True
                    break
        path = core.write_replay(ctx.pid, ctx.seed, {
            "engine": engine, "case": case, "case_readable": describe(case), "observed": observed, "expected": what,
            "minimised_from": rep.get("case_readable"),
            "note": "the failure may depend on the schedule / on the enumeration order of the files: replay runs the case several times"})
        v2 = core.Violation(what, path, True)
        v2.coverage = getattr(v, "coverage", {})
        raise v2


def batched_differential(ctx, engine, cases, oracle, shrinker, batch=16000, **kw):
    """robust_differential over batches: every harness process gets at most batch/16 cases, far below
    the per-process time limit of vlib.core.run_lines even on a loaded machine"""
    total = None
    for i in range(0, max(len(cases), 1), batch):
        cov = robust_differential(ctx, engine, cases[i:i + batch], oracle, shrinker, **kw)
        if total is None:
            total = cov
        else:
            for k in ("programs", "evaluations", "disagreements_checked", "oracle_failures"):
                total[k] += cov[k]
            total["diff_wall_s"] = round(total["diff_wall_s"] + cov["diff_wall_s"], 2)
    nt = kw.get("nontrivial")
    total["distinct_nontrivial"] = len(set(c for c in cases if (nt(c) if nt else True)))
    return total
