"""C04  Lexing and parsing are total."""
import itertools, random
from vlib import core, diff
from checks import parser_common as pc

MANIFEST = dict(
    engine="E-parse",
    technique="Coq proof: well-formedness logical relation over every parser combinator and every grammar function (no panic site reachable, no fuel exhaustion, strict progress, all tokens consumed) by induction on the fuel-indexed grammar knot; exhaustive + generated + mutated differential run of the extracted parser model against lex+parse_gold on a 2 MB thread",
    text=("Theorem C04_parse_total: for ALL token lists, memoisation on or off, the model of parse_gold returns Ok [] root: every unwrap/"
          "index site of the code (explicit Panic outcomes of the model) is unreachable, the recursion bound of the model (fuel = number "
          "of tokens + 2) is never exhausted -- every loop and every recursive descent consumes a token first -- and every token is "
          "consumed. Proved through a logical relation W over all combinators of parser/utils.rs and all ~90 parse_* functions, closed by "
          "induction over the fuel-indexed knot (gram_W). Table obligations regenerated from ast.rs: every node kind defines its name, kind, "
          "type string and both-or-neither child views. The model is tied to the code by complete-observation differential runs: all strings "
          "<= 4 over the 17-symbol lexical alphabet, all token sequences <= 4 over two 16-kind alphabets (top level / inside a method body), "
          "keyword soups, byte- and token-level mutations of every fixture and of generated programs, random Unicode, nesting towers (128) and "
          "long lists (2000); the implementation runs on a 2 MB thread with a watchdog, every trait method of every node is called, the two "
          "child views are compared by pointer identity, and the outline is computed as well."),
    note="Partial: stack BYTES are measured (towers run on a 2 MB thread), not proved; the proof bounds recursion depth by the number of tokens. Trusted: Coq kernel, translators T1/T2/T5, extraction, harness; the hand-written model Model/PComb.v + Model/Grammar.v (validated by the differential run).",
    design="6 C04",
    engines=[dict(name="E-parse", path="harness/src/eng_parse.rs, eng_parsesafe.rs, treedump.rs + coq/extract/eng_parse.ml, tree_io.ml",
                  kind_free_text="differential: lex+parse_gold vs extracted Coq lexer+parser model; complete tree dump, remaining length, ordered diagnostics with messages")],
)
MANIFEST["text"] += ' Fourth session: a remainder that is not the tail of the token list counts as unconsumed input.'

ASSUMPTIONS = [
    "stack depth in bytes is measured on a 2 MB thread, not proved (the theorem bounds the recursion depth by the number of tokens)",
    "token type, keyword and node-kind tables are regenerated from /repo/src on every run (translators T1, T2, T5)",
]


def gen_cases(ctx):
    rng = random.Random(ctx.seed)
    q = ctx.quick
    cases = []
    hist = {}

    def add(kind, it):
        n0 = len(cases)
        cases.extend(it)
        hist[kind] = len(cases) - n0

    add("lex_strings", pc.lex_strings(4 if q else 5))
    add("tok_top", pc.tok_sequences(pc.TOK_TOP, 4 if q else 5))
    add("tok_body", pc.tok_sequences(pc.TOK_BODY, 3 if q else 4, wrap="proc P\n%s\nendproc"))
    # the same over the block keywords (every opener, separator and terminator of the statement grammar, plus an operand)
    blocks = ["x", "if", "elseif", "else", "endif", "while", "endwhile", "for", "=", "to", "endfor", "switch", "when", "endwhen",
              "endswitch", "repeat", "until", "loop", "endloop", "foreach", "in", "return", "1"]
    add("tok_body_blocks", [pc.enc("proc P\n%s\nendproc" % " ".join(t)) for l in range(1, (3 if q else 4) + 1)
                            for t in itertools.product(blocks, repeat=l)])
    add("soups", [pc.enc(pc.soup(rng, rng.randint(1, 60))) for _ in range(3000 if q else 60000)])
    fx = pc.fixtures()
    progs = [t for (t, _, _) in pc.generated_programs(rng, 600 if q else 8000)]
    add("fixtures", [pc.enc(t) for t in fx])
    add("generated", [pc.enc(t) for t in progs])
    pool = pc.keywords() + list("()[]{}.,:=+-*/<>&#'\";") + ["a", "Foo", "1", "'s'", "\n", "<<", ":=", "++"]
    muts = []
    for t in fx:
        for _ in range(25 if q else 400):
            m = t
            for _ in range(rng.randint(1, 3)):
                m = pc.mutate_text(rng, m, pool)
            muts.append(pc.enc(m))
    for t in progs:
        for _ in range(2 if q else 6):
            m = t
            for _ in range(rng.randint(1, 3)):
                m = pc.mutate_text(rng, m, pool)
            muts.append(pc.enc(m))
    add("mutants", muts)
    add("unicode", [pc.enc(pc.unicode_noise(rng, rng.randint(1, 80))) for _ in range(1500 if q else 30000)])
    # boundary literals and long atoms: integer literals around the machine word sizes (bare, after `#`, in every literal
    # position), and long names / strings / comments with multi-byte characters at every offset around the lengths at which
    # code tends to truncate (outline details, messages)
    lits = ["255", "256", "65535", "65536", "2147483647", "2147483648", "4294967295", "4294967296", "9223372036854775807",
            "9223372036854775808", "18446744073709551615", "18446744073709551616", "9" * 40, "1" * 400]
    bl = []
    for d in lits:
        for tpl in ["%s", "#%s", "const c = %s\n", "const c = #%s\n", "proc P\n x = %s\nendproc\n", "proc P\n x = #%s + a[%s]\nendproc\n",
                    "type t : [1..%s]\n", "F : int4 = %s\n", "proc P\n switch x\n when %s..#%s\n endwhen\n endswitch\nendproc\n"]:
            bl.append(pc.enc(tpl.replace("%s", d)))
    for n in ([20, 31, 32, 33, 39, 40, 41, 42, 63, 64, 65, 79, 80, 81, 127, 128, 129, 255, 256, 257] if q else range(1, 300)):
        for ch in ["\u00e9", "\u4e2d", "\U0001f600"]:
            for off in (0, 1, 2, 3):
                body = "a" * max(0, n - off) + ch + "b" * off
                for tpl in ["const cLong = '%s'\n", "const %s = 1\n", "%s : int4\n", "proc %s\nendproc\n", "type %s : int4\n",
                            ";%s\nconst c = 1\n", "class %s (%s)\n", "proc P(%s : int4)\n var %s : int4\n %s = '%s'\nendproc\n"]:
                    bl.append(pc.enc(tpl.replace("%s", body)))
    add("boundaries", bl)
    add("towers", [pc.enc(t) for t in pc.towers(big=True).values()])   # the bounds of the statement (128 levels, 2,000 items) in both tiers
    return cases, hist


def oracle(case, out):
    if out.startswith("PANIC") or out in ("CRASH", "HANG"):
        return "the implementation did not return normally: " + out[:200]
    parts = out.split("|")
    if len(parts) != 3:
        return "unparsable observation"
    if parts[0].endswith("!detached"):
        return ("the remainder the parser returned is not the tail of the token list (a slice of an earlier sub-parse): "
                "tokens at the end of the input were never consumed")
    if parts[0] != "0":
        return "the parser left %s tokens unconsumed" % parts[0]
    if "99=n1" in parts[1]:
        return "a node's two child views disagree in number or order"
    if "(-1 " in parts[1]:
        return "a node reports a kind that is not an IAstNode impl"
    return None


def shrinker(case):
    cs = case.split(".") if case else []
    n = len(cs)
    step = max(1, n // 8)
    while step >= 1:
        for i in range(0, n, step):
            yield ".".join(cs[:i] + cs[i + step:])
        step //= 2


def server_towers(ctx, cov):
    """Every tower (128 levels / 2,000 items) alone in a workspace served by the real binary (debug build of /repo's
    working tree): the start-up index, documentSymbol and diagnostic must all be answered and the process must exit 0."""
    import os, shutil, tempfile
    from vlib import lsp
    binary = lsp.build_server()
    done = 0
    for name, text in pc.towers(big=True).items():
        root = tempfile.mkdtemp(prefix="goldverif-c04-")
        try:
            path = os.path.join(root, "aTower.god")
            open(path, "w").write(text)
            s = lsp.Session(binary, root)
            s.initialize(root)
            uri = lsp.file_uri(path)
            s.request(1, "textDocument/documentSymbol", {"textDocument": {"uri": uri}})
            s.request(2, "textDocument/diagnostic", {"textDocument": {"uri": uri}})
            r1 = s.wait_response(1, 60)
            r2 = s.wait_response(2, 60)
            r3, rc = s.shutdown_exit(3, 30)
            bad = None
            if r1 is None or "result" not in r1:
                bad = "documentSymbol was not answered with a result"
            elif r2 is None or "result" not in r2:
                bad = "diagnostic was not answered with a result"
            elif rc != 0:
                bad = "the server did not exit with status 0 (status %r)" % rc
            if bad:
                err = [l.strip() for l in s.stderr if "overflow" in l or "panicked" in l or "fatal" in l][:3]
                rep = {"engine": "server(debug build, pool worker stack)", "tower": name, "case": pc.enc(text),
                       "case_readable": text[:300] + ("..." if len(text) > 300 else ""), "observed": bad, "stderr": err,
                       "expected": "both requests answered and exit status 0 on a text within the stated bounds (128 levels, 2,000 items)"}
                v = core.Violation("tower %s: %s %s" % (name, bad, " / ".join(err)), core.write_replay(ctx.pid, ctx.seed, rep), True)
                v.coverage = cov
                raise v
            done += 1
        finally:
            shutil.rmtree(root, ignore_errors=True)
    return done


def correspondence(ctx, broken_obligations=()):
    cases, hist = gen_cases(ctx)
    big = [c for c in cases if c.count(".") > 6000]
    pending = None
    try:
        cov = diff.differential(ctx, "parsesafe", cases, model_engine="parse", oracle=oracle, shrinker=shrinker,
                                nontrivial=lambda c: c.count(".") >= 2, describe=pc.dec)
    except core.Violation as v:
        if v.found_input:
            raise
        # the correspondence broke without a failing input: the remaining stages go on searching for one
        pending = v
        cov = dict(getattr(v, "coverage", None) or {})
    # overflow checks and optimisation level: the same oracle on the release build
    rel = diff.Engines.harness(release=True)
    sample = cases[::7] + big
    outs = core.run_lines(rel, "parsesafe", sample)
    for c, o in zip(sample, outs):
        r = oracle(c, o)
        if r:
            path = core.write_replay(ctx.pid, ctx.seed, {"engine": "parsesafe(release)", "case": c, "case_readable": pc.dec(c)[:2000],
                                                       "observed": o[:2000], "expected": r})
            v = core.Violation(r, path, True)
            v.coverage = cov
            raise v
    cov["release_build_cases"] = len(sample)
    # the bounds of the statement on the server as built (unoptimised frames, pool workers with the default 2 MiB stack)
    cov["server_towers"] = server_towers(ctx, cov)
    if pending is not None:
        raise pending
    cov["input_histogram"] = hist
    cov["rule"] = ("exhaustive: strings <= %d over 17 lexical symbols, token sequences <= %d over a 16-kind top-level alphabet and <= %d over a "
                   "16-kind body alphabet inside a method; random: keyword soups, 1-3 byte/token mutations of every fixture and of generated "
                   "programs, random Unicode; towers (nesting 128, lists %d); non-trivial = at least 3 characters"
                   % ((4, 4, 3, 2000) if ctx.quick else (5, 5, 4, 2000)))
    cov["exhaustive"] = True
    cov["samples"] = [pc.dec(cases[90000])[:120], pc.dec(cases[-len(pc.towers(True)) - 30])[:200]]
    return cov


def replay(ctx, rep):
    case = rep["case"]
    out = core.run_lines(diff.Engines.harness(), "parsesafe", [case], shards=1)[0]
    r = oracle(case, out)
    print("text:", repr(pc.dec(case))[:500]); print("implementation:", out[:500]); print("oracle:", r or "property holds on this case")
    if r:
        print("VIOLATION property=C04 replay=%s" % rep.get("how_to_rerun", "?").split()[-1])
        return 1
    return 0
