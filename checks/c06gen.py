"""C06 generators and tree oracles on top of vlib/goldgen.py (which is not edited):
   the regenerated operator ladder, operator-pair programs with the trees the precedence rule
   prescribes, every statement form nested in every block form, layout randomisation, comparison of
   a dumped tree with the generator's expected shape, range enclosure, and a re-implementation of
   manager/utils.rs:search_encasing_node over the dump."""
import os, re, random
from vlib import core, goldgen

# source text of the binary operators, keyed by TokenType variant (cross-validated against the real
# lexer by the check: lexing the text must give exactly this token type)
LEXEME = {
    "Or": "or", "Xor": "xor", "And": "and", "Equals": "=", "NotEquals": "<>", "LessThan": "<",
    "LessThanOrEqual": "<=", "GreaterThan": ">", "GreaterThanOrEqual": ">=", "In": "in", "Like": "like",
    "LeftShift": "<<", "RightShift": ">>", "BOr": "bOr", "BXor": "bXor", "BAnd": "bAnd", "Plus": "+",
    "Minus": "-", "StringConcat": "&&", "StringConcat2": "&", "Asterisk": "*", "Divide": "/", "Modulus": "%",
    "Dot": ".",
}

def gen_dir():
    return os.path.join(core.COQ, "theories", "Gen")


def token_index():
    """TokenType variant -> index (declaration order), from Gen/Tokens.v"""
    src = open(os.path.join(gen_dir(), "Tokens.v")).read()
    return {m.group(1): int(m.group(2)) for m in re.finditer(r"^\s*\| T(\w+) => (\d+)$", src, re.M)}


def read_ladder():
    """[(rust function, [TokenType variant, ...])], lowest precedence first, and the dot level, from Gen/Ladder.v"""
    src = open(os.path.join(gen_dir(), "Ladder.v")).read()
    body = src[src.index("Definition ladder :"):src.index("Definition ladder_names")]
    levels = []
    for m in re.finditer(r"\[([^\]\[]*)\];?\s*\(\* (\w+) \*\)", body):
        levels.append((m.group(2), [t.strip()[1:] for t in m.group(1).split(";") if t.strip()]))
    dot = re.search(r"Definition ladder_dot : list ttype := \[T(\w+)\]", src).group(1)
    return levels, dot


def ladder_vs_spec(levels):
    """the regenerated ladder against the property's own precedence table (goldgen.OP_LEVELS);
    returns a list of discrepancies"""
    bad = []
    spec = [sorted(x.lower() for x in ops) for ops in goldgen.OP_LEVELS]
    got = []
    for fn, ops in levels:
        unknown = [o for o in ops if o not in LEXEME]
        if unknown:
            bad.append("level %s has operators without a known lexeme: %s" % (fn, unknown))
        got.append(sorted(LEXEME[o].lower() for o in ops if o in LEXEME))
    if got != spec:
        bad.append("regenerated ladder %s differs from the property's precedence levels %s" % (got, spec))
    return bad


# ---------------------------------------------------------------------------------------------
# operator pairs
# ---------------------------------------------------------------------------------------------

def T(name):
    return ("AstTerminal", name, [])


def B(op, l, r):
    return ("AstBinaryOp", op, [l, r])


def wrap_stmt(line, stmt_expected):
    text = "proc P\n " + line + "\nendproc\n"
    exp = [("AstProcedure", "P", [T("P"), ("AstMethodBody", "method_body", [stmt_expected])])]
    return text, exp


def pair_programs(levels):
    """all ordered operator pairs of the regenerated ladder, plain and with each bracketing; the expected
    tree comes from the property's precedence rule (goldgen.LEVEL_OF), not from the code"""
    ops = [LEXEME[o] for _, l in levels for o in l if o in LEXEME]
    out = []
    for o1 in ops:
        for o2 in ops:
            if o1 not in goldgen.LEVEL_OF or o2 not in goldgen.LEVEL_OF:
                continue
            l1, l2 = goldgen.LEVEL_OF[o1], goldgen.LEVEL_OF[o2]
            a, b, c = T("a"), T("b"), T("c")
            left = B(o2, B(o1, a, b), c)
            right = B(o1, a, B(o2, b, c))
            plain = right if l1 < l2 else left      # higher level binds tighter; same level: left-assoc
            out.append(("pair", (o1, o2)) + wrap_stmt("x = a %s b %s c" % (o1, o2), B("=", T("x"), plain)))
            out.append(("pair-l", (o1, o2)) + wrap_stmt("x = (a %s b) %s c" % (o1, o2), B("=", T("x"), left)))
            out.append(("pair-r", (o1, o2)) + wrap_stmt("x = a %s (b %s c)" % (o1, o2), B("=", T("x"), right)))
    return out


# ---------------------------------------------------------------------------------------------
# every statement form inside every block form
# ---------------------------------------------------------------------------------------------

class ForcingRng:
    """random.Random whose next direct randrange() call can be forced (Gen.gen_stmt draws the
    statement form with r.randrange)"""
    def __init__(self, seed):
        self._r = random.Random(seed)
        self.forced = []

    def randrange(self, *a):
        if self.forced:
            return self.forced.pop(0)
        return self._r.randrange(*a)

    def __getattr__(self, name):
        return getattr(self._r, name)


class C06Gen(goldgen.Gen):
    """Gen with (a) a renderer that separates a prefix minus from an operand that itself starts with a minus
    (`- -x`; goldgen renders `--x`, which is the decrement token and not the program it means), and (b) the
    constructs goldgen does not emit but the C06 proofs cover: untyped parameters, `uses` / `type` inside bodies,
    `var .. absolute ..`, composed types, annotations in front of fields, type declarations, class / module headers (no
    node) and in front of methods, constants, uses lists, at the end of the file (an AstEmpty node)"""
    EXTRA_FORMS = 3          # uses / type / var-absolute inside a body

    def render_expr(self, e, min_level=0, noparen=False):
        if e[0] == "pre" and e[1] == "-":
            inner = self.render_expr(e[2], goldgen.PRIMARY)
            s = "-" + (" " if inner.startswith("-") else "") + inner
            if not noparen and self.level(e) >= min_level and self.r.random() < 0.08:
                return "(" + s + ")"
            return s
        return super().render_expr(e, min_level, noparen)

    def extra_stmt(self, depth, k):
        r = self.r
        ind = "  " * (depth + 1)
        if k == 0:
            us = r.sample(["aBase", "aUtil", "WFCore"], r.randint(1, 3))
            return [ind + self.kw("uses") + " " + ", ".join(us)], ("AstUses", "uses", [])
        if k == 1:
            nm = "tLocal" + str(r.randint(0, 9))
            tt, te = self.gen_type(2)
            if "\n" in tt:
                tt, te = "int4", ("AstTypeBasic", "int4", [])
            return [ind + self.kw("type") + " " + nm + " : " + tt], ("AstTypeDeclaration", nm, [te])
        nm = r.choice(["ov", "alias", "p"]) + str(r.randint(0, 9))
        tt, te = self.gen_type(2)
        if "\n" in tt:
            tt, te = "int4", ("AstTypeBasic", "int4", [])
        tgt = self.ident()
        return [ind + self.kw("var") + " " + nm + " : " + tt + " " + self.kw("absolute") + " " + tgt], \
            ("AstLocalVariableDeclaration", nm, [te, ("AstTerminal", tgt, [])])

    def gen_stmt(self, depth=0):
        if self.r.random() < 0.05:
            return self.extra_stmt(depth, self.r.randrange(self.EXTRA_FORMS))
        return super().gen_stmt(depth)

    def gen_params(self, depth=0, force=False):
        """as goldgen's, plus untyped parameters"""
        r = self.r
        if not force and r.random() < 0.35:
            return "", []
        ps, kids = [], []
        for i in range(r.randint(0, 3)):
            nm = r.choice(["A", "B", "Count", "pX", "Val"]) + str(i)
            mod = r.choice(["", "", self.kw("inout") + " ", self.kw("var") + " ", self.kw("const") + " "])
            if r.random() < 0.2:
                ps.append("%s%s" % (mod, nm))
                kids.append(("AstParameterDeclaration", nm, []))
                continue
            tt, te = self.gen_type(depth + 1) if depth < 2 else ("int4", ("AstTypeBasic", "int4", []))
            if "\n" in tt:
                tt, te = "int4", ("AstTypeBasic", "int4", [])
            ps.append("%s%s : %s" % (mod, nm, tt))
            kids.append(("AstParameterDeclaration", nm, [te]))
        return "(" + ", ".join(ps) + ")", [("AstParameterDeclarationList", "param_decls", kids)]

    ANNOTATIONS = ["[Key]", "[Index, 2]", "[ Doc 'x y' ]", "[]", "[a.b = c]"]

    def annotate(self, lines):
        """an annotation in front of the declaration that starts at lines[0]: on its own line or on the same line"""
        ann = self.r.choice(self.ANNOTATIONS)
        if self.r.random() < 0.5:
            return [ann] + lines
        return [ann + " " + lines[0]] + lines[1:]

    def gen_type(self, depth=0):
        """as goldgen's, plus composed types  T + (a, b) + U  (operands: basic types and enums, left associative)"""
        r = self.r
        if r.random() < 0.08:
            parts = []
            for _ in range(r.randint(2, 3)):
                if r.random() < 0.5:
                    b = r.choice(goldgen.TYPES)
                    parts.append((b, ("AstTypeBasic", b, [])))
                else:
                    names = ["cA", "cB", "cC"][: r.randint(1, 3)]
                    parts.append(("(" + ", ".join(names) + ")",
                                  ("AstTypeEnum", "type_enum", [("AstEnumVariant", n, []) for n in names])))
            e = parts[0][1]
            for _, pe in parts[1:]:
                e = ("AstBinaryOp", "+", [e, pe])
            return " + ".join(t for t, _ in parts), e
        return super().gen_type(depth)

    def gen_decl(self):
        """as goldgen's, plus an annotation in front of a field or a type declaration (it leaves no node)"""
        lines, e = super().gen_decl()
        if e[0] in ("AstGlobalVariableDeclaration", "AstTypeDeclaration") and self.r.random() < 0.2:
            lines = self.annotate(lines)
        return lines, e

    EMPTY = ("AstEmpty", "empty_node", [])

    def gen_program(self, n_decls=None, header=None):
        """as goldgen's, plus annotations: in front of the class / module header (no node), and in front of methods,
        constants, uses lists and at the end of the file, where the code ignores them and leaves an AstEmpty node"""
        r = self.r
        lines, kids, methods = [], [], []
        header = header if header is not None else r.choice(["class", "class", "classp", "module", "none"])
        cname = "a" + r.choice(["Thing", "Widget", "Acct"]) + str(r.randint(0, 99))
        if header == "class":
            lines.append(self.kw("class") + " " + cname)
            kids.append(("AstClass", cname, []))
        elif header == "classp":
            lines.append(self.kw("class") + " " + cname + " (aBase)")
            kids.append(("AstClass", cname, []))
        elif header == "module":
            lines.append(self.kw("module") + " " + cname)
            kids.append(("AstModule", cname, []))
        if lines and r.random() < 0.15:
            lines = self.annotate(lines)
        for _ in range(n_decls if n_decls is not None else r.randint(0, 8)):
            info = None
            if r.random() < 0.45:
                ls, e, info = self.gen_method(force_body=False)
            else:
                ls, e = self.gen_decl()
            if e[0] in ("AstProcedure", "AstFunction", "AstConstantDeclaration", "AstUses") and r.random() < 0.12:
                n0 = len(ls)
                ls = self.annotate(ls)
                kids.append(self.EMPTY)
                if info is not None and len(ls) > n0:
                    lines.append(ls[0])
                    ls = ls[1:]
            if info is not None:
                info["first_line"] = len(lines)
                info["n_lines"] = len(ls)
                methods.append(info)
            lines += ls
            kids.append(e)
            if r.random() < 0.3:
                lines.append("")
        if r.random() < 0.03:
            lines.append(r.choice(self.ANNOTATIONS))
            kids.append(self.EMPTY)
        nl = "\r\n" if r.random() < 0.2 else "\n"
        return nl.join(lines) + nl, kids, methods


class NestGen(C06Gen):
    """Gen whose block bodies start with a forced statement form"""
    def __init__(self, rng, max_depth=3):
        super().__init__(rng, max_depth)
        self.inner = None

    def stmt_of_kind(self, depth, k):
        if k >= 17:
            return self.extra_stmt(depth, k - 17)
        self.r.forced.append(k)
        return goldgen.Gen.gen_stmt(self, depth)

    def gen_block(self, depth, n=None):
        if self.inner is not None and depth == 1:
            k2 = self.inner
            saved, self.inner = self.inner, None        # the forced statement's own bodies are random
            first = self.stmt_of_kind(depth, k2)
            rest = super().gen_block(depth, self.r.randint(0, 1))
            self.inner = saved
            return [first] + rest
        return super().gen_block(depth, n)


N_FORMS = 17 + C06Gen.EXTRA_FORMS
BLOCK_FORMS = range(8, 15)     # if for foreach while loop repeat switch


def nested_programs(seed, reps):
    """each of the 17 statement forms as the first statement of every body of each of the 7 block
    statements (depth 2), plus each form directly in a method body"""
    out = []
    for rep in range(reps):
        for k in range(N_FORMS):
            rng = ForcingRng("%s-%d-top-%d" % (seed, rep, k))
            g = NestGen(rng, max_depth=3)
            lines, exp = g.stmt_of_kind(0, k)
            text = "proc P\n" + "\n".join(lines) + "\nendproc\n"
            out.append(("form", (k, None), text,
                        [("AstProcedure", "P", [T("P"), ("AstMethodBody", "method_body", [exp])])]))
        for kb in BLOCK_FORMS:
            for k in range(N_FORMS):
                rng = ForcingRng("%s-%d-%d-%d" % (seed, rep, kb, k))
                g = NestGen(rng, max_depth=3)
                g.inner = k
                lines, exp = g.stmt_of_kind(0, kb)
                text = "proc P\n" + "\n".join(lines) + "\nendproc\n"
                out.append(("nested", (kb, k), text,
                            [("AstProcedure", "P", [T("P"), ("AstMethodBody", "method_body", [exp])])]))
    return out


# ---------------------------------------------------------------------------------------------
# layout
# ---------------------------------------------------------------------------------------------

TERMINATORS = ("endswitch", "endwhen", "when", "endif", "elseif", "else", "endloop", "until", "endfor", "endwhile", "endrecord",
               "endproc", "endfunc", "end")


def comment_terminators(rng, text, prob):
    """a comment line in front of block terminators (every one when prob = 1): comments are layout, and the
    terminators are found by parsers that must skip them"""
    nl = "\r\n" if "\r\n" in text else "\n"
    out = []
    for ln in text.split(nl):
        w = ln.strip().split(" ")[0].lower() if ln.strip() else ""
        if w in TERMINATORS and rng.random() < prob:
            out.append(ln[:len(ln) - len(ln.lstrip(" \t"))] + ";" + rng.choice(["c", "note", "", "end", "x = 1"]))
        out.append(ln)
    return nl.join(out)


def comment_in_expressions(rng, text, prob):
    """a comment and a line break INSIDE an expression: after a binary operator or after a comma of an argument list
    (the continuation starts with the next operand, e.g. a call name).  Comments are layout: same tree, no diagnostics."""
    import re
    nl = "\r\n" if "\r\n" in text else "\n"
    out = []
    for ln in text.split(nl):
        if "'" in ln or '"' in ln or ";" in ln or rng.random() >= prob:
            out.append(ln)
            continue
        spots = [m.end() for m in re.finditer(r" (?:\+|-|\*|/|&|=|<>|<=|>=|<|>) (?=[A-Za-z_(])|, (?=[A-Za-z_(])", ln)]
        ind = ln[:len(ln) - len(ln.lstrip(" \t"))]
        if not spots or not ln.strip() or " = " not in ln and "(" not in ln:
            out.append(ln)
            continue
        k = rng.choice(spots)
        if ln[:k].rstrip().endswith("=") and " = " in ln and ln.index(" = ") + 3 == k and not re.match(r"\s*[A-Za-z_.\[\]0-9]+ = ", ln):
            out.append(ln)
            continue
        out.append(ln[:k].rstrip() + " ;" + rng.choice(["c", "note", "more"]))
        out.append(ind + "    " + ln[k:])
    return nl.join(out)


SWITCH_COMMENT_CASES = [
    "proc P\n switch x\n  when 1\n   a = 1\n  endwhen\n  ;c\n endswitch\nendproc\n",
    "proc P\n switch x\n  when 1\n   a = 1\n  endwhen\n  ;c\n else\n   b = 2\n  ;d\n endswitch\nendproc\n",
    "proc P\n switch x\n  ;c\n endswitch\nendproc\n",
    "proc P\n switch x\n  ;c\n  when 1, 2\n  ;d\n  endwhen\n  ;e\n  when 3 to 4\n  endwhen\n ;f\n endswitch\n ;g\nendproc\n",
]


def relayout(rng, text):
    """random indentation, trailing blanks, blank lines and line terminators; tokens and their order are
    untouched (string literals may contain blanks, so only line ends are changed)"""
    nl = "\r\n" if "\r\n" in text else "\n"
    lines = text.split(nl)
    out = []
    for ln in lines:
        if ln.strip() == "":
            out.append(ln)
            continue
        k = rng.random()
        body = ln.lstrip(" \t")
        if k < 0.5:
            ind = ln[:len(ln) - len(body)]
        elif k < 0.8:
            ind = " " * rng.randint(0, 9)
        else:
            ind = "\t" * rng.randint(1, 3)
        tail = rng.choice(["", "", "", " ", "  ", "\t"])
        out.append(ind + body + tail)
        if rng.random() < 0.08:
            out.append(rng.choice(["", "   ", "\t"]))
    nl2 = nl if rng.random() < 0.8 else ("\n" if nl == "\r\n" else "\r\n")
    return nl2.join(out)


# ---------------------------------------------------------------------------------------------
# comparing a dumped tree with the expected shape
# ---------------------------------------------------------------------------------------------

def shape_diff(expected, dumped, path="root"):
    """expected: list of (kind, ident, children); dumped: list of (kind, ident, children, info).
    None when same kinds, same names (letter case of keywords aside), same nesting, same order;
    else a description of the first difference"""
    if len(expected) != len(dumped):
        return "%s: %d children expected %s, %d found %s" % (
            path, len(expected), [e[0] for e in expected][:8], len(dumped), [d[0] for d in dumped][:8])
    for i, (e, d) in enumerate(zip(expected, dumped)):
        p = "%s/%s[%d]" % (path, e[0], i)
        if e[0] != d[0]:
            return "%s: kind %s found" % (p, d[0])
        if e[1].lower() != d[1].lower():
            return "%s: name %r expected, %r found" % (p, e[1], d[1])
        r = shape_diff(e[2], d[2], p)
        if r:
            return r
    return None


def shape_matches(expected_children, dumped_root):
    return shape_diff(expected_children, dumped_root[2]) is None


def strip_comments(children):
    """the same tree without comment nodes (comments between statements are layout: whether the parser keeps an
    AstComment node or its neighbour's exp_token skips the comment is outside what the property states).
    Works on expected (kind, ident, children) and on dumped (kind, ident, children, info) nodes."""
    out = []
    for ch in children:
        if ch[0] == "AstComment":
            continue
        out.append((ch[0], ch[1], strip_comments(ch[2])) + tuple(ch[3:]))
    return out


def count_kind(children, kind):
    return sum((1 if c[0] == kind else 0) + count_kind(c[2], kind) for c in children)


# ---------------------------------------------------------------------------------------------
# ranges
# ---------------------------------------------------------------------------------------------

def pos_le(a, b):
    return a[0] < b[0] or (a[0] == b[0] and a[1] <= b[1])


def rng_of(node):
    r = node[3]["range"]
    return (r[0], r[1]), (r[2], r[3])


def tokens_of_attrs(attrs):
    """token-valued attributes of a dumped node: [(key, type idx, raw, (sl, sc), (el, ec), value)]"""
    out = []
    for part in attrs.split(";"):
        if "=" not in part:
            continue
        k, v = part.split("=", 1)
        if not v or v[0] not in "tl":
            continue
        for tk in v[1:].split(","):
            f = tk.split(":")
            if len(f) == 7:
                out.append((int(k), int(f[0]), int(f[1]), (int(f[2]), int(f[3])), (int(f[4]), int(f[5])), f[6]))
    return out


def enclosure_violations(root):
    """nodes whose range does not enclose a child's range.  The only exception: the root, whose range is
    the default 0:0-0:0.  (A multi-line string literal's token END lies on its start line; parents take their end
    from that same token, so enclosure holds there too -- the hand-written multi-line programs of the check.)"""
    bad = []

    def walk(n, is_root):
        s, e = rng_of(n)
        for c in n[2]:
            cs, ce = rng_of(c)
            if not is_root:
                if not pos_le(s, cs):
                    bad.append((n[0], n[3]["range"], c[0], c[3]["range"], "start"))
                elif not pos_le(ce, e):
                    bad.append((n[0], n[3]["range"], c[0], c[3]["range"], "end"))
            walk(c, False)
    walk(root, True)
    return bad


MULTILINE_LITERALS = [
    'proc P\n x = "ab\ncd"\n y = 1\nendproc\n',
    'proc P\n foo("a\nb", c)\nendproc\n',
    'proc P\n if "a\nb" = c\n  z = 1\n endif\nendproc\n',
    "proc P\n x = 'a\nb' + c\n return 'q\nr'\nendproc\n",
    'const cA = "x\ny"\nFoo : int4\n',
    'proc P\n while a\n  return "x\ny"\n endwhile\nendproc\n',
    'proc P\n x = [ "a\nb" ]\n y = -"a\nb"\nendproc\n',
]


def search_encasing(node, pos):
    """manager/utils.rs:search_encasing_node on the dump: descend into the FIRST child whose range
    contains the position (start <= pos <= end), else the node itself"""
    for c in node[2]:
        s, e = rng_of(c)
        if pos_le(s, pos) and pos_le(pos, e):
            return search_encasing(c, pos)
    return node


def identifier_terminals(root, ident_idx):
    out = []

    def walk(n):
        if n[0] == "AstTerminal":
            for (k, ty, raw, s, e, val) in tokens_of_attrs(n[3]["attrs"]):
                if k == 0 and ty == ident_idx:
                    out.append((n, s, e))
        for c in n[2]:
            walk(c)
    walk(root)
    return out


def innermost_violations(root, ident_idx):
    bad = []
    for (n, s, e) in identifier_terminals(root, ident_idx):
        mid = (s[0], (s[1] + e[1]) // 2) if s[0] == e[0] else s
        for p in (s, mid, e):
            got = search_encasing(root, p)
            if got is not n:
                bad.append((n[1], n[3]["range"], p, got[0], got[1], got[3]["range"]))
                break
    return bad


# ---------------------------------------------------------------------------------------------
# position lookup through the real search_encasing_node (engine `encase`)
# ---------------------------------------------------------------------------------------------

def token_nodes(root):
    """every node that carries its own token (key 0: AstTerminal / AstTypeBasic / AstTypeSized) or a name token
    (key 1: declarations, parameters, record fields, enum variants, for counters, ...): at any position of that
    token the innermost node is that node -- identifiers in bodies as well as parameter names and types of
    procedures AND functions, return types, field / record-field / local types"""
    out = []

    def walk(n):
        for (k, ty, raw, s, e, val) in tokens_of_attrs(n[3]["attrs"]):
            if k in (0, 1):
                out.append((n, s, e))
                break
        for c in n[2]:
            walk(c)
    walk(root)
    return out


def lookup_queries(root):
    """[(position, expected node)]: start, middle and end of every such token"""
    qs = []
    for (n, s, e) in token_nodes(root):
        mid = (s[0], (s[1] + e[1]) // 2) if s[0] == e[0] else s
        for p in dict.fromkeys((s, mid, e)):
            qs.append((p, n))
    return qs
