(* C08  Every range sent to the client is well-formed (the part derived from lexer + parser +
   outline: token ranges, every node range of the syntax tree, the identifier token of every
   declaration node relative to the node's range, parser and lexer diagnostics, outline symbols).

   pos_le         lexicographic order on (line, column)
   range_wf r     pos_le (rstart r) (rend r)
   inside a b     pos_le (rstart b) (rstart a) /\ pos_le (rend a) (rend b)
   lines_le L r   both lines of r are <= L
   TokSorted L ts the hypothesis about token lists: starts strictly increase (raw offsets and
                  positions), every token has start <= end on lines <= L, and a token that is neither a
                  string literal nor a comment ends at or before the start of every later token.
                  (`end t_i <= start t_(i+1)` is FALSE in general: ends are start column + UTF-8 byte
                  length on the START line.)  C08_tok_ranges_wf: the lexer's output satisfies it with
                  L = number of LF characters of the text.
   NodeWf L n     range_wf (nrange n), lines <= L, SelOK L n (identifier token inside the node range,
                  always present on declaration kinds), NameInside n (name node of a proc/func inside). *)
From GoldV Require Import Base Tokens Keywords Lexer AstKinds Tree Strings PComb Grammar Outline
                          LexerProofs ParserWF GrammarWF OutlineProofs
                          RangeBase RangeRel RangeComb RangeGrammar RangeTop.
From Coq Require Import Sorted Lia.

(* ---------- tokens ---------- *)

(* tok_ranges_wf: for any text the token list satisfies the hypothesis of all theorems below *)
Theorem C08_tok_ranges_wf : forall text, TokSorted (lf_count text) (fst (lex text)).
Proof. exact lex_TokSorted. Qed.

(* ... in particular every token has start <= end and lies on lines that exist *)
Theorem C08_token_range_wf :
  forall text t, In t (fst (lex text)) -> range_wf (trange t) /\ lines_le (lf_count text) (trange t).
Proof.
  intros text t Ht. pose proof (lex_TokSorted text) as H. split; [eapply ts_wf|eapply ts_lines]; eauto.
Qed.

(* token starts strictly increase in token order; tight tokens end before the next one starts *)
Theorem C08_token_order :
  forall text a b, In a (fst (lex text)) -> In b (fst (lex text)) -> traw a < traw b ->
    pos_lt (tstart a) (tstart b) /\ (tight a = true -> pos_le (tend a) (tstart b)).
Proof.
  intros text a b Ha Hb Hlt. pose proof (lex_TokSorted text) as H.
  destruct (ts_before _ _ H a b Ha Hb Hlt) as (_ & A & B). auto.
Qed.

(* lexer errors are one column wide on an existing line *)
Theorem C08_lexer_errors_wf :
  forall text, Forall (fun e => range_wf (erange e) /\ lines_le (lf_count text) (erange e)) (snd (lex text)).
Proof. exact lex_errors_wf. Qed.

(* ---------- the syntax tree and the parser diagnostics, for ALL sorted token lists ---------- *)

(* node_wf + sel_in_full + lines_exist + diag_wf in one statement about the entry point:
   parse_gold returns a tree (C04) every node of which is NodeWf, and every diagnostic it
   reports has a well-formed range on existing lines.  (The recovering loops no longer report with
   the default range 0:0-0:0: an error at the very end of their input sits on the last token the
   failing parser was given, resp. on the separator in front of a missing list item -- RangeRel.v
   diag_at_ok / sep_diag_ok have no default-range case any more; that the range is that of TOKENS of
   the parsed slice is C09_new_diags_at_body_tokens.) *)
Theorem C08_parse_gold_wf :
  forall L ts, TokSorted L ts ->
    exists root c, parse_gold ts = (Ok [] root, c) /\
                   Forall_nodes (NodeWf L) root /\ Forall (DiagWf L) (cdiags c).
Proof.
  intros L ts H. unfold parse_gold.
  destruct (parse_gold_total true (default_fuel ts) ts) as [root Hr]; [unfold default_fuel; lia|].
  pose proof (parse_gold_wf L ts true (default_fuel ts) H) as HW.
  destruct (parse_gold_with true (default_fuel ts) ts) as [r c]. cbn [fst] in Hr. subst r.
  exists root, c. split; [reflexivity|exact HW].
Qed.

(* the same with memoisation on or off and any sufficient fuel *)
Theorem C08_parse_gold_with_wf :
  forall L ts memo fuel, TokSorted L ts ->
    match parse_gold_with memo fuel ts with
    | (Ok _ root, c) => Forall_nodes (NodeWf L) root /\ Forall (DiagWf L) (cdiags c)
    | (_, _) => True
    end.
Proof. intros L ts memo fuel H. exact (parse_gold_wf L ts memo fuel H). Qed.

(* node_wf: every node range has start <= end *)
Theorem C08_node_wf :
  forall L ts root c, TokSorted L ts -> parse_gold ts = (Ok [] root, c) ->
    Forall_nodes (fun n => range_wf (nrange n)) root.
Proof.
  intros L ts root c H E. destruct (C08_parse_gold_wf L ts H) as (root' & c' & E' & Hn & _).
  rewrite E in E'. inversion E'; subst. eapply Forall_nodes_impl; [|exact Hn]. intros n Hw. apply Hw.
Qed.

(* lines_exist: every line of every node range is a token line or 0, hence <= L *)
Theorem C08_lines_exist :
  forall L ts root c, TokSorted L ts -> parse_gold ts = (Ok [] root, c) ->
    Forall_nodes (fun n => lines_le L (nrange n)) root.
Proof.
  intros L ts root c H E. destruct (C08_parse_gold_wf L ts H) as (root' & c' & E' & Hn & _).
  rewrite E in E'. inversion E'; subst. eapply Forall_nodes_impl; [|exact Hn]. intros n Hw. apply Hw.
Qed.

(* sel_in_full: the identifier token of every node that carries one (constants, types, fields,
   parameters, locals, enum variants, record fields, class / module headers, type references, OQL
   from-items; `for` blocks when their end token was found) lies inside the node's range, the
   declaration kinds always carry it, and the name node of a procedure / function lies inside *)
Theorem C08_sel_in_full :
  forall L ts root c, TokSorted L ts -> parse_gold ts = (Ok [] root, c) ->
    Forall_nodes (fun n => SelOK L n /\ NameInside n) root.
Proof.
  intros L ts root c H E. destruct (C08_parse_gold_wf L ts H) as (root' & c' & E' & Hn & _).
  rewrite E in E'. inversion E'; subst. eapply Forall_nodes_impl; [|exact Hn]. intros n (_ & _ & A & B). auto.
Qed.

(* diag_wf: every parser diagnostic *)
Theorem C08_diag_wf :
  forall L ts root c, TokSorted L ts -> parse_gold ts = (Ok [] root, c) -> Forall (DiagWf L) (cdiags c).
Proof.
  intros L ts root c H E. destruct (C08_parse_gold_wf L ts H) as (root' & c' & E' & _ & Hd).
  rewrite E in E'. inversion E'; subst. exact Hd.
Qed.

(* ---------- the outline ---------- *)

(* outline_wf, for ANY tree whose nodes are NodeWf: every symbol and every child of the container
   has start <= end for range and selection range, on existing lines, selection inside range *)
Theorem C08_outline_wf_tree :
  forall L root, Forall_nodes (NodeWf L) root -> Forall (DsWf L) (outline root).
Proof. exact outline_wf. Qed.

Theorem C08_outline_wf :
  forall L ts root c, TokSorted L ts -> parse_gold ts = (Ok [] root, c) -> Forall (DsWf L) (outline root).
Proof.
  intros L ts root c H E. destruct (C08_parse_gold_wf L ts H) as (root' & c' & E' & Hn & _).
  rewrite E in E'. inversion E'; subst. apply outline_wf. exact Hn.
Qed.

(* ---------- end to end, for any text (what parse_content assembles) ---------- *)
Theorem C08_text :
  forall text,
    let L := lf_count text in
    let ts := fst (lex text) in
    exists root c, parse_gold ts = (Ok [] root, c) /\
      Forall (tok_ok L) ts /\
      Forall_nodes (NodeWf L) root /\
      Forall (DiagWf L) (cdiags c) /\
      Forall (fun e => range_wf (erange e) /\ lines_le L (erange e)) (snd (lex text)) /\
      Forall (DsWf L) (outline root).
Proof.
  intros text L ts. pose proof (lex_TokSorted text) as H. fold L ts in H.
  destruct (C08_parse_gold_wf L ts H) as (root & c & E & Hn & Hd).
  exists root, c. split; [exact E|]. split; [exact (proj2 H)|]. split; [exact Hn|]. split; [exact Hd|].
  split; [apply lex_errors_wf|apply outline_wf; exact Hn].
Qed.

(* ---------- the relation behind the theorems (for reuse by C06 / C09) ---------- *)
Theorem C08_grammar_ranges :
  forall u B f m,
    RK u (CtxB u B) B m (NodeOK u) (g_type (gram f)) /\ RK u (CtxB u B) B m (NodeOK u) (g_expr (gram f)) /\
    RK u (CtxB u B) B m (NodeOK u) (g_primary (gram f)) /\ RK u (CtxB u B) B m (NodeOK u) (g_stmt (gram f)).
Proof. exact gram_R. Qed.

(* ---------- refutation: the counter token of a `for` block without end token ---------- *)
(* "proc p<LF>for i = 1 to 2<LF>": the block's range falls back to the `for` token, the counter
   token `i` (attribute K_ident of AstForBlock) lies outside.  The counter is not a declaration and
   is never used as a selection range (no SymbolInfo is built from it), so no response is affected;
   C08_sel_in_full holds under exactly this guard. *)
Definition for_witness_text : str :=
  [112;114;111;99;32;112;10;102;111;114;32;105;32;61;32;49;32;116;111;32;50;10].

Theorem C08_for_counter_refuted :
  exists root c, parse_gold (fst (lex for_witness_text)) = (Ok [] root, c) /\
    ~ Forall_nodes (fun n => forall t, attr_tok K_ident n = Some t -> inside (trange t) (nrange n)) root.
Proof.
  destruct (parse_gold (fst (lex for_witness_text))) as [r c] eqn:E.
  assert (match r with Ok [] root => all_nodes_b sel_unguarded_b root = false | _ => False end) as Hr.
  { assert (r = fst (parse_gold (fst (lex for_witness_text)))) as -> by (rewrite E; reflexivity). vm_compute. reflexivity. }
  destruct r as [[|x rest] root|e m|s|]; try contradiction.
  exists root, c. split; [reflexivity|]. intro H.
  apply (all_nodes_b_of _ sel_unguarded_b) in H; [congruence|].
  intros n Hn. unfold sel_unguarded_b. destruct (attr_tok K_ident n) as [t|]; [|reflexivity].
  apply insideb_spec. apply Hn. reflexivity.
Qed.

(* ---------- non-vacuity ---------- *)
(* every declaration kind, an untyped parameter, `absolute`, a multi-line string literal inside a
   type range (its END is on its START line), a dangling dot, missing end tokens *)
(* class aFoo (aBar) <LF> const cA = 'x' multilang <LF> type tT : record <LF>  f : int4 <LF> endrecord <LF> type tE : (a, b = 2) <LF> memory X : int4 private absolute Y <LF> func F(a, const B : int4) return int4 <LF>  var v : 'a <LF> b' to 'z' <LF>  if a <LF>   x. <LF> endfunc <LF> proc P#Evt <LF>  while a *)
Definition sample_text : str :=
  [99;108;97;115;115;32;97;70;111;111;32;40;97;66;97;114;41;10;99;111;110;115;116;32;99;65;32;61;32;39;120;39;32;109;117;108;116;105;108;97;110;103;10;116;121;112;101;32;116;84;32;58;32;114;101;99;111;114;100;10;32;102;32;58;32;105;110;116;52;10;101;110;100;114;101;99;111;114;100;10;116;121;112;101;32;116;69;32;58;32;40;97;44;32;98;32;61;32;50;41;10;109;101;109;111;114;121;32;88;32;58;32;105;110;116;52;32;112;114;105;118;97;116;101;32;97;98;115;111;108;117;116;101;32;89;10;102;117;110;99;32;70;40;97;44;32;99;111;110;115;116;32;66;32;58;32;105;110;116;52;41;32;114;101;116;117;114;110;32;105;110;116;52;10;32;118;97;114;32;118;32;58;32;39;97;10;98;39;32;116;111;32;39;122;39;10;32;105;102;32;97;10;32;32;120;46;10;101;110;100;102;117;110;99;10;112;114;111;99;32;80;35;69;118;116;10;32;119;104;105;108;101;32;97].

Example C08_nonvacuous :
  match parse_gold (fst (lex sample_text)) with
  | (Ok [] root, c) =>
      all_nodes_b (fun n => pos_leb' (rstart (nrange n)) (rend (nrange n)) && sel_unguarded_b n) root = true /\
      (length (nchildren root) >= 7)%nat /\ (length (cdiags c) >= 1)%nat /\ (length (outline root) = 1)%nat
  | _ => False
  end.
Proof. vm_compute. repeat split; lia. Qed.

(* the hypothesis TokSorted is satisfiable by a list that is NOT monotone in its ends *)
Example C08_hypothesis_nonvacuous :
  let ts := fst (lex [39; 233; 233; 10; 39; 32; 97]) in   (* 'éé<LF>' a *)
  TokSorted 1 ts /\
  match ts with [s; a] => pos_lt (tstart a) (tend s) \/ pline (tend s) < pline (tstart a) | _ => False end.
Proof.
  split; [exact (lex_TokSorted [39; 233; 233; 10; 39; 32; 97])|]. vm_compute. right. reflexivity.
Qed.

Print Assumptions C08_tok_ranges_wf.
Print Assumptions C08_token_range_wf.
Print Assumptions C08_token_order.
Print Assumptions C08_lexer_errors_wf.
Print Assumptions C08_parse_gold_wf.
Print Assumptions C08_parse_gold_with_wf.
Print Assumptions C08_node_wf.
Print Assumptions C08_lines_exist.
Print Assumptions C08_sel_in_full.
Print Assumptions C08_diag_wf.
Print Assumptions C08_outline_wf_tree.
Print Assumptions C08_outline_wf.
Print Assumptions C08_text.
Print Assumptions C08_grammar_ranges.
Print Assumptions C08_for_counter_refuted.
Print Assumptions C08_nonvacuous.
Print Assumptions C08_hypothesis_nonvacuous.
