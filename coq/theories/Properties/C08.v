(* C08  Every range sent to the client is well-formed (the part derived from lexer + parser +
   outline: token ranges, every node range of the syntax tree, the identifier token of every
   declaration node relative to the node's range, parser and lexer diagnostics, outline symbols).

   pos_le         lexicographic order on (line, column)
   range_wf r     pos_le (rstart r) (rend r)
   inside a b     pos_le (rstart b) (rstart a) /\ pos_le (rend a) (rend b)
   lines_le L r   both lines of r are <= L
   TokSorted L ts the hypothesis about token lists: starts strictly increase (raw offsets and
                  positions), every token has start <= end on lines <= L, and a token that is neither a
                  string literal nor a comment ends at or before the start of every later token.
                  (`end t_i <= start t_(i+1)` is FALSE in general: ends are start column + UTF-8 byte
                  length on the START line.)  C08_tok_ranges_wf: the lexer's output satisfies it with
                  L = number of LF characters of the text.
   NodeWf L n     range_wf (nrange n), lines <= L, SelOK L n (identifier token inside the node range,
                  always present on declaration kinds), NameInside n (name node of a proc/func inside). *)
From GoldV Require Import Base Tokens Keywords Lexer AstKinds Tree Strings PComb Grammar Outline
                          LexerProofs ParserWF GrammarWF OutlineProofs
                          RangeBase RangeRel RangeComb RangeGrammar RangeTop.
From Coq Require Import Sorted Lia.

(* ---------- tokens ---------- *)

(* tok_ranges_wf: for any text the token list satisfies the hypothesis of all theorems below *)
Theorem C08_tok_ranges_wf : forall text, TokSorted (lf_count text) (fst (lex text)).
Proof. exact lex_TokSorted. Qed.

(* ... in particular every token has start <= end and lies on lines that exist *)
Theorem C08_token_range_wf :
  forall text t, In t (fst (lex text)) -> range_wf (trange t) /\ lines_le (lf_count text) (trange t).
Proof.
  intros text t Ht. pose proof (lex_TokSorted text) as H. split; [eapply ts_wf|eapply ts_lines]; eauto.
Qed.

(* token starts strictly increase in token order; tight tokens end before the next one starts *)
Theorem C08_token_order :
  forall text a b, In a (fst (lex text)) -> In b (fst (lex text)) -> traw a < traw b ->
    pos_lt (tstart a) (tstart b) /\ (tight a = true -> pos_le (tend a) (tstart b)).
Proof.
  intros text a b Ha Hb Hlt. pose proof (lex_TokSorted text) as H.
  destruct (ts_before _ _ H a b Ha Hb Hlt) as (_ & A & B). auto.
Qed.

(* lexer errors are one column wide on an existing line *)
Theorem C08_lexer_errors_wf :
  forall text, Forall (fun e => range_wf (erange e) /\ lines_le (lf_count text) (erange e)) (snd (lex text)).
Proof. exact lex_errors_wf. Qed.

(* ---------- the syntax tree and the parser diagnostics, for ALL sorted token lists ---------- *)

(* node_wf + sel_in_full + lines_exist + diag_wf in one statement about the entry point:
   parse_gold returns a tree (C04) every node of which is NodeWf, and every diagnostic it
   reports has a well-formed range on existing lines.  (The recovering loops no longer report with
   the default range 0:0-0:0: an error at the very end of their input sits on the last token the
   failing parser was given, resp. on the separator in front of a missing list item -- RangeRel.v
   diag_at_ok / sep_diag_ok have no default-range case any more; that the range is that of TOKENS of
   the parsed slice is C09_new_diags_at_body_tokens.) *)
Theorem C08_parse_gold_wf :
  forall L ts, TokSorted L ts ->
    exists root c, parse_gold ts = (Ok [] root, c) /\
                   Forall_nodes (NodeWf L) root /\ Forall (DiagWf L) (cdiags c).
Proof.
  intros L ts H. unfold parse_gold.
  destruct (parse_gold_total true (default_fuel ts) ts) as [root Hr]; [unfold default_fuel; lia|].
  pose proof (parse_gold_wf L ts true (default_fuel ts) H) as HW.
  destruct (parse_gold_with true (default_fuel ts) ts) as [r c]. cbn [fst] in Hr. subst r.
  exists root, c. split; [reflexivity|exact HW].
Qed.

(* the same with memoisation on or off and any sufficient fuel *)
Theorem C08_parse_gold_with_wf :
  forall L ts memo fuel, TokSorted L ts ->
    match parse_gold_with memo fuel ts with
    | (Ok _ root, c) => Forall_nodes (NodeWf L) root /\ Forall (DiagWf L) (cdiags c)
    | (_, _) => True
    end.
Proof. intros L ts memo fuel H. exact (parse_gold_wf L ts memo fuel H). Qed.

(* node_wf: every node range has start <= end *)
Theorem C08_node_wf :
  forall L ts root c, TokSorted L ts -> parse_gold ts = (Ok [] root, c) ->
    Forall_nodes (fun n => range_wf (nrange n)) root.
Proof.
  intros L ts root c H E. destruct (C08_parse_gold_wf L ts H) as (root' & c' & E' & Hn & _).
  rewrite E in E'. inversion E'; subst. eapply Forall_nodes_impl; [|exact Hn]. intros n Hw. apply Hw.
Qed.

(* lines_exist: every line of every node range is a token line or 0, hence <= L *)
Theorem C08_lines_exist :
  forall L ts root c, TokSorted L ts -> parse_gold ts = (Ok [] root, c) ->
    Forall_nodes (fun n => lines_le L (nrange n)) root.
Proof.
  intros L ts root c H E. destruct (C08_parse_gold_wf L ts H) as (root' & c' & E' & Hn & _).
  rewrite E in E'. inversion E'; subst. eapply Forall_nodes_impl; [|exact Hn]. intros n Hw. apply Hw.
Qed.

(* sel_in_full: the identifier token of every node that carries one (constants, types, fields,
   parameters, locals, enum variants, record fields, class / module headers, type references, OQL
   from-items; `for` blocks when their end token was found) lies inside the node's range, the
   declaration kinds always carry it, and the name node of a procedure / function lies inside *)
Theorem C08_sel_in_full :
  forall L ts root c, TokSorted L ts -> parse_gold ts = (Ok [] root, c) ->
    Forall_nodes (fun n => SelOK L n /\ NameInside n) root.
Proof.
  intros L ts root c H E. destruct (C08_parse_gold_wf L ts H) as (root' & c' & E' & Hn & _).
  rewrite E in E'. inversion E'; subst. eapply Forall_nodes_impl; [|exact Hn]. intros n (_ & _ & A & B). auto.
Qed.

(* diag_wf: every parser diagnostic *)
Theorem C08_diag_wf :
  forall L ts root c, TokSorted L ts -> parse_gold ts = (Ok [] root, c) -> Forall (DiagWf L) (cdiags c).
Proof.
  intros L ts root c H E. destruct (C08_parse_gold_wf L ts H) as (root' & c' & E' & _ & Hd).
  rewrite E in E'. inversion E'; subst. exact Hd.
Qed.

(* ---------- the outline ---------- *)

(* outline_wf, for ANY tree whose nodes are NodeWf: every symbol and every child of the container
   has start <= end for range and selection range, on existing lines, selection inside range *)
Theorem C08_outline_wf_tree :
  forall L root, Forall_nodes (NodeWf L) root -> Forall (DsWf L) (outline root).
Proof. exact outline_wf. Qed.

Theorem C08_outline_wf :
  forall L ts root c, TokSorted L ts -> parse_gold ts = (Ok [] root, c) -> Forall (DsWf L) (outline root).
Proof.
  intros L ts root c H E. destruct (C08_parse_gold_wf L ts H) as (root' & c' & E' & Hn & _).
  rewrite E in E'. inversion E'; subst. apply outline_wf. exact Hn.
Qed.

(* ---------- end to end, for any text (what parse_content assembles) ---------- *)
Theorem C08_text :
  forall text,
    let L := lf_count text in
    let ts := fst (lex text) in
    exists root c, parse_gold ts = (Ok [] root, c) /\
      Forall (tok_ok L) ts /\
      Forall_nodes (NodeWf L) root /\
      Forall (DiagWf L) (cdiags c) /\
      Forall (fun e => range_wf (erange e) /\ lines_le L (erange e)) (snd (lex text)) /\
      Forall (DsWf L) (outline root).
Proof.
  intros text L ts. pose proof (lex_TokSorted text) as H. fold L ts in H.
  destruct (C08_parse_gold_wf L ts H) as (root & c & E & Hn & Hd).
  exists root, c. split; [exact E|]. split; [exact (proj2 H)|]. split; [exact Hn|]. split; [exact Hd|].
  split; [apply lex_errors_wf|apply outline_wf; exact Hn].
Qed.

(* ---------- the relation behind the theorems (for reuse by C06 / C09) ---------- *)
Theorem C08_grammar_ranges :
  forall u B f m,
    RK u (CtxB u B) B m (NodeOK u) (g_type (gram f)) /\ RK u (CtxB u B) B m (NodeOK u) (g_expr (gram f)) /\
    RK u (CtxB u B) B m (NodeOK u) (g_primary (gram f)) /\ RK u (CtxB u B) B m (NodeOK u) (g_stmt (gram f)).
Proof. exact gram_R. Qed.

(* ---------- refutation: the counter token of a `for` block without end token ---------- *)
(* "proc p<LF>for i = 1 to 2<LF>": the block's range falls back to the `for` token, the counter
   token `i` (attribute K_ident of AstForBlock) lies outside.  The counter is not a declaration and
   is never used as a selection range (no SymbolInfo is built from it), so no response is affected;
   C08_sel_in_full holds under exactly this guard. *)
Definition for_witness_text : str :=
  [112;114;111;99;32;112;10;102;111;114;32;105;32;61;32;49;32;116;111;32;50;10].

Theorem C08_for_counter_refuted :
  exists root c, parse_gold (fst (lex for_witness_text)) = (Ok [] root, c) /\
    ~ Forall_nodes (fun n => forall t, attr_tok K_ident n = Some t -> inside (trange t) (nrange n)) root.
Proof.
  destruct (parse_gold (fst (lex for_witness_text))) as [r c] eqn:E.
  assert (match r with Ok [] root => all_nodes_b sel_unguarded_b root = false | _ => False end) as Hr.
  { assert (r = fst (parse_gold (fst (lex for_witness_text)))) as -> by (rewrite E; reflexivity). vm_compute. reflexivity. }
  destruct r as [[|x rest] root|e m|s|]; try contradiction.
  exists root, c. split; [reflexivity|]. intro H.
  apply (all_nodes_b_of _ sel_unguarded_b) in H; [congruence|].
  intros n Hn. unfold sel_unguarded_b. destruct (attr_tok K_ident n) as [t|]; [|reflexivity].
  apply insideb_spec. apply Hn. reflexivity.
Qed.

(* ---------- non-vacuity ---------- *)
(* every declaration kind, an untyped parameter, `absolute`, a multi-line string literal inside a
   type range (its END is on its START line), a dangling dot, missing end tokens *)
(* class aFoo (aBar) <LF> const cA = 'x' multilang <LF> type tT : record <LF>  f : int4 <LF> endrecord <LF> type tE : (a, b = 2) <LF> memory X : int4 private absolute Y <LF> func F(a, const B : int4) return int4 <LF>  var v : 'a <LF> b' to 'z' <LF>  if a <LF>   x. <LF> endfunc <LF> proc P#Evt <LF>  while a *)
Definition sample_text : str :=
  [99;108;97;115;115;32;97;70;111;111;32;40;97;66;97;114;41;10;99;111;110;115;116;32;99;65;32;61;32;39;120;39;32;109;117;108;116;105;108;97;110;103;10;116;121;112;101;32;116;84;32;58;32;114;101;99;111;114;100;10;32;102;32;58;32;105;110;116;52;10;101;110;100;114;101;99;111;114;100;10;116;121;112;101;32;116;69;32;58;32;40;97;44;32;98;32;61;32;50;41;10;109;101;109;111;114;121;32;88;32;58;32;105;110;116;52;32;112;114;105;118;97;116;101;32;97;98;115;111;108;117;116;101;32;89;10;102;117;110;99;32;70;40;97;44;32;99;111;110;115;116;32;66;32;58;32;105;110;116;52;41;32;114;101;116;117;114;110;32;105;110;116;52;10;32;118;97;114;32;118;32;58;32;39;97;10;98;39;32;116;111;32;39;122;39;10;32;105;102;32;97;10;32;32;120;46;10;101;110;100;102;117;110;99;10;112;114;111;99;32;80;35;69;118;116;10;32;119;104;105;108;101;32;97].

Example C08_nonvacuous :
  match parse_gold (fst (lex sample_text)) with
  | (Ok [] root, c) =>
      all_nodes_b (fun n => pos_leb' (rstart (nrange n)) (rend (nrange n)) && sel_unguarded_b n) root = true /\
      (length (nchildren root) >= 7)%nat /\ (length (cdiags c) >= 1)%nat /\ (length (outline root) = 1)%nat
  | _ => False
  end.
Proof. vm_compute. repeat split; lia. Qed.

(* the hypothesis TokSorted is satisfiable by a list that is NOT monotone in its ends *)
Example C08_hypothesis_nonvacuous :
  let ts := fst (lex [39; 233; 233; 10; 39; 32; 97]) in   (* 'éé<LF>' a *)
  TokSorted 1 ts /\
  match ts with [s; a] => pos_lt (tstart a) (tend s) \/ pline (tend s) < pline (tstart a) | _ => False end.
Proof.
  split; [exact (lex_TokSorted [39; 233; 233; 10; 39; 32; 97])|]. vm_compute. right. reflexivity.
Qed.

Print Assumptions C08_tok_ranges_wf.
Print Assumptions C08_token_range_wf.
Print Assumptions C08_token_order.
Print Assumptions C08_lexer_errors_wf.
Print Assumptions C08_parse_gold_wf.
Print Assumptions C08_parse_gold_with_wf.
Print Assumptions C08_node_wf.
Print Assumptions C08_lines_exist.
Print Assumptions C08_sel_in_full.
Print Assumptions C08_diag_wf.
Print Assumptions C08_outline_wf_tree.
Print Assumptions C08_outline_wf.
Print Assumptions C08_text.
Print Assumptions C08_grammar_ranges.
Print Assumptions C08_for_counter_refuted.
Print Assumptions C08_nonvacuous.
Print Assumptions C08_hypothesis_nonvacuous.

(* ====================================================================================================== *)
(* C08 for EVERY response kind, at tree level, for trees satisfying the parser's invariant, and composed   *)
(* with the lexer and the parser (Proofs/ResponseRanges.v, witnesses in Proofs/ResponseRangesWitness.v)    *)
(* ====================================================================================================== *)
From GoldV Require Import Encase SymTab Scoping Annot DefTree AnnotProofs.
From GoldV Require Report ReportProofs ReportWitness WsTree WsTreeWitness HierTree HierTreeProofs HierTreeWitness
                   ResponseRanges ResponseRangesWitness.

(*  RangeIn L r          range_wf r /\ lines_le L r
    WfTree L t           Forall_nodes (NodeWf L) t               (what C08_parse_gold_wf gives for the parser's trees)
    PdWf L pd            every parser / lexer diagnostic of pd has RangeIn L     (the shape C08_diag_wf gives)
    WsWf ws Ls           Forall2 (fun d L => WfTree L (snd d)) ws Ls: document by document, its own line count
    TablesAtHome ws      the class index (file STEM -> file) sends the for_class_or_module of every non-empty table of
                         document j back to document j, or nowhere.  It is the exact guard: without it the code
                         answers with a link into ANOTHER file carrying this file's ranges (C08_link_foreign_lines_refuted,
                         reproduced against the real code).  TablesAtHomeH: the same over HierTree.doc_of.
    No invariant on token-valued attributes beyond NodeWf is needed: every response range is a node range, the
    range of a method's name node, or the K_ident token of a declaration node (SelOK). *)

(* ---- diagnostics: every item of the assembled response (parser and lexer diagnostics, unused-variable warnings,
        "Var name already declared", return-type, unpurged, naming and inherited rules) ---- *)
Theorem C08_response_diagnostics_wf :
  forall L t pd, Forall_nodes (NodeWf L) t ->
    Forall (fun p => range_wf (Report.pd_range p) /\ lines_le L (Report.pd_range p)) pd ->
    Forall (fun d => range_wf (Report.d_range d) /\ lines_le L (Report.d_range d)) (Report.report t pd).
Proof. exact ResponseRanges.report_items_wf. Qed.

(* ... and of every later request on the document (the v1 list is cached) *)
Theorem C08_response_requests_wf :
  forall L d, ReportProofs.rdoc_ok d -> Forall_nodes (NodeWf L) (Report.r_ast d) ->
    Forall (fun p => range_wf (Report.pd_range p) /\ lines_le L (Report.pd_range p)) (Report.r_pd d) ->
    Forall (fun x => range_wf (Report.d_range x) /\ lines_le L (Report.d_range x)) (fst (Report.request d)).
Proof. exact ResponseRanges.request_items_wf. Qed.

(* ---- definition links, one document: target_selection_range and target_range are well formed within the
        document and the former lies inside the latter ---- *)
Theorem C08_definition_links_doc_wf :
  forall L t stem p ls, Forall_nodes (NodeWf L) t -> DefTree.definition t stem p = Ans ls ->
    Forall (fun l => (range_wf (fst l) /\ lines_le L (fst l)) /\ (range_wf (snd l) /\ lines_le L (snd l)) /\
                     inside (fst l) (snd l)) ls.
Proof. exact ResponseRanges.definition_links_wf_doc. Qed.

(* ---- definition links, a workspace: every link names a document of the workspace and both ranges are well
        formed within THAT document's line count, selection inside range ---- *)
Theorem C08_definition_links_wf :
  forall ws Ls a p ls,
    Forall2 (fun d L => Forall_nodes (NodeWf L) (snd d)) ws Ls -> ResponseRanges.TablesAtHome ws ->
    WsTree.wdefinition ws a p = Ans ls ->
    Forall (fun l : WsTree.wlink =>
              let '(stem, sel, rng) := l in
              exists k dt L, WsTree.find_doc ws stem = Some (k, dt) /\ fst dt = stem /\ nth_error Ls k = Some L /\
                             (range_wf sel /\ lines_le L sel) /\ (range_wf rng /\ lines_le L rng) /\ inside sel rng) ls.
Proof. exact ResponseRanges.definition_links_wf. Qed.

(* without the guard: the ranges are well formed within the SOURCE document (the one whose table holds the symbol)
   and the link names some document of the workspace *)
Theorem C08_definition_links_source_wf :
  forall ws Ls a p ls,
    Forall2 (fun d L => Forall_nodes (NodeWf L) (snd d)) ws Ls -> WsTree.wdefinition ws a p = Ans ls ->
    Forall (fun l : WsTree.wlink =>
              let '(stem, sel, rng) := l in
              (exists k dt, WsTree.find_doc ws stem = Some (k, dt) /\ fst dt = stem) /\
              exists j L, (j < length ws)%nat /\ nth_error Ls j = Some L /\
                          (range_wf sel /\ lines_le L sel) /\ (range_wf rng /\ lines_le L rng) /\ inside sel rng) ls.
Proof. exact ResponseRanges.definition_links_source_wf. Qed.

(* ---- hierarchy items: prepare, supertypes, subtypes.  ItemWf ws Ls it: the uri of `it` is the stem of a document
        d' of ws, (d', L) is a row of combine ws Ls, both ranges are well formed within L, selection inside range ---- *)
Theorem C08_hierarchy_items_wf :
  forall ws Ls,
    Forall2 (fun d L => Forall_nodes (NodeWf L) (snd d)) ws Ls -> HierTreeProofs.distinct_stems ws ->
    ResponseRanges.TablesAtHomeH ws ->
    let ok (it : HierTree.item) :=
      exists d' L, HierTree.doc_of ws (upper (HierTree.i_uri it)) = Some d' /\ fst d' = HierTree.i_uri it /\
                   In (d', L) (combine ws Ls) /\
                   (range_wf (HierTree.i_sel it) /\ lines_le L (HierTree.i_sel it)) /\
                   (range_wf (HierTree.i_range it) /\ lines_le L (HierTree.i_range it)) /\
                   inside (HierTree.i_sel it) (HierTree.i_range it) in
    (forall d p l, In d ws -> HierTree.prepare ws d p = Ans (HierTree.ROk l) -> Forall ok l) /\
    (forall tr it l, HierTree.supertypes_of ws tr it = Ans (HierTree.ROk l) -> Forall ok l) /\
    (forall tr it l, HierTree.subtypes_of ws tr it = Ans (HierTree.ROk l) -> Forall ok l).
Proof. exact ResponseRanges.hierarchy_items_wf. Qed.

(* ---- composed with the lexer and the parser: for ANY text, the tree parse_content gets (root_of_text), the
        document's parser diagnostics followed by the lexer's errors (pd_of_text; emsg = the text printed for a lexer
        error, any function): every item of the diagnostics response has start <= end on lines of the text ---- *)
Theorem C08_response_of_text_wf :
  forall text emsg,
    (exists c, parse_gold (fst (lex text)) = (Ok [] (ResponseRanges.root_of_text text), c)) /\
    Forall_nodes (NodeWf (lf_count text)) (ResponseRanges.root_of_text text) /\
    Forall (fun d => range_wf (Report.d_range d) /\ lines_le (lf_count text) (Report.d_range d))
           (Report.report (ResponseRanges.root_of_text text) (ResponseRanges.pd_of_text text emsg)).
Proof.
  intros text emsg. split.
  - destruct (ResponseRanges.parsed_text_facts text) as (root & c & E & <- & _). exists c. exact E.
  - split; [apply ResponseRanges.root_of_text_wf|apply ResponseRanges.response_of_parsed_text].
Qed.

(* ... the links of a request on one parsed text, and links / hierarchy items in a workspace of parsed texts
   (ws_of_texts, lines_of_texts: per document its tree and its number of line feeds) *)
Theorem C08_links_of_text_wf :
  forall text stem p ls, DefTree.definition (ResponseRanges.root_of_text text) stem p = Ans ls ->
    Forall (fun l => (range_wf (fst l) /\ lines_le (lf_count text) (fst l)) /\
                     (range_wf (snd l) /\ lines_le (lf_count text) (snd l)) /\ inside (fst l) (snd l)) ls.
Proof. exact ResponseRanges.links_of_parsed_text. Qed.

Theorem C08_links_of_texts_wf :
  forall tx a p ls,
    ResponseRanges.TablesAtHome (ResponseRanges.ws_of_texts tx) ->
    WsTree.wdefinition (ResponseRanges.ws_of_texts tx) a p = Ans ls ->
    Forall (fun l : WsTree.wlink =>
              let '(stem, sel, rng) := l in
              exists k dt L, WsTree.find_doc (ResponseRanges.ws_of_texts tx) stem = Some (k, dt) /\ fst dt = stem /\
                             nth_error (ResponseRanges.lines_of_texts tx) k = Some L /\
                             (range_wf sel /\ lines_le L sel) /\ (range_wf rng /\ lines_le L rng) /\ inside sel rng) ls.
Proof. exact ResponseRanges.links_of_parsed_texts. Qed.

Theorem C08_items_of_texts_wf :
  forall tx,
    HierTreeProofs.distinct_stems (ResponseRanges.ws_of_texts tx) -> ResponseRanges.TablesAtHomeH (ResponseRanges.ws_of_texts tx) ->
    let ws := ResponseRanges.ws_of_texts tx in
    let ok := ResponseRanges.ItemWf ws (ResponseRanges.lines_of_texts tx) in
    (forall d p l, In d ws -> HierTree.prepare ws d p = Ans (HierTree.ROk l) -> Forall ok l) /\
    (forall tr it l, HierTree.supertypes_of ws tr it = Ans (HierTree.ROk l) -> Forall ok l) /\
    (forall tr it l, HierTree.subtypes_of ws tr it = Ans (HierTree.ROk l) -> Forall ok l).
Proof. exact ResponseRanges.items_of_parsed_texts. Qed.

(* ---- the guard is needed: aA.god declares class aB (field fp on line 4), aB.god is one line long; go-to-definition
        on fp answers with a link into aB.god on line 4.  Every other premise holds (parser's trees, distinct stems).
        Reproduced against the real code: harness engine wstree, case
        aA=99.108.97.115.115.32.97.66.10.10.10.10.102.112.32.58.32.105.110.116.52.10;aB=99.108.97.115.115.32.97.66 ---- *)
Theorem C08_link_foreign_lines_refuted :
  let tx := ResponseRangesWitness.fx_texts in
  Forall2 (fun d L => Forall_nodes (NodeWf L) (snd d)) (ResponseRanges.ws_of_texts tx) (ResponseRanges.lines_of_texts tx) /\
  ResponseRanges.lines_of_texts tx = [5; 0] /\
  WsTree.wdefinition (ResponseRanges.ws_of_texts tx) 0 (mkPos 4 1) =
    Ans [(ResponseRangesWitness.fx_aB, mkRange (mkPos 4 0) (mkPos 4 2), mkRange (mkPos 4 0) (mkPos 4 9))] /\
  (exists dt, WsTree.find_doc (ResponseRanges.ws_of_texts tx) ResponseRangesWitness.fx_aB = Some (1%nat, dt)) /\
  ~ lines_le 0 (mkRange (mkPos 4 0) (mkPos 4 9)) /\
  ResponseRanges.tables_at_home_b (ResponseRanges.ws_of_texts tx) = false.
Proof. exact ResponseRangesWitness.link_foreign_lines_refuted. Qed.

Theorem C08_item_foreign_lines_refuted :
  exists it,
    HierTree.prepare (ResponseRanges.ws_of_texts ResponseRangesWitness.fx_texts)
                     (ResponseRangesWitness.fx_aA, ResponseRanges.root_of_text ResponseRangesWitness.fx_textA) (mkPos 4 1)
      = Ans (HierTree.ROk [it]) /\
    HierTree.i_uri it = ResponseRangesWitness.fx_aB /\ HierTree.i_range it = mkRange (mkPos 4 0) (mkPos 4 9) /\
    ~ lines_le 0 (HierTree.i_range it).
Proof. exact ResponseRangesWitness.item_foreign_lines_refuted. Qed.

(* ---- regression: the rule of a seeded defect.  Two consecutive parser diagnostics with the same message merged into
        one (the first one's range with its END set to the second one's end).  The parser reports an inner block
        before the outer one: (4:8-4:10) then (3:6-3:8); merged: 4:8 - 3:8, the end before the start.  The response
        as it is keeps both, both well formed (through C08_response_diagnostics_wf). ---- *)
Theorem C08_old_merged_run_refuted :
  let t := ResponseRangesWitness.merged_tree in
  let pd := ResponseRangesWitness.merged_pd in
  Forall_nodes (NodeWf 5) t /\
  Forall (fun p => range_wf (Report.pd_range p) /\ lines_le 5 (Report.pd_range p)) pd /\
  map Report.d_range (ResponseRangesWitness.report_merged t pd) = [mkRange (mkPos 4 8) (mkPos 3 8)] /\
  ~ Forall (fun d => range_wf (Report.d_range d)) (ResponseRangesWitness.report_merged t pd) /\
  map Report.d_range (Report.report t pd) = [mkRange (mkPos 4 8) (mkPos 4 10); mkRange (mkPos 3 6) (mkPos 3 8)] /\
  Forall (fun d => range_wf (Report.d_range d) /\ lines_le 5 (Report.d_range d)) (Report.report t pd).
Proof. exact ResponseRangesWitness.old_merged_run_refuted. Qed.

(* ---- non-vacuity on real dumps: the premises hold (NodeWf checked by computation), the conclusions follow through
        the theorems ---- *)
(* a document with all six sources among its fifteen items *)
Example C08_response_diagnostics_nonvacuous :
  Forall_nodes (NodeWf 15) ReportWitness.w_resp /\
  Forall (fun p => range_wf (Report.pd_range p) /\ lines_le 15 (Report.pd_range p)) ReportWitness.w_resp_pd /\
  length (Report.report ReportWitness.w_resp ReportWitness.w_resp_pd) = 15%nat /\
  forallb (fun k => negb (Nat.eqb (length (ReportProofs.part k (Report.report ReportWitness.w_resp ReportWitness.w_resp_pd))) 0))
          [0; 1; 2; 3; 4; 5]%N = true /\
  Forall (fun d => range_wf (Report.d_range d) /\ lines_le 15 (Report.d_range d))
         (Report.report ReportWitness.w_resp ReportWitness.w_resp_pd).
Proof.
  destruct ResponseRangesWitness.report_witness_premises as (A & B & C).
  split; [exact A|]. split; [exact B|]. split; [exact C|].
  split; [exact ResponseRangesWitness.report_witness_sources|exact ResponseRangesWitness.report_witness_items].
Qed.

(* the workspace aChild (aParent) / aParent / aLib / aUser: `self.Base` answers with two links into two files *)
Example C08_definition_links_nonvacuous :
  Forall2 (fun d L => Forall_nodes (NodeWf L) (snd d)) WsTreeWitness.wsx2 [10; 5; 1; 4] /\
  ResponseRanges.TablesAtHome WsTreeWitness.wsx2 /\
  WsTree.wdefinition WsTreeWitness.wsx2 0 (mkPos 7 6) =
    Ans [(WsTreeWitness.wx_aChild, WsTreeWitness.wrg 9 5 9 9, WsTreeWitness.wrg 9 0 10 7);
         (WsTreeWitness.wx_aParent, WsTreeWitness.wrg 3 5 3 9, WsTreeWitness.wrg 3 0 5 7)].
Proof. exact ResponseRangesWitness.links_witness_premises. Qed.

(* the workspace aKa / aKb (aKa) / aKc (aKb): the premises, and an item prepared on a field's name *)
Example C08_hierarchy_items_nonvacuous :
  (Forall2 (fun d L => Forall_nodes (NodeWf L) (snd d)) HierTreeWitness.ht_ws [6; 6; 7] /\
   HierTreeProofs.distinct_stems HierTreeWitness.ht_ws /\ ResponseRanges.TablesAtHomeH HierTreeWitness.ht_ws) /\
  exists d it, In d HierTreeWitness.ht_ws /\ HierTree.prepare HierTreeWitness.ht_ws d (mkPos 2 1) = Ans (HierTree.ROk [it]) /\
               HierTree.i_kind it = HierTree.IField /\ ResponseRanges.ItemWf HierTreeWitness.ht_ws [6; 6; 7] it.
Proof. split; [exact ResponseRangesWitness.items_witness_premises|exact ResponseRangesWitness.items_witness_field]. Qed.

Print Assumptions C08_response_diagnostics_wf.
Print Assumptions C08_response_requests_wf.
Print Assumptions C08_definition_links_doc_wf.
Print Assumptions C08_definition_links_wf.
Print Assumptions C08_definition_links_source_wf.
Print Assumptions C08_hierarchy_items_wf.
Print Assumptions C08_response_of_text_wf.
Print Assumptions C08_links_of_text_wf.
Print Assumptions C08_links_of_texts_wf.
Print Assumptions C08_items_of_texts_wf.
Print Assumptions C08_link_foreign_lines_refuted.
Print Assumptions C08_item_foreign_lines_refuted.
Print Assumptions C08_old_merged_run_refuted.
Print Assumptions C08_response_diagnostics_nonvacuous.
Print Assumptions C08_definition_links_nonvacuous.
Print Assumptions C08_hierarchy_items_nonvacuous.
