(* C14  Analysis terminates on every workspace shape.
   Statements only (tiny glue); proofs in Proofs/LocksProofs.v (symbol-table chains, Model/Locks.v)
   and Proofs/ForestProofs.v (class tree and hierarchy walkers, Model/Forest.v).

   fs : list cfile     ANY workspace: per file its upper-cased stem, the class header as spelled
                       (class name, optional parent name: itself, another class in any letter case,
                       a class that does not exist, ...) and its `uses` list
   analyse .. true ..  annotate_doc + handle_class with the rules of 03f6c4d; `false` = the rules
                       before it (case-sensitive self-parent guard, unconditional link)
   Deadlock l          a thread takes a lock it already holds (never returns); OutOfFuel = unbounded
                       recursion *)
From GoldV Require Import Base Forest Locks ParentGraph ForestProofs LocksProofs.
From Coq Require Import Permutation Ascii.
From Coq Require String.
Import String.StringSyntax.
Local Open Scope nat_scope.

(* ---- the table graph stays acyclic ---- *)
Fixpoint analyses (fs : list cfile) (a : ast) (l : list (str * bool)) : out ast :=
  match l with
  | [] => Ok a
  | (s, full) :: r => bind (analyse (analyse_fuel fs) true fs full a s) (fun a' => analyses fs a' r)
  end.

(* after any sequence of analyses (full or definitions only, of any files, in any order; each one
   nests the analyses of the parents that have no table yet, against half-filled tables):
   every analysis returns, every chain of parent links ends, no table is its own ancestor *)
Theorem C14_links_acyclic :
  forall fs l, exists a,
    analyses fs ast0 l = Ok a /\
    Term (tp a) /\ Acyc (tp a) /\ Bounded (tp a) (length (tabs a)).
Proof.
  intros fs l.
  assert (H : forall a0, LInv a0 -> exists a, analyses fs a0 l = Ok a /\ LInv a).
  { induction l as [|[s full] r IH]; intros a0 I; cbn [analyses]; [eauto|].
    destruct (analyse_ok fs full a0 s I) as [a1 [H1 [I1 _]]]. rewrite H1. cbn [bind]. apply IH. exact I1. }
  destruct (H ast0 LInv0) as [a [H1 I]]. exists a. split; [exact H1|].
  split; [apply (lTerm _ I)|]. split; [apply Term_Acyc; apply (lTerm _ I) | apply (lBound _ I)].
Qed.

(* a single link attempt, the induction step: the rule refuses exactly what would close a cycle *)
Theorem C14_link_rule_keeps_acyclic :
  forall a n m, LInv a -> n < length (tabs a) -> m < length (tabs a) ->
    LInv (link_rule true a n m).
Proof. exact LInv_link. Qed.

(* ---- look-ups ---- *)
(* in an acyclic table graph a look-up from any table that misses everywhere (the longest walk)
   answers, takes each lock at most once, at most `number of tables` locks, and holds nothing
   afterwards *)
Theorem C14_lookup_terminates_no_deadlock :
  forall a n, LInv a -> n < length (tabs a) ->
    exists r log, lookup_from a n = (Ok r, [], log) /\ NoDup log /\ length log <= length (tabs a).
Proof. exact lookup_from_ok. Qed.

(* the same for a look-up that stops at any table (`hit`), started with any fuel >= the number of
   tables *)
Theorem C14_lookup_any_hit :
  forall a hit n fuel, LInv a -> n < length (tabs a) -> length (tabs a) <= fuel ->
    exists r log, tlookup fuel (tabs a) hit [] [] n = (Ok r, [], log) /\ NoDup log.
Proof.
  intros a hit n fuel I Hn Hf.
  destruct (tlookup_ok (tabs a) hit (lTerm _ I) (lBound _ I) fuel n [] [] 0 n)
    as [r [new [H1 [H2 _]]]]; try reflexivity; try lia; [intros h []|].
  rewrite app_nil_r in H1. eauto.
Qed.

(* ---- requests ---- *)
(* every request of every sequence of requests on any files of any workspace is answered (full
   analysis unless cached, look-ups from the file's table, the tables of the parent token and of
   every used entity with look-ups there), and leaves the graph acyclic *)
Theorem C14_every_request_answered :
  forall fs l,
    Forall (fun b => b = true) (fst (requests true fs ast0 l)) /\
    LInv (snd (requests true fs ast0 l)).
Proof. intros fs l. apply requests_all_ok. exact LInv0. Qed.

(* ---- the class tree ---- *)
(* ANY file list (cyclic declarations, a class declared by several files, ...), every chunking, every
   schedule, with or without the double-checked insert: no parent cycle, the children lists are the
   inverse of the parent links (17b78d0), so the upward member walk (unbounded recursion in the code)
   returns and the downward walk returns without re-locking a node it holds *)
Theorem C14_tree_acyclic :
  forall dc cs sched,
    let t := st (run dc true sched (init cs)) in
    Term (par t) /\ Acyc (par t) /\ Bounded (par t) (length (heap t)) /\
    (forall q e, In e (kids_of t q) <-> parent_of t e = Some q) /\
    (forall d c nm, exists r, member_supertypes t d c nm = Ok r) /\
    (forall d c nm, exists r, member_subtypes t d c nm = Ok r).
Proof.
  intros dc cs sched t. pose proof (tree_acyclic_par dc cs sched) as I. fold t in I.
  split; [apply (aTerm _ I)|]. split; [apply Term_Acyc; apply (aTerm _ I)|]. split; [apply (aBound _ I)|].
  split; [apply (aKids _ I)|]. split.
  - intros d c nm. apply member_supertypes_terminates; [apply (aTerm _ I) | apply (aBound _ I)].
  - intros d c nm. apply member_subtypes_terminates. apply Shape_of_AInv. exact I.
Qed.

Theorem C14_tree_acyclic_seq :
  forall fs, Term (par (build fs)) /\
    (forall d c nm, exists r, member_supertypes (build fs) d c nm = Ok r) /\
    (forall d c nm, exists r, member_subtypes (build fs) d c nm = Ok r).
Proof.
  intro fs. pose proof (tree_acyclic_seq fs) as I. split; [apply (aTerm _ I)|]. split.
  - intros d c nm. apply member_supertypes_terminates; [apply (aTerm _ I) | apply (aBound _ I)].
  - intros d c nm. apply member_subtypes_terminates. apply Shape_of_AInv. exact I.
Qed.

(* ---- several look-ups at the same time ---- *)
(* lock order child -> parent: whatever locks the threads hold, as long as one look-up has not
   returned some thread can move (no circular wait), and every move strictly decreases that
   thread's measure (at most `number of tables` + 1 moves per look-up) *)
Theorem C14_concurrent_lookups_no_deadlock :
  forall a ths, LInv a ->
    (lall_returned ths = false -> exists i ths', lstep (tabs a) ths i = Some ths') /\
    (Forall (fun th => lstart th < length (tabs a)) ths ->
     forall i ths', lstep (tabs a) ths i = Some ths' ->
       exists th th', nth_error ths i = Some th /\ ths' = upd i (fun _ => th') ths /\
                      lstart th' = lstart th /\ lmeasure (tabs a) th' < lmeasure (tabs a) th).
Proof.
  intros a ths I. split.
  - apply concurrent_lookups_progress. apply (lTerm _ I).
  - intros Hs i ths' H. apply lstep_measure; auto; [apply (lTerm _ I) | apply (lBound _ I)].
Qed.

(* ---- witnesses ---- *)
Fixpoint s2l (s : String.string) : str :=
  match s with
  | String.EmptyString => []
  | String.String a r => N.of_nat (nat_of_ascii a) :: s2l r
  end.
Arguments s2l _%string_scope.
Local Notation "# s" := (s2l s) (at level 1, format "# s").

(* classes naming each other as parent *)
Definition ws_mutual : list cfile :=
  [ mkCF #"AA" (Some (#"aA", Some #"aB")) []; mkCF #"AB" (Some (#"aB", Some #"aA")) [] ].
(* a class naming itself in another letter case *)
Definition ws_selfcase : list cfile := [ mkCF #"AA" (Some (#"aA", Some #"AA")) [] ].
(* a three-cycle, a missing parent, a file without class, entities using each other *)
Definition ws_mixed : list cfile :=
  [ mkCF #"AA" (Some (#"aA", Some #"Ab")) [#"aD"; #"aNoSuch"];
    mkCF #"AB" (Some (#"aB", Some #"AC")) [#"aA"];
    mkCF #"AC" (Some (#"aC", Some #"aa")) [];
    mkCF #"AD" (Some (#"aD", Some #"aGone")) [#"aA"; #"aE"];
    mkCF #"AE" None [#"aD"] ].

(* the rules BEFORE 03f6c4d: the link closes the cycle, the next look-up takes a lock twice *)
Theorem C14_old_refuted_mutual :
  exists l, request false ws_mutual ast0 #"AA" = Deadlock l /\
            exists a, request true ws_mutual ast0 #"AA" = Ok a.
Proof. exists 0. split; [vm_compute; reflexivity | eexists; vm_compute; reflexivity]. Qed.

Theorem C14_old_refuted_selfcase :
  exists l, request false ws_selfcase ast0 #"AA" = Deadlock l /\
            exists a, request true ws_selfcase ast0 #"AA" = Ok a.
Proof. exists 0. split; [vm_compute; reflexivity | eexists; vm_compute; reflexivity]. Qed.

(* non-vacuity: a run of the repaired rules on a workspace with a three-cycle, a missing parent, a
   class-less file and mutual uses; one link of the cycle is refused, two are installed *)
Example C14_mixed_requests :
  fst (requests true ws_mixed ast0 [#"AA"; #"AB"; #"AC"; #"AD"; #"AE"; #"AC"; #"AA"]) =
    [true; true; true; true; true; true; true] /\
  length (filter (fun t => match tpar t with Some _ => true | None => false end)
                 (tabs (snd (requests true ws_mixed ast0 [#"AA"])))) = 2.
Proof. split; vm_compute; reflexivity. Qed.

(* the class tree BEFORE 8e84a43 (no is_self_or_ancestor): mutual parents close a cycle; the upward
   member walk never ends and the downward walk re-locks a node it holds *)
Definition tree_files_mutual : list file := [ (#"aA", Some #"aB"); (#"aB", Some #"aA") ].
Definition no_members : decls := fun _ => Some [].

Theorem C14_old_tree_cycle_refuted :
  member_supertypes (build_old tree_files_mutual) no_members #"aA" #"Foo" = OutOfFuel /\
  (exists l, member_subtypes (build_old tree_files_mutual) no_members #"aA" #"Foo" = Deadlock l) /\
  (exists r, member_supertypes (build tree_files_mutual) no_members #"aA" #"Foo" = Ok r) /\
  (exists r, member_subtypes (build tree_files_mutual) no_members #"aA" #"Foo" = Ok r).
Proof.
  split; [vm_compute; reflexivity|]. split; [eexists; vm_compute; reflexivity|].
  split; eexists; vm_compute; reflexivity.
Qed.

(* the code BEFORE 17b78d0: a class declared by two files was linked twice and stayed in its first
   parent's children list; the children lists (not the parent links) then contained a cycle and the
   downward walk re-locked a node it held *)
Definition tree_files_dup : list file :=
  [ (#"aA", Some #"aB"); (#"aA", Some #"aC"); (#"aB", Some #"aA") ].

Theorem C14_old_duplicate_class_children_cycle_refuted :
  Term (par (build_nodetach tree_files_dup)) /\
  (exists l, member_subtypes (build_nodetach tree_files_dup) no_members #"aC" #"Bar" = Deadlock l) /\
  (exists r, member_subtypes (build tree_files_dup) no_members #"aC" #"Bar" = Ok r).
Proof.
  split; [|split; eexists; vm_compute; reflexivity].
  (* the parent links are acyclic even there: only the children lists were wrong *)
  intro p. destruct p as [|[|[|p]]]; try (exists 4; vm_compute; reflexivity).
  exists 1. assert (H : parent_of (build_nodetach tree_files_dup) (S (S (S p))) = None).
  { unfold parent_of, getn. destruct (nth_error (heap (build_nodetach tree_files_dup)) (S (S (S p)))) eqn:E; [|reflexivity].
    assert (Hl : S (S (S p)) < length (heap (build_nodetach tree_files_dup))) by (apply nth_error_Some; congruence).
    vm_compute in Hl. lia. }
  cbn [anc]. unfold par. rewrite H. reflexivity.
Qed.

(* requests analysing classes AT THE SAME TIME (any number of threads, any schedule): with the
   reachability check and the link as ONE step (LINK_LOCK, 2465f70) the graph stays acyclic, so every
   later look-up returns *)
Theorem C14_concurrent_analyses_acyclic :
  forall sched ths, Forall (fun th => apos th = ANew) ths ->
    let a := fst (arun true sched ast0 ths) in
    LInv a /\ forall n, n < length (tabs a) ->
      exists r log, lookup_from a n = (Ok r, [], log) /\ NoDup log.
Proof.
  intros sched ths Hnew a.
  assert (Hv : Forall (AV ast0) ths).
  { eapply Forall_impl; [|exact Hnew]. intros th H. unfold AV. rewrite H. exact Logic.I. }
  destruct (arun_atomic_LInv sched ast0 ths LInv0 Hv) as [I _]. fold a in I. split; [exact I|].
  intros n Hn. destruct (lookup_from_ok a n I Hn) as [r [log [H1 [H2 _]]]]. eauto.
Qed.

(* the code BEFORE 2465f70: check and link are two steps and nothing orders them between threads;
   two requests analysing aA (aB) and aB (aA): when both checks come before both links the cycle is
   installed, although every single-threaded history refuses it *)
Definition race_threads : list athread := [ mkAT #"AA" #"AB" ANew; mkAT #"AB" #"AA" ANew ].
Definition race_sched : list nat := [0; 1; 0; 1; 0; 1].

Theorem C14_old_concurrent_link_race_refuted :
  (exists l, fst (fst (lookup_from (fst (arun false race_sched ast0 race_threads)) 0)) = Deadlock l) /\
  (* the same schedule with the atomic step *)
  (exists r, fst (fst (lookup_from (fst (arun true race_sched ast0 race_threads)) 0)) = Ok r) /\
  (* the old code on a schedule that runs one analysis to its end before the other one checks *)
  (exists r, fst (fst (lookup_from (fst (arun false [0; 1; 0; 0; 1; 1] ast0 race_threads)) 0)) = Ok r).
Proof. split; [|split]; eexists; vm_compute; reflexivity. Qed.

Print Assumptions C14_links_acyclic.
Print Assumptions C14_link_rule_keeps_acyclic.
Print Assumptions C14_lookup_terminates_no_deadlock.
Print Assumptions C14_lookup_any_hit.
Print Assumptions C14_every_request_answered.
Print Assumptions C14_tree_acyclic.
Print Assumptions C14_tree_acyclic_seq.
Print Assumptions C14_concurrent_lookups_no_deadlock.
Print Assumptions C14_old_refuted_mutual.
Print Assumptions C14_old_refuted_selfcase.
Print Assumptions C14_mixed_requests.
Print Assumptions C14_old_tree_cycle_refuted.
Print Assumptions C14_old_duplicate_class_children_cycle_refuted.
Print Assumptions C14_concurrent_analyses_acyclic.
Print Assumptions C14_old_concurrent_link_race_refuted.
