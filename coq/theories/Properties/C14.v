(* C14  Analysis terminates on every workspace shape.
   Statements only (tiny glue); proofs in Proofs/LocksProofs.v (symbol-table chains, Model/Locks.v)
   and Proofs/ForestProofs.v (class tree and hierarchy walkers, Model/Forest.v).

   fs : list cfile     ANY workspace: per file its upper-cased stem, the class header as spelled
                       (class name, optional parent name: itself, another class in any letter case,
                       a class that does not exist, ...) and its `uses` list
   analyse .. true ..  annotate_doc + handle_class with the rules of 03f6c4d; `false` = the rules
                       before it (case-sensitive self-parent guard, unconditional link)
   Deadlock l          a thread takes a lock it already holds (never returns); OutOfFuel = unbounded
                       recursion *)
From GoldV Require Import Base Forest Locks ParentGraph ForestProofs LocksProofs.
From GoldV Require Flags.
From GoldV Require Import FlagsProofs.
From Coq Require Import Permutation Ascii.
From Coq Require String.
Import String.StringSyntax.
Local Open Scope nat_scope.

(* ---- the table graph stays acyclic ---- *)
Fixpoint analyses (fs : list cfile) (a : ast) (l : list (str * bool)) : out ast :=
  match l with
  | [] => Ok a
  | (s, full) :: r => bind (analyse (analyse_fuel fs) true fs full a s) (fun a' => analyses fs a' r)
  end.

(* after any sequence of analyses (full or definitions only, of any files, in any order; each one
   nests the analyses of the parents that have no table yet, against half-filled tables):
   every analysis returns, every chain of parent links ends, no table is its own ancestor *)
Theorem C14_links_acyclic :
  forall fs l, exists a,
    analyses fs ast0 l = Ok a /\
    Term (tp a) /\ Acyc (tp a) /\ Bounded (tp a) (length (tabs a)).
Proof.
  intros fs l.
  assert (H : forall a0, LInv a0 -> exists a, analyses fs a0 l = Ok a /\ LInv a).
  { induction l as [|[s full] r IH]; intros a0 I; cbn [analyses]; [eauto|].
    destruct (analyse_ok fs full a0 s I) as [a1 [H1 [I1 _]]]. rewrite H1. cbn [bind]. apply IH. exact I1. }
  destruct (H ast0 LInv0) as [a [H1 I]]. exists a. split; [exact H1|].
  split; [apply (lTerm _ I)|]. split; [apply Term_Acyc; apply (lTerm _ I) | apply (lBound _ I)].
Qed.

(* a single link attempt, the induction step: the rule refuses exactly what would close a cycle *)
Theorem C14_link_rule_keeps_acyclic :
  forall a n m, LInv a -> n < length (tabs a) -> m < length (tabs a) ->
    LInv (link_rule true a n m).
Proof. exact LInv_link. Qed.

(* ---- look-ups ---- *)
(* in an acyclic table graph a look-up from any table that misses everywhere (the longest walk)
   answers, takes each lock at most once, at most `number of tables` locks, and holds nothing
   afterwards *)
Theorem C14_lookup_terminates_no_deadlock :
  forall a n, LInv a -> n < length (tabs a) ->
    exists r log, lookup_from a n = (Ok r, [], log) /\ NoDup log /\ length log <= length (tabs a).
Proof. exact lookup_from_ok. Qed.

(* the same for a look-up that stops at any table (`hit`), started with any fuel >= the number of
   tables *)
Theorem C14_lookup_any_hit :
  forall a hit n fuel, LInv a -> n < length (tabs a) -> length (tabs a) <= fuel ->
    exists r log, tlookup fuel (tabs a) hit [] [] n = (Ok r, [], log) /\ NoDup log.
Proof.
  intros a hit n fuel I Hn Hf.
  destruct (tlookup_ok (tabs a) hit (lTerm _ I) (lBound _ I) fuel n [] [] 0 n)
    as [r [new [H1 [H2 _]]]]; try reflexivity; try lia; [intros h []|].
  rewrite app_nil_r in H1. eauto.
Qed.

(* ---- requests ---- *)
(* every request of every sequence of requests on any files of any workspace is answered (full
   analysis unless cached, look-ups from the file's table, the tables of the parent token and of
   every used entity with look-ups there), and leaves the graph acyclic *)
Theorem C14_every_request_answered :
  forall fs l,
    Forall (fun b => b = true) (fst (requests true fs ast0 l)) /\
    LInv (snd (requests true fs ast0 l)).
Proof. intros fs l. apply requests_all_ok. exact LInv0. Qed.

(* ---- the class tree ---- *)
(* ANY file list (cyclic declarations, a class declared by several files, ...), every chunking, every
   schedule, with or without the double-checked insert: no parent cycle, the children lists are the
   inverse of the parent links (17b78d0), so the upward member walk (unbounded recursion in the code)
   returns and the downward walk returns without re-locking a node it holds *)
Theorem C14_tree_acyclic :
  forall dc cs sched,
    let t := st (run dc true sched (init cs)) in
    Term (par t) /\ Acyc (par t) /\ Bounded (par t) (length (heap t)) /\
    (forall q e, In e (kids_of t q) <-> parent_of t e = Some q) /\
    (forall d c nm, exists r, member_supertypes t d c nm = Ok r) /\
    (forall d c nm, exists r, member_subtypes t d c nm = Ok r).
Proof.
  intros dc cs sched t. pose proof (tree_acyclic_par dc cs sched) as I. fold t in I.
  split; [apply (aTerm _ I)|]. split; [apply Term_Acyc; apply (aTerm _ I)|]. split; [apply (aBound _ I)|].
  split; [apply (aKids _ I)|]. split.
  - intros d c nm. apply member_supertypes_terminates; [apply (aTerm _ I) | apply (aBound _ I)].
  - intros d c nm. apply member_subtypes_terminates. apply Shape_of_AInv. exact I.
Qed.

Theorem C14_tree_acyclic_seq :
  forall fs, Term (par (build fs)) /\
    (forall d c nm, exists r, member_supertypes (build fs) d c nm = Ok r) /\
    (forall d c nm, exists r, member_subtypes (build fs) d c nm = Ok r).
Proof.
  intro fs. pose proof (tree_acyclic_seq fs) as I. split; [apply (aTerm _ I)|]. split.
  - intros d c nm. apply member_supertypes_terminates; [apply (aTerm _ I) | apply (aBound _ I)].
  - intros d c nm. apply member_subtypes_terminates. apply Shape_of_AInv. exact I.
Qed.

(* ---- several look-ups at the same time ---- *)
(* lock order child -> parent: whatever locks the threads hold, as long as one look-up has not
   returned some thread can move (no circular wait), and every move strictly decreases that
   thread's measure (at most `number of tables` + 1 moves per look-up) *)
Theorem C14_concurrent_lookups_no_deadlock :
  forall a ths, LInv a ->
    (lall_returned ths = false -> exists i ths', lstep (tabs a) ths i = Some ths') /\
    (Forall (fun th => lstart th < length (tabs a)) ths ->
     forall i ths', lstep (tabs a) ths i = Some ths' ->
       exists th th', nth_error ths i = Some th /\ ths' = upd i (fun _ => th') ths /\
                      lstart th' = lstart th /\ lmeasure (tabs a) th' < lmeasure (tabs a) th).
Proof.
  intros a ths I. split.
  - apply concurrent_lookups_progress. apply (lTerm _ I).
  - intros Hs i ths' H. apply lstep_measure; auto; [apply (lTerm _ I) | apply (lBound _ I)].
Qed.

(* ---- witnesses ---- *)
Fixpoint s2l (s : String.string) : str :=
  match s with
  | String.EmptyString => []
  | String.String a r => N.of_nat (nat_of_ascii a) :: s2l r
  end.
Arguments s2l _%string_scope.
Local Notation "# s" := (s2l s) (at level 1, format "# s").

(* classes naming each other as parent *)
Definition ws_mutual : list cfile :=
  [ mkCF #"AA" (Some (#"aA", Some #"aB")) []; mkCF #"AB" (Some (#"aB", Some #"aA")) [] ].
(* a class naming itself in another letter case *)
Definition ws_selfcase : list cfile := [ mkCF #"AA" (Some (#"aA", Some #"AA")) [] ].
(* a three-cycle, a missing parent, a file without class, entities using each other *)
Definition ws_mixed : list cfile :=
  [ mkCF #"AA" (Some (#"aA", Some #"Ab")) [#"aD"; #"aNoSuch"];
    mkCF #"AB" (Some (#"aB", Some #"AC")) [#"aA"];
    mkCF #"AC" (Some (#"aC", Some #"aa")) [];
    mkCF #"AD" (Some (#"aD", Some #"aGone")) [#"aA"; #"aE"];
    mkCF #"AE" None [#"aD"] ].

(* the rules BEFORE 03f6c4d: the link closes the cycle, the next look-up takes a lock twice *)
Theorem C14_old_refuted_mutual :
  exists l, request false ws_mutual ast0 #"AA" = Deadlock l /\
            exists a, request true ws_mutual ast0 #"AA" = Ok a.
Proof. exists 0. split; [vm_compute; reflexivity | eexists; vm_compute; reflexivity]. Qed.

Theorem C14_old_refuted_selfcase :
  exists l, request false ws_selfcase ast0 #"AA" = Deadlock l /\
            exists a, request true ws_selfcase ast0 #"AA" = Ok a.
Proof. exists 0. split; [vm_compute; reflexivity | eexists; vm_compute; reflexivity]. Qed.

(* non-vacuity: a run of the repaired rules on a workspace with a three-cycle, a missing parent, a
   class-less file and mutual uses; one link of the cycle is refused, two are installed *)
Example C14_mixed_requests :
  fst (requests true ws_mixed ast0 [#"AA"; #"AB"; #"AC"; #"AD"; #"AE"; #"AC"; #"AA"]) =
    [true; true; true; true; true; true; true] /\
  length (filter (fun t => match tpar t with Some _ => true | None => false end)
                 (tabs (snd (requests true ws_mixed ast0 [#"AA"])))) = 2.
Proof. split; vm_compute; reflexivity. Qed.

(* the class tree BEFORE 8e84a43 (no is_self_or_ancestor): mutual parents close a cycle; the upward
   member walk never ends and the downward walk re-locks a node it holds *)
Definition tree_files_mutual : list file := [ (#"aA", Some #"aB"); (#"aB", Some #"aA") ].
Definition no_members : decls := fun _ => Some [].

Theorem C14_old_tree_cycle_refuted :
  member_supertypes (build_old tree_files_mutual) no_members #"aA" #"Foo" = OutOfFuel /\
  (* the walker of that time kept a node locked while visiting its children (before 0e8d93b) *)
  (exists l, member_subtypes_old (build_old tree_files_mutual) no_members #"aA" #"Foo" = Deadlock l) /\
  (* today's walker holds no node: on such a cycle it would recurse without end *)
  member_subtypes (build_old tree_files_mutual) no_members #"aA" #"Foo" = OutOfFuel /\
  (exists r, member_supertypes (build tree_files_mutual) no_members #"aA" #"Foo" = Ok r) /\
  (exists r, member_subtypes (build tree_files_mutual) no_members #"aA" #"Foo" = Ok r).
Proof.
  split; [vm_compute; reflexivity|]. split; [eexists; vm_compute; reflexivity|]. split; [vm_compute; reflexivity|].
  split; eexists; vm_compute; reflexivity.
Qed.

(* the code BEFORE 17b78d0: a class declared by two files was linked twice and stayed in its first
   parent's children list; the children lists (not the parent links) then contained a cycle and the
   downward walk re-locked a node it held *)
Definition tree_files_dup : list file :=
  [ (#"aA", Some #"aB"); (#"aA", Some #"aC"); (#"aB", Some #"aA") ].

Theorem C14_old_duplicate_class_children_cycle_refuted :
  Term (par (build_nodetach tree_files_dup)) /\
  (exists l, member_subtypes_old (build_nodetach tree_files_dup) no_members #"aC" #"Bar" = Deadlock l) /\
  member_subtypes (build_nodetach tree_files_dup) no_members #"aC" #"Bar" = OutOfFuel /\
  (exists r, member_subtypes (build tree_files_dup) no_members #"aC" #"Bar" = Ok r).
Proof.
  split; [|split; [eexists; vm_compute; reflexivity | split; [vm_compute; reflexivity | eexists; vm_compute; reflexivity]]].
  (* the parent links are acyclic even there: only the children lists were wrong *)
  intro p. destruct p as [|[|[|p]]]; try (exists 4; vm_compute; reflexivity).
  exists 1. assert (H : parent_of (build_nodetach tree_files_dup) (S (S (S p))) = None).
  { unfold parent_of, getn. destruct (nth_error (heap (build_nodetach tree_files_dup)) (S (S (S p)))) eqn:E; [|reflexivity].
    assert (Hl : S (S (S p)) < length (heap (build_nodetach tree_files_dup))) by (apply nth_error_Some; congruence).
    vm_compute in Hl. lia. }
  cbn [anc]. unfold par. rewrite H. reflexivity.
Qed.

(* requests analysing classes AT THE SAME TIME (any number of threads, any schedule): with the
   reachability check and the link as ONE step (LINK_LOCK, 2465f70) the graph stays acyclic, so every
   later look-up returns *)
Theorem C14_concurrent_analyses_acyclic :
  forall sched ths, Forall (fun th => apos th = ANew) ths ->
    let a := fst (arun true sched ast0 ths) in
    LInv a /\ forall n, n < length (tabs a) ->
      exists r log, lookup_from a n = (Ok r, [], log) /\ NoDup log.
Proof.
  intros sched ths Hnew a.
  assert (Hv : Forall (AV ast0) ths).
  { eapply Forall_impl; [|exact Hnew]. intros th H. unfold AV. rewrite H. exact Logic.I. }
  destruct (arun_atomic_LInv sched ast0 ths LInv0 Hv) as [I _]. fold a in I. split; [exact I|].
  intros n Hn. destruct (lookup_from_ok a n I Hn) as [r [log [H1 [H2 _]]]]. eauto.
Qed.

(* the code BEFORE 2465f70: check and link are two steps and nothing orders them between threads;
   two requests analysing aA (aB) and aB (aA): when both checks come before both links the cycle is
   installed, although every single-threaded history refuses it *)
Definition race_threads : list athread := [ mkAT #"AA" #"AB" ANew; mkAT #"AB" #"AA" ANew ].
Definition race_sched : list nat := [0; 1; 0; 1; 0; 1].

Theorem C14_old_concurrent_link_race_refuted :
  (exists l, fst (fst (lookup_from (fst (arun false race_sched ast0 race_threads)) 0)) = Deadlock l) /\
  (* the same schedule with the atomic step *)
  (exists r, fst (fst (lookup_from (fst (arun true race_sched ast0 race_threads)) 0)) = Ok r) /\
  (* the old code on a schedule that runs one analysis to its end before the other one checks *)
  (exists r, fst (fst (lookup_from (fst (arun false [0; 1; 0; 0; 1; 1] ast0 race_threads)) 0)) = Ok r).
Proof. split; [|split]; eexists; vm_compute; reflexivity. Qed.

(* ------------------------------------------------------------------------------------------ *)
(* the annotation-flag protocol (Model/Flags.v, Proofs/FlagsProofs.v)                            *)
(*   any number of request threads, any dependency lists per Document object (deps), change /    *)
(*   save / close notifications at any moment; s ranges over ALL reachable states                *)
(* ------------------------------------------------------------------------------------------ *)
Definition flag_state (deps : nat -> list nat) (queues : list (list nat)) (ns : list (nat * bool))
           (sched : list (option nat)) : Flags.st :=
  Flags.run deps sched (Flags.init queues ns).

(* thread i waits, in a look-up made from inside a walk, for the flag of Document object o held by j:
   either j's holding frame is j's top frame (j is building / publishing / walking o: not waiting), or
   j began the walk that holds o only AFTER i began this look-up (ts >= the push time of i's frame):
   when the edge came into being its target was running.  If j waits itself, its look-up is younger. *)
Theorem C14_flags_wait_edges_point_to_running :
  forall deps queues ns sched i o j,
    let s := flag_state deps queues ns sched in
    waits s i o j ->
    (exists t f r, nth_error (Flags.thr s) i = Some t /\ Flags.stack t = f :: r /\ Flags.ffull f = false) ->
    ((exists tj x ts l, nth_error (Flags.thr s) j = Some tj /\ In x (Flags.stack tj) /\
                        Flags.fph x = Flags.PWalk o true ts l /\ top_push s i <= ts) \/
     (exists tj x, nth_error (Flags.thr s) j = Some tj /\ Flags.stack tj = x :: tl (Flags.stack tj) /\ holds x o)) /\
    (forall o2 k, waits s j o2 k -> top_push s i < top_push s j).
Proof.
  intros deps queues ns sched i o j s Hw Hn. pose proof (reachable_Inv deps queues ns sched) as HI. fold s in HI.
  split; [apply wait_edge_young; assumption|].
  intros o2 k Hw2. apply (wait_edge_order s i o j o2 k HI Hw Hw2 Hn).
Qed.

(* in every reachable state: every thread has finished all its requests, or some thread can take a step; and
   there is no wait-for cycle of any length *)
Theorem C14_flags_no_deadlock :
  forall deps queues ns sched,
    let s := flag_state deps queues ns sched in
    (Flags.all_done s = true \/ exists i s', Flags.tstep deps s i = Some s') /\
    (forall n (path : nat -> nat * nat),
        (forall k, k <= n -> waits s (fst (path k)) (snd (path k)) (fst (path (S k)))) ->
        fst (path (S n)) = fst (path 0) -> False).
Proof.
  intros deps queues ns sched s. pose proof (reachable_Inv deps queues ns sched) as HI. fold s in HI. split.
  - destruct (Flags.all_done s) eqn:E; [left; reflexivity | right; apply progress; assumption].
  - intros n path Hw Hc. eapply (no_wait_cycle s (fst (path 0)) HI n path); eauto.
Qed.

(* the re-entry paths of the code (annotate_doc's `reentered`, wait_until_annotated's exemption of the
   annotating thread) are never taken: a look-up never reaches a Document object that its own thread is
   annotating, because set_symbol_table precedes the walk and a notification that clears the table also
   replaces the object *)
Theorem C14_flags_reentry_unreachable :
  forall deps queues ns sched i t f r o,
    let s := flag_state deps queues ns sched in
    nth_error (Flags.thr s) i = Some t -> Flags.stack t = f :: r ->
    (Flags.fph f = Flags.PLock o \/ Flags.fph f = Flags.PWait o) ->
    Flags.oat (Flags.getobj s o) <> Some i.
Proof.
  intros deps queues ns sched i t f r o s Hi Hs Hp Hat.
  eapply (no_reentry s i t f r o); eauto. apply reachable_Inv.
Qed.

(* every request returns, under ANY scheduler that lets some enabled thread (or the next notification) move as
   long as there is one: in a workspace of N files whose walks look up at most D files each,
   (1) from every reachable state every chain of moves is finite -- the pair (notifications still to come, cost of
       the work still to do) decreases lexicographically with every move of every thread;
   (2) a reachable state in which nothing can move has served every request (and delivered every notification) *)
Theorem C14_flags_every_request_returns :
  forall N D deps queues ns sched,
    (forall o, length (deps o) <= D /\ Forall (fun u => u < N) (deps o)) ->
    Forall (Forall (fun u => u < N)) queues ->
    let s := flag_state deps queues ns sched in
    Acc (fun s2 s1 => Bnd N D s1 /\ exists a, Flags.step deps s1 a = Some s2) s /\
    Bnd N D s /\
    ((forall a, Flags.step deps s a = None) -> Flags.all_done s = true /\ Flags.notes s = []).
Proof.
  intros N D deps queues ns sched Hd Hq s.
  assert (HB : Bnd N D s) by (apply run_Bnd; [exact Hd | apply Bnd_init; exact Hq]).
  split; [apply (steps_terminate N D deps Hd); exact HB|]. split; [exact HB|].
  intro Hstuck. pose proof (reachable_Inv deps queues ns sched) as HI. fold (flag_state deps queues ns sched) in HI. fold s in HI.
  split.
  - destruct (Flags.all_done s) eqn:E; [reflexivity|]. destruct (progress deps s HI E) as [i [s' Hs']].
    specialize (Hstuck (Some i)). simpl in Hstuck. congruence.
  - specialize (Hstuck None). simpl in Hstuck. unfold Flags.nstep in Hstuck. destruct (Flags.notes s) as [|[u b] r]; [reflexivity|].
    destruct b; discriminate.
Qed.

(* non-vacuity: three request threads on three files that use each other in a circle, a didChange of file 1
   arriving in the middle; the run below ends with every request answered ... *)
Definition deps3 (o : nat) : list nat := [ (S o) mod 3; (o + 2) mod 3 ].
Definition sched3 : list (option nat) :=
  [Some 0; Some 1; Some 2; Some 0; Some 1; Some 2; Some 0; Some 1; Some 2; Some 0; Some 1; None] ++
  concat (repeat [Some 0; Some 1; Some 2] 60).

Example C14_flags_three_threads_complete :
  Flags.all_done (flag_state deps3 [[0]; [1]; [2]] [(1, true)] sched3) = true /\
  length (Flags.objs (flag_state deps3 [[0]; [1]; [2]] [(1, true)] sched3)) >= 4.
Proof. split; vm_compute; [reflexivity | lia]. Qed.

(* ... and a reachable state in which a look-up waits for a flag: thread 0, walking file 0, looks up file 1 whose
   Document object thread 1 has published but whose table it has not set yet; thread 0 cannot move, thread 1 can *)
(* Document object 0 is file 1's (thread 1 starts), object 1 is file 0's: each walk looks up the other file *)
Definition deps2 (o : nat) : list nat := [o].
Definition sched2w : list (option nat) :=
  [Some 1; Some 1; Some 1; Some 1; Some 1; Some 0; Some 0; Some 0; Some 0; Some 0; Some 0; Some 0; Some 0].

Example C14_flags_a_lookup_waits :
  let s := flag_state deps2 [[0]; [1]] [] sched2w in
  Flags.tstep deps2 s 0 = None /\ Flags.all_done s = false /\
  (exists s', Flags.tstep deps2 s 1 = Some s') /\ waits s 0 0 1.
Proof.
  cbv zeta. split; [vm_compute; reflexivity|]. split; [vm_compute; reflexivity|]. split; [eexists; vm_compute; reflexivity|].
  unfold waits. eexists. eexists. eexists. split; [vm_compute; reflexivity|]. split; [reflexivity|].
  split; [left; reflexivity|]. split; [vm_compute; reflexivity | lia].
Qed.

(* ------------------------------------------------------------------------------------------ *)
(* lock order of the symbol tables: the one call site that violated it                           *)
(* ------------------------------------------------------------------------------------------ *)
(* LOCK ORDERS THE MODELS ASSUME (checked call site by call site in docs/lock_audit.md, 0e8d93b):
     symbol tables      a look-up holds a table and then takes its PARENT (get_symbol_info, search_symbol_info_wparent,
                        search_all_symbol_info, collect_unique_symbols_w_parents, print_all_symbols); every other site takes
                        ONE table at a time (class_level_table since d98ed2d, is_own_table_reachable_from,
                        set_parent_symbol_table, insert_symbol_info); no statement locks two unrelated tables;
     LINK_LOCK          taken after the parent's table has been fetched, held only across single-table locks and the
                        diagnostic collector; never held across a flag wait or an analysis;
     annotation flags   waited for only from the top of a request or from inside a walk (Model/Flags.v); the waiting thread
                        may hold read/write locks of nodes of ITS OWN tree (single writer per tree, serialised by the flag),
                        never a symbol-table mutex, never LINK_LOCK, and -- since 0e8d93b -- no entity node and no Document;
     class tree         Document (copied out, released) < tree map write lock < entity nodes, one node at a time
                        (is_self_or_ancestor, detach_from_parent, link); the walkers hold no node while they recurse.
   The theorems above are about each of these in isolation; their composition rests on this list. *)

(* manager/utils.rs::class_level_table BEFORE d98ed2d locked the parent table and, still holding it, the child
   table, while every look-up locks the child and then the parent: with one thread of each kind on a method table 0
   whose parent is the class table 1, the schedule `each takes its first lock` blocks both for good *)
Theorem C14_old_class_level_table_refuted :
  let ths := qrun [ mkQ [0; 1] []; mkQ [1; 0] [] ] [0; 1] in
  (forall i, qstep ths i = None) /\ forallb qdone ths = false /\
  (* the repaired function holds one table at a time (two single-lock sections): every schedule drains *)
  forallb qdone (qrun [ mkQ [0; 1] []; mkQ [1] [] ] [0; 1; 1; 0; 0; 1; 1]) = true.
Proof.
  cbv zeta. split; [|split; vm_compute; reflexivity].
  intro i. destruct i as [|[|i]]; try (vm_compute; reflexivity).
  unfold qstep. replace (nth_error _ (S (S i))) with (@None qthread); [reflexivity|].
  symmetry. apply nth_error_None. vm_compute. lia.
Qed.

(* ------------------------------------------------------------------------------------------ *)
(* recursion depth                                                                               *)
(* ------------------------------------------------------------------------------------------ *)
(* a linear inheritance chain of n classes, analysed from its deepest class with no table cached: the nested
   analyses go n deep (fuel n suffices, fuel n - 1 does not) -- the depth the implementation's stack must carry.
   Instances n = 1, 2, 3, 5, 10, 30, 60 (by computation); the general bound `depth <= number of files + 1` is
   analyse_fuel_ok / C14_links_acyclic. *)
Definition chain_key (i : nat) : str := [N.of_nat (200 + i)].
Definition chain_ws (n : nat) : list cfile :=
  map (fun i => mkCF (chain_key i) (Some (chain_key i, match i with O => None | S j => Some (chain_key j) end)) []) (seq 0 n).
Definition depth_is (n : nat) : bool :=
  match analyse n true (chain_ws n) false ast0 (chain_key (n - 1)), analyse (n - 1) true (chain_ws n) false ast0 (chain_key (n - 1)) with
  | Ok _, OutOfFuel => true
  | _, _ => false
  end.

Example C14_analysis_depth_is_chain_length : forallb depth_is [1; 2; 3; 5; 10; 30; 60] = true.
Proof. vm_compute. reflexivity. Qed.

Print Assumptions C14_links_acyclic.
Print Assumptions C14_link_rule_keeps_acyclic.
Print Assumptions C14_lookup_terminates_no_deadlock.
Print Assumptions C14_lookup_any_hit.
Print Assumptions C14_every_request_answered.
Print Assumptions C14_tree_acyclic.
Print Assumptions C14_tree_acyclic_seq.
Print Assumptions C14_concurrent_lookups_no_deadlock.
Print Assumptions C14_old_refuted_mutual.
Print Assumptions C14_old_refuted_selfcase.
Print Assumptions C14_mixed_requests.
Print Assumptions C14_old_tree_cycle_refuted.
Print Assumptions C14_old_duplicate_class_children_cycle_refuted.
Print Assumptions C14_concurrent_analyses_acyclic.
Print Assumptions C14_old_concurrent_link_race_refuted.
Print Assumptions C14_flags_wait_edges_point_to_running.
Print Assumptions C14_flags_no_deadlock.
Print Assumptions C14_flags_reentry_unreachable.
Print Assumptions C14_flags_every_request_returns.
Print Assumptions C14_flags_three_threads_complete.
Print Assumptions C14_flags_a_lookup_waits.
Print Assumptions C14_old_class_level_table_refuted.
Print Assumptions C14_analysis_depth_is_chain_length.

(* ---- tree level: the parent walk of the annotators on a workspace of REAL trees (Model/WsTree.v) ----
   ws : list of (file stem, syntax tree) -- ANY trees, no regularity, no acyclicity.  WsTree.walk returns
   Outside when its fuel ends; WsTreeTerm.walk3 / lineage3 keep that outcome apart (WNoFuel), erase maps
   WNoFuel and WOut to Outside.  Tied to the code by the differential stage `wstree` of checks/c10.py
   (parent cycles, self-parents, missing parents among its mutants; a 120 s watchdog per workspace). *)
From GoldV Require WsTree WsTreeProofs WsTreeTerm WsTreeCut WsTreeWitness.

(* the walk returns within its fuel -- never the out-of-fuel value -- on every workspace shape; the path
   it returns has no repeated document and is at most as long as the workspace *)
Theorem C14_ws_lineage_terminates :
  forall ws i,
    WsTree.lineage_t ws i = WsTreeTerm.erase (WsTreeTerm.lineage3 ws i) /\
    WsTreeTerm.lineage3 ws i <> WsTreeTerm.WNoFuel /\
    (forall b path, WsTree.lineage_t ws i = DefTree.Ans (b, path) ->
       NoDup path /\ (forall x, In x path -> x < length ws) /\ length path <= length ws).
Proof. exact WsTreeTerm.ws_lineage_terminates. Qed.

(* every request is answered: wdefinition / wcompletion are total with an outcome in {Outside, Ans}, no
   Outside stems from a walk out of fuel, and every chain of tables a request searches (the chain of the
   position, of the entity before a dot, of a used entity) has at most length ws + 1 tables *)
Theorem C14_ws_requests_total :
  forall ws a p,
    (WsTree.wdefinition ws a p = DefTree.Outside \/ exists l, WsTree.wdefinition ws a p = DefTree.Ans l) /\
    (WsTree.wcompletion ws a p = DefTree.Outside \/ exists l, WsTree.wcompletion ws a p = DefTree.Ans l) /\
    (forall j, WsTree.lineage_t ws j = WsTreeTerm.erase (WsTreeTerm.lineage3 ws j) /\
               WsTreeTerm.lineage3 ws j <> WsTreeTerm.WNoFuel) /\
    (forall d t steps full, nth_error ws a = Some d -> WsTree.full_chain ws a t steps = DefTree.Ans full ->
       length full <= length ws + 1 /\
       (forall en ch, WsTree.entity_chain ws a full en = DefTree.Ans (Some ch) -> length ch <= length ws + 1)) /\
    (forall j ch, WsTree.other_chain ws a j = DefTree.Ans ch -> length ch <= length ws).
Proof. exact WsTreeTerm.ws_requests_total. Qed.

(* non-vacuity on real dumps: aChild (aParent), aParent (aChild): the walk comes back and returns *)
Example C14_ws_cycle_returns :
  WsTreeTerm.lineage3 WsTreeWitness.wsx_cyc 0 = WsTreeTerm.WAns true [0] /\
  WsTree.lineage_t WsTreeWitness.wsx_cyc 0 = DefTree.Ans (true, [0]) /\
  WsTree.lineage_t WsTreeWitness.wsx 0 = DefTree.Ans (false, [0; 1]).
Proof.
  destruct WsTreeWitness.wsx_cyc_cut_facts as (H1 & _ & _ & _ & H5 & _). destruct WsTreeWitness.wsx_facts as (_ & _ & _ & H4 & _).
  auto.
Qed.

Print Assumptions C14_ws_lineage_terminates.
Print Assumptions C14_ws_requests_total.
Print Assumptions C14_ws_cycle_returns.
