(* C04  Lexing and parsing are total.
   `lex` is a structurally recursive Gallina function, hence total by construction; its only
   partial operation in the code (the usize subtraction of create_range) is covered by
   C04_lexer_no_underflow.  `parse_gold_with memo fuel` is the parser model (Model/Grammar.v);
   its explicit outcomes Panic (an unwrap/index of the code failing) and NoFuel (the model's
   recursion bound exhausted: non-termination of the code would show up here) are shown
   unreachable, and the remaining input is shown empty, for ALL token lists. *)
From GoldV Require Import Base Tokens Keywords Lexer AstKinds Tree Strings PComb Grammar
                          LexerProofs ParserWF GrammarWF.

(* for every token list, with memoisation on or off, and any fuel above the number of tokens:
   a tree is produced, every token is consumed, no panic site and no fuel exhaustion is reached *)
Theorem C04_parse_total :
  forall memo fuel ts, (length ts < fuel)%nat ->
    exists root, fst (parse_gold_with memo fuel ts) = Ok [] root.
Proof. exact parse_gold_total. Qed.

(* the entry point the correspondence runs *)
Theorem C04_parse_gold_total : forall ts, exists root, fst (parse_gold ts) = Ok [] root.
Proof.
  intro ts. unfold parse_gold. apply (parse_gold_total true (default_fuel ts) ts).
  unfold default_fuel. apply le_S. apply le_n.
Qed.

(* the same for lexer + parser on any text *)
Theorem C04_text_total :
  forall text, exists root, fst (parse_gold (fst (lex text))) = Ok [] root.
Proof. intro text. apply C04_parse_gold_total. Qed.

(* every recursive entry point of the grammar, at any fuel level, on any input shorter than the
   fuel and any context with a well-formed cache: no panic, no fuel exhaustion, strict progress on
   success, error position inside the input, cache stays well-formed *)
Theorem C04_grammar_wf :
  forall f n, (n < f)%nat ->
    W n true (g_type (gram f)) /\ W n true (g_expr (gram f)) /\
    W n true (g_primary (gram f)) /\ W n true (g_stmt (gram f)).
Proof. exact gram_W. Qed.

(* the loops of the combinator library terminate by consuming input: for ANY strict item parser *)
Theorem C04_repeat_consumes_all :
  forall A n (p : P A), W n true p -> forall i c, CacheOK c -> (length i <= n)%nat ->
    exists a, fst (repeat_w_ctx p i c) = Ok [] a.
Proof. exact @repeat_consumes_all. Qed.

(* the only arithmetic that can fail in the lexer: raw_pos - last_line_pos never underflows,
   because the recorded line start is the offset minus the true column *)
Theorem C04_lexer_no_underflow :
  forall pre, snd (st_of pre) <= lenN pre /\ lenN pre - snd (st_of pre) = snd (line_col pre).
Proof.
  intro pre. unfold st_of. cbn [snd]. pose proof (col_le pre). split; lia.
Qed.

(* obligations on the table regenerated from `impl IAstNode for X` (translator T5): every node kind
   defines its name (the trait default is todo!()), its kind and its type string, and defines
   either both child views or neither *)
Definition impl_ok (x : akind * bool * bool * bool * bool * bool) : bool :=
  let '(_, ident, cref, carc, tst, gt) := x in ident && Bool.eqb cref carc && tst && gt.

Theorem C04_every_kind_traversable : forallb impl_ok ak_impls = true.
Proof. vm_compute. reflexivity. Qed.

Theorem C04_every_kind_listed :
  forall k, existsb (fun x => ak_eqb (fst (fst (fst (fst (fst x))))) k) ak_impls = true.
Proof. intro k. destruct k; vm_compute; reflexivity. Qed.

(* non-vacuity: a method with a nested block, a call tower and an unterminated if *)
Example C04_nonvacuous :
  let text := [112;114;111;99;32;80;10;105;102;32;97;40;98;40;99;41;41;10;120;61;49;10;101;110;100;112;114;111;99;10] in
  match fst (parse_gold (fst (lex text))) with
  | Ok [] (Node KAstRoot _ _ _ _ [Node KAstProcedure _ _ _ _ _]) => True
  | _ => False
  end.
Proof. vm_compute. exact I. Qed.

Print Assumptions C04_parse_total.
Print Assumptions C04_parse_gold_total.
Print Assumptions C04_text_total.
Print Assumptions C04_grammar_wf.
Print Assumptions C04_repeat_consumes_all.
Print Assumptions C04_lexer_no_underflow.
Print Assumptions C04_every_kind_traversable.
Print Assumptions C04_every_kind_listed.
Print Assumptions C04_nonvacuous.
