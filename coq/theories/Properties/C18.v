(* C18  Symbol tables behave like nested case-insensitive maps.
   Statements only; every proof is `exact <lemma of Proofs/SymTabProofs.v>`. *)
From GoldV Require Import Base SymTab SymTabProofs.

(* Every state reachable by any operation sequence over a chain of any length satisfies the
   representation invariant (hash_map maps each upper-cased name to its latest insertion). *)
Theorem C18_reachable_inv : forall n ops, Forall Inv (final_chain n ops).
Proof. exact reachable_inv. Qed.

(* lookup = most recent insertion of the name (ignoring case) in the nearest scope that has it *)
Theorem C18_lookup_refines : forall c id, reachable c -> get c id = spec_get c id.
Proof. intros c id H. apply get_refines. apply reachable_Inv. exact H. Qed.

Theorem C18_lookup_ignores_case :
  forall c a b, reachable c -> upper a = upper b -> get c a = get c b.
Proof. intros c a b H. apply lookup_ci. apply reachable_Inv. exact H. Qed.

Theorem C18_search_wparent_refines :
  forall c id, reachable c -> option_map snd (search_wparent c id) = spec_get c id.
Proof. intros c id H. apply search_wparent_refines. apply reachable_Inv. exact H. Qed.

Theorem C18_search_wparent_owner :
  forall c id k x, reachable c -> search_wparent c id = Some (k, x) ->
  exists pre s post, c = pre ++ s :: post /\ cls s = k /\ spec_find s id = Some x /\
                     Forall (fun s' => spec_find s' id = None) pre.
Proof. intros c id k x H. apply search_wparent_owner. apply reachable_Inv. exact H. Qed.

(* the all-matches query lists one hit per scope, nearest first *)
Theorem C18_search_all_refines :
  forall c id, reachable c -> search_all c id = spec_search_all c id.
Proof. intros c id H. apply search_all_refines. apply reachable_Inv. exact H. Qed.

(* iteration yields a scope's insertions in insertion order *)
Theorem C18_iter_insertion_order :
  forall n ops j, (j < n)%nat -> iter (skipn j (final_chain n ops)) = inserted j 0 ops.
Proof. exact iter_insertion_order. Qed.

(* the merged listing: each name once, nearest declaration wins, every visible name listed,
   nearest scope first with insertion order inside a scope *)
Theorem C18_merged_listing :
  forall c, reachable c ->
    collect c = merged c /\
    NoDup (map key (collect c)) /\
    (forall x, In x (collect c) -> get c (sid x) = Some x) /\
    (forall id x, get c id = Some x -> In x (collect c)) /\
    (exists parts, collect c = concat parts /\ Forall2 (fun p s => sublist p (syms s)) parts c).
Proof.
  intros c H. apply reachable_Inv in H.
  rewrite (collect_merged c H). split; [reflexivity|]. split; [apply merged_each_name_once|].
  split; [|split].
  - intros x Hx. rewrite (get_refines c _ H). apply merged_nearest. exact Hx.
  - intros id x Hg. rewrite (get_refines c _ H) in Hg. eapply merged_complete. exact Hg.
  - apply merged_order.
Qed.

(* no-panic: the index stored for a name is always inside the symbol list, so the
   `symbols_list.get(i).unwrap()` of search_symbol_info* cannot fail *)
Theorem C18_index_in_range :
  forall n ops s id i, In s (final_chain n ops) ->
    alookup (upper id) (idx s) = Some i -> (i < length (syms s))%nat.
Proof.
  intros n ops s id i Hin. apply scope_index_in_range.
  pose proof (reachable_inv n ops) as H. rewrite Forall_forall in H. apply H. exact Hin.
Qed.

(* non-vacuity: a reachable three-scope chain with shadowing and re-insertion *)
Example C18_nonvacuous :
  let c := final_chain 3 [Insert 2 [70;111;111]; Insert 0 [102;111;111]; Insert 0 [102;111;111]; Insert 1 [98]] in
  reachable c /\ map stag (collect c) = [2; 3] /\ option_map stag (get c [70;79;79]) = Some 2.
Proof. split; [eexists 3%nat, _, 0%nat; reflexivity|]. vm_compute. split; reflexivity. Qed.

(* The behaviour of the code before the fix (finding D8), kept as checked refutations of the
   "each name once" clause for that behaviour. *)
Theorem C18_old_refuted_reinsert :
  exists n ops, ~ NoDup (map key (collect_old (final_chain n ops))).
Proof.
  exists 1%nat, w_reinsert. rewrite collect_old_refuted_reinsert.
  intro H. inversion H; subst. apply H2. left. reflexivity.
Qed.

Theorem C18_old_refuted_case :
  exists n ops, ~ NoDup (map key (collect_old (final_chain n ops))).
Proof.
  exists 2%nat, w_case. rewrite collect_old_refuted_case.
  intro H. inversion H; subst. apply H2. left. reflexivity.
Qed.

Print Assumptions C18_reachable_inv.
Print Assumptions C18_lookup_refines.
Print Assumptions C18_lookup_ignores_case.
Print Assumptions C18_search_wparent_refines.
Print Assumptions C18_search_wparent_owner.
Print Assumptions C18_search_all_refines.
Print Assumptions C18_iter_insertion_order.
Print Assumptions C18_merged_listing.
Print Assumptions C18_index_in_range.
Print Assumptions C18_nonvacuous.
Print Assumptions C18_old_refuted_reinsert.
Print Assumptions C18_old_refuted_case.
