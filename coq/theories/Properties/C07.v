(* C07  Expression memoisation is invisible and keeps parsing linear.
   The parser model (Model/PComb.v, Model/Grammar.v) carries the memoisation switch [cmemo] in its
   context: [parse_gold_with true] is parse_gold as it is, [parse_gold_with false] the same parser
   whose three caches never answer.  Every set_cache appends (cache number, remaining length) to
   [cevals], with memoisation on or off.
   Proofs: Proofs/MemoSim.v (simulation relation, one lemma per combinator, cache invariant),
   Proofs/MemoGrammar.v (one lemma per grammar function, the knot over the fuel-indexed grammar at
   two independent fuel levels), Proofs/MemoProofs.v (methods, top-level loop, main theorems). *)
From GoldV Require Import Base Tokens Keywords Lexer AstKinds Tree Strings PComb Grammar MemoObs
                          ParserWF GrammarWF MemoSim MemoGrammar MemoProofs.

(* witness texts (code points): `a`; `f(f(1))` newline `x=((1))`; two procedures *)
Definition text_a : list N := [97].
Definition text_calls : list N := [102;40;102;40;49;41;41;10;120;61;40;40;49;41;41].
Definition text_two_bodies : list N :=
  [112;114;111;99;32;80;10;120;61;102;40;49;41;10;101;110;100;112;114;111;99;10;
   112;114;111;99;32;81;10;121;61;40;50;41;43;51;10;101;110;100;112;114;111;99;10].
Local Open Scope nat_scope.

Definition tree (x : res node * ctx) : res node := fst x.
Definition diags (x : res node * ctx) : list pdiag := cdiags (snd x).

(* Memoisation is invisible, for ALL token lists and any fuel above the number of tokens: the same
   tree (same outcome, same remaining input) and the same SET of syntax diagnostics.  (The run
   without memoisation may emit one diagnostic several times: every re-evaluation of a sub-parser
   reports again what the memoising run reported once.) *)
Theorem C07_transparent :
  forall fuel ts, length ts < fuel ->
    tree (parse_gold_with true fuel ts) = tree (parse_gold_with false fuel ts) /\
    forall d, In d (diags (parse_gold_with true fuel ts)) <-> In d (diags (parse_gold_with false fuel ts)).
Proof. exact memo_transparent. Qed.

(* the entry point the code runs *)
Theorem C07_transparent_parse_gold :
  forall ts, tree (parse_gold ts) = tree (parse_gold_with false (default_fuel ts) ts) /\
    forall d, In d (diags (parse_gold ts)) <-> In d (diags (parse_gold_with false (default_fuel ts) ts)).
Proof.
  intro ts. unfold parse_gold, tree, diags. apply (memo_transparent (default_fuel ts) ts).
  unfold default_fuel. lia.
Qed.

(* the same for the statements of one bare method body (the entry point of the body-level correspondence) *)
Theorem C07_transparent_body :
  forall fuel toks, length toks < fuel ->
    fst (parse_body_with true fuel toks) = fst (parse_body_with false fuel toks) /\
    forall d, In d (cdiags (snd (parse_body_with true fuel toks))) <->
              In d (cdiags (snd (parse_body_with false fuel toks))).
Proof. exact body_transparent. Qed.

(* At most once per position within a method body.  parse_method_body, entered on ANY body from ANY
   context a whole-file parse can be in (memoisation on, well-formed cache: the top-level invariant
   TopInv, kept by every top-level parser -- C07_top_invariant), appends to the evaluation log a list
   [new] without repetition: between two clear_cache calls no (cache, remaining length) pair is
   evaluated twice; all keys are (cache < 3, length <= length of the body). *)
Theorem C07_once :
  forall f body i c, length body < f -> cmemo c = true -> CacheOK c ->
    exists new, cevals (snd (parse_method_body (gram f) body i c)) = new ++ cevals c /\
                NoDup new /\
                forall k n, In (k, n) new -> (k < 3)%N /\ N.to_nat n <= length body.
Proof. intros f body i c Hf Hm Hok. destruct (method_body_once f body i c Hf Hm Hok) as (new & E & Nd & Hb).
  exists new. exact (conj E (conj Nd Hb)). Qed.

Theorem C07_top_invariant :
  forall fuel ts, length ts < fuel ->
    cmemo (snd (parse_gold_with true fuel ts)) = true /\ CacheOK (snd (parse_gold_with true fuel ts)).
Proof. exact parse_gold_top_inv. Qed.

Theorem C07_once_body :
  forall fuel toks, length toks < fuel ->
    NoDup (cevals (snd (parse_body_with true fuel toks))).
Proof. intros fuel toks Hf. apply (body_once fuel toks Hf). Qed.

(* The logical core of "linear work": at most 3 * (n + 1) cache evaluations in a body of n tokens. *)
Theorem C07_linear :
  forall f body i c, length body < f -> cmemo c = true -> CacheOK c ->
    exists new, cevals (snd (parse_method_body (gram f) body i c)) = new ++ cevals c /\
                length new <= 3 * (length body + 1).
Proof.
  intros f body i c Hf Hm Hok. destruct (method_body_once f body i c Hf Hm Hok) as (new & E & Hl).
  exists new. split; [exact E|apply OnceLog_linear; exact Hl].
Qed.

Theorem C07_linear_body :
  forall fuel toks, length toks < fuel ->
    length (cevals (snd (parse_body_with true fuel toks))) <= 3 * (length toks + 1).
Proof. intros fuel toks Hf. apply OnceLog_linear. apply (body_once fuel toks Hf). Qed.

(* What "evaluated" means for the log.  parse_primary, parse_expr and (since /repo commit c0beeea)
   parse_method_call all use the wrapper [memo]: a miss evaluates the parser once, logs the key and
   stores the result, errors included, so every later call at that position is a hit.  The log
   therefore contains EVERY evaluation of caches 0, 1 and 2, and C07_once is the statement "each
   memoised sub-parser is evaluated at most once per token position within a method body". *)
Theorem C07_memo_miss_stores :
  forall k p i c, get_cache k (ilen i) c = None -> cmemo (snd (p i c)) = true -> returns_normally (fst (p i c)) ->
    fst (memo k p i c) = fst (p i c) /\
    cevals (snd (memo k p i c)) = (k, ilen i) :: cevals (snd (p i c)) /\
    get_cache k (ilen i) (snd (memo k p i c)) = Some (fst (p i c)).
Proof. exact memo_miss_stores. Qed.

Theorem C07_method_call_is_memo :
  forall re, parse_method_call re = memo CACHE_METHOD_CALL (method_call_body re).
Proof. exact parse_method_call_eq. Qed.

Definition is_err {A} (r : res A) : bool := match r with Err _ _ => true | _ => false end.

(* regression: on the body `a` a failing parse_method_call is evaluated ONCE: the first call fails
   (no `(`), logs (2, 1) and stores the error; the second call at that position is a hit *)
Theorem C07_method_call_failure_stored :
  exists body,
    let '(r1, cached, r2, log) := method_call_twice (body_fuel body) body in
    is_err r1 = true /\ (match cached with Some r => is_err r | None => false end) = true /\
    is_err r2 = true /\ log = [(CACHE_METHOD_CALL, 1%N)].
Proof. exists (fst (lex text_a)). vm_compute. auto. Qed.

(* regression, the step before c0beeea ([old_parse_method_call], wrapper [memo_ok_only]: successes
   only were stored): "at most once" was false for method calls -- on the body `a` the first call
   failed, left no cache entry and no log entry, and the second call at the same position was
   evaluated, and failed, again *)
Theorem C07_old_method_call_refuted :
  exists body,
    let '(r1, cached, r2, log) := old_method_call_twice (body_fuel body) body in
    is_err r1 = true /\ cached = None /\ is_err r2 = true /\ log = [].
Proof. exists (fst (lex text_a)). vm_compute. auto. Qed.

Theorem C07_old_method_call_failure_not_stored :
  forall k p i c e m, get_cache k (ilen i) c = None -> fst (p i c) = Err e m ->
    memo_ok_only k p i c = p i c.
Proof. exact memo_ok_only_failure_not_stored. Qed.

(* non-vacuity: `f(f(1))` newline `x=((1))` -- 14 tokens; memoisation answers 33 of the 50
   evaluations the un-memoised parser performs, the trees agree, no evaluation is repeated *)
Example C07_nonvacuous :
  let toks := fst (lex text_calls) in
  length toks = 14 /\ length toks < body_fuel toks /\
  length (cevals (snd (parse_body_with true (body_fuel toks) toks))) = 17 /\
  length (cevals (snd (parse_body_with false (body_fuel toks) toks))) = 50 /\
  match fst (parse_body_with true (body_fuel toks) toks) with Ok [] [_; _] => True | _ => False end.
Proof. vm_compute. repeat split; auto. Qed.

(* non-vacuity of the whole-file statements: two method bodies in which the same remaining length
   occurs with different content (the second body needs the clear_cache) *)
Example C07_nonvacuous_two_bodies :
  let toks := fst (lex text_two_bodies) in
  length toks < default_fuel toks /\
  match tree (parse_gold toks) with
  | Ok [] (Node KAstRoot _ _ _ _ [Node KAstProcedure _ _ _ _ _; Node KAstProcedure _ _ _ _ _]) => True
  | _ => False
  end /\
  tree (parse_gold toks) = tree (parse_gold_with false (default_fuel toks) toks).
Proof. vm_compute. repeat split; auto. Qed.

(* non-vacuity of the hypotheses of C07_once / C07_linear: the context reached at the end of a
   two-body file satisfies them and is not trivial (stale cache entries, a non-empty log) -- a third
   method body would be entered from exactly such a context *)
Example C07_once_nonvacuous :
  let c := snd (parse_gold (fst (lex text_two_bodies))) in
  cmemo c = true /\ CacheOK c /\ ccache c <> [] /\ cevals c <> [].
Proof.
  cbv zeta. unfold parse_gold.
  destruct (C07_top_invariant (default_fuel (fst (lex text_two_bodies))) (fst (lex text_two_bodies))) as [Hm Hok].
  - unfold default_fuel. lia.
  - refine (conj Hm (conj Hok _)). split; vm_compute; discriminate.
Qed.

Print Assumptions C07_transparent.
Print Assumptions C07_transparent_parse_gold.
Print Assumptions C07_transparent_body.
Print Assumptions C07_once.
Print Assumptions C07_top_invariant.
Print Assumptions C07_once_body.
Print Assumptions C07_linear.
Print Assumptions C07_linear_body.
Print Assumptions C07_memo_miss_stores.
Print Assumptions C07_method_call_is_memo.
Print Assumptions C07_method_call_failure_stored.
Print Assumptions C07_old_method_call_refuted.
Print Assumptions C07_old_method_call_failure_not_stored.
Print Assumptions C07_nonvacuous.
Print Assumptions C07_nonvacuous_two_bodies.
Print Assumptions C07_once_nonvacuous.
