(* C20  The worker pool runs every job exactly once and drains before it is dropped.
   Statements only; proofs are in Proofs/PoolProofs.v.  Everything is about ALL states reachable
   from `init n` (n workers, n > 0 as ThreadPool::new asserts) by ANY sequence of enabled events. *)
From GoldV Require Import Base Pool PoolProofs.
From Coq Require Import Permutation.
Local Open Scope nat_scope.

(* ---- every job is executed exactly once ---- *)

(* queued + received-but-not-entered + running + finished = submitted, as multisets, and ids are
   distinct: a submitted job is in exactly one of these places (never lost, never duplicated);
   the jobs ever entered are exactly running + finished and none was entered twice. *)
Theorem C20_conservation :
  forall n st, 0 < n -> reachable n st ->
    NoDup (submitted st) /\
    Permutation (qjobs (queue st) ++ held (workers st) ++ running (workers st) ++ finished st)
                (submitted st) /\
    Permutation (started st) (running (workers st) ++ finished st) /\
    NoDup (started st) /\ NoDup (finished st).
Proof. exact conservation. Qed.

Theorem C20_places_disjoint :
  forall n st, 0 < n -> reachable n st ->
    NoDup (qjobs (queue st) ++ held (workers st) ++ running (workers st) ++ finished st).
Proof. exact places_disjoint. Qed.

(* ---- as many jobs as there are workers run at the same time ---- *)

(* the receiver lock is never held by a worker that is inside a job ... *)
Theorem C20_lock_not_held_while_running :
  forall n st w j, 0 < n -> reachable n st ->
    nth_error (workers st) w = Some (Running j) -> lock st <> Some w.
Proof. exact lock_not_held_while_running. Qed.

(* ... it is held exactly between lock() and the end of the `let msg = ...` statement ... *)
Theorem C20_lock_holder_status :
  forall n st w, 0 < n -> reachable n st ->
    (lock st = Some w <-> nth_error (workers st) w = Some Locked \/
                          exists m, nth_error (workers st) w = Some (Holding m)).
Proof. exact lock_holder_status. Qed.

(* ... by at most one worker. *)
Theorem C20_lock_exclusive :
  forall n st w1 w2 s1 s2, 0 < n -> reachable n st ->
    nth_error (workers st) w1 = Some s1 -> has_lock s1 = true ->
    nth_error (workers st) w2 = Some s2 -> has_lock s2 = true -> w1 = w2.
Proof. exact lock_exclusive. Qed.

Theorem C20_at_most_n_running :
  forall n st, 0 < n -> reachable n st -> nrunning st <= n.
Proof. exact at_most_n_running. Qed.

(* can_fill: with the pool open, fewer than n jobs running and a job queued, there are enabled
   steps, NONE OF THEM A FINISH, after which one more job is running. *)
Theorem C20_can_fill :
  forall n st, 0 < n -> reachable n st -> phase st = Open ->
    nrunning st < n -> qjobs (queue st) <> [] ->
    exists evs st',
      Forall (fun e => is_finish e = false) evs /\ run st evs = Some st' /\
      phase st' = Open /\ nrunning st' = S (nrunning st).
Proof.
  intros n st Hn Hr Hp Hlt Hq.
  destruct (can_fill_inv n st (reachable_inv _ _ Hn Hr) Hp Hlt Hq) as [evs [st' [H1 [H2 [H3 [H4 _]]]]]].
  exists evs, st'. auto.
Qed.

(* hence min(n, r + j) jobs can run simultaneously while none of the r running ones returns:
   a long job holds up nobody. *)
Theorem C20_can_fill_min :
  forall n st, 0 < n -> reachable n st -> phase st = Open ->
    exists evs st',
      Forall (fun e => is_finish e = false) evs /\ run st evs = Some st' /\
      Nat.min n (nrunning st + length (qjobs (queue st))) <= nrunning st' <= n.
Proof.
  intros n st Hn Hr Hp.
  destruct (can_fill_min_inv n _ st (reachable_inv _ _ Hn Hr) Hp (le_n _)) as [evs [st' [H1 [H2 [H3 H4]]]]].
  exists evs, st'. split; [exact H1|]. split; [exact H2|]. split; [exact H4|].
  apply at_most_n_running; [exact Hn | eapply reachable_run; eauto].
Qed.

(* ---- dropping the pool ---- *)

(* while the pool is open no worker has exited or taken a Terminate: the receiver is alive, so
   the `send(..).unwrap()` of execute/execute_req cannot fail *)
Theorem C20_open_no_worker_stopped :
  forall n st w s, 0 < n -> reachable n st -> phase st = Open ->
    nth_error (workers st) w = Some s -> term_of s = false.
Proof. exact open_no_worker_stopped. Qed.

(* when Drop has returned: every worker has stopped, every submitted job has been started once
   and has finished, the channel is empty and the lock is free *)
Theorem C20_drop_drains :
  forall n st, 0 < n -> reachable n st -> phase st = Joined ->
    (forall w, w < n -> nth_error (workers st) w = Some Stopped) /\
    Permutation (finished st) (submitted st) /\
    Permutation (started st) (submitted st) /\
    NoDup (started st) /\
    queue st = [] /\ lock st = None.
Proof. exact drop_drains. Qed.

(* Drop cannot deadlock: from every reachable state inside Drop some continuation (in which the
   running jobs return) leaves Drop *)
Theorem C20_drop_progress :
  forall n st, 0 < n -> reachable n st ->
    (exists k, phase st = Dropping k \/ phase st = Joining k) ->
    exists evs st', run st evs = Some st' /\ phase st' = Joined.
Proof. exact drop_progress. Qed.

(* ... and under EVERY schedule: while some worker has not stopped a worker step is enabled, and
   each worker step decreases the measure mu, so the owner's join is reached *)
Theorem C20_drop_no_deadlock :
  forall n st k, 0 < n -> reachable n st -> phase st = Joining k ->
    (exists w s, nth_error (workers st) w = Some s /\ s <> Stopped) ->
    exists e st', is_worker_ev e = true /\ step st e = Some st' /\ mu st' < mu st.
Proof. exact drop_no_deadlock. Qed.

Theorem C20_worker_steps_decrease :
  forall st e st', step st e = Some st' -> is_worker_ev e = true ->
    mu st' < mu st /\ phase st' = phase st.
Proof. exact worker_step_mu. Qed.

(* ---- the trace monitor used by the correspondence check ---- *)

(* soundness: the visible log of ANY run of the model with n workers is accepted.
   The converse (every accepted log is the log of some run) does NOT hold for this monitor and
   is not claimed: the monitor bounds overtaking by counting free workers, it does not track
   which worker holds which received job.  With n = 2 the log
       S1 S2 S3 B0:2 F0:2 B0:3 F0:3 B0:1
   is accepted (C20_monitor_incomplete_witness) although in the model job 1 was necessarily
   received by worker 1 (worker 0 received job 2 after job 1 had left the channel) and can only
   start there.  Full statement, kept visible:
     trace_ok n tr = true <-> exists evs st, run (init n) evs = Some st /\ trace evs = tr
   proved: the <- direction. *)
Theorem C20_trace_ok_sound :
  forall n evs st, 0 < n -> run (init n) evs = Some st -> trace_ok n (trace evs) = true.
Proof. exact trace_ok_sound. Qed.

(* what acceptance means on the log alone (independent of the model) *)
Theorem C20_monitor_exactly_once :
  forall n tr, trace_ok n tr = true ->
    NoDup (v_subs tr) /\ NoDup (v_starts tr) /\ NoDup (v_fins tr) /\
    (forall j, In j (v_starts tr) -> In j (v_subs tr)) /\
    (forall j, In j (v_fins tr) -> In j (v_starts tr)) /\
    (In VDropEnd tr -> Permutation (v_starts tr) (v_subs tr) /\ Permutation (v_fins tr) (v_subs tr)).
Proof. exact monitor_exactly_once. Qed.

Theorem C20_monitor_nothing_after_end :
  forall n tr v tr', trace_ok n (tr ++ VDropEnd :: v :: tr') = false.
Proof. exact monitor_nothing_after_end. Qed.

Theorem C20_monitor_bounds_running :
  forall n tr m, mon_steps (mon_init n) tr = Some m -> nrun (m_ws m) <= n.
Proof. exact monitor_bounds_running. Qed.

(* ---- non-vacuity ---- *)

Definition ex_prefix : list event :=
  [ESubmit 1; ESubmit 2; ESubmit 3; EAcquire 0; ERecv 0; ERelease 0; EStart 0 1].

(* a reachable state with 2 workers, job 1 running on worker 0 with the lock free, jobs 2 and 3
   queued, worker 1 idle: the hypotheses of can_fill / lock_not_held_while_running hold *)
Example C20_nonvacuous_running_and_queued :
  exists st, run (init 2) ex_prefix = Some st /\ reachable 2 st /\
    phase st = Open /\ nth_error (workers st) 0 = Some (Running 1) /\ lock st = None /\
    nrunning st = 1 /\ qjobs (queue st) = [2%N; 3%N] /\ nth_error (workers st) 1 = Some Idle.
Proof.
  eexists. split; [vm_compute; reflexivity|]. split; [exists ex_prefix; vm_compute; reflexivity|].
  vm_compute. repeat split; reflexivity.
Qed.

(* ... from which the second worker is filled while job 1 keeps running *)
Example C20_nonvacuous_fill :
  exists st, run (init 2) (ex_prefix ++ [EAcquire 1; ERecv 1; ERelease 1; EStart 1 2]) = Some st /\
    running (workers st) = [1%N; 2%N] /\ qjobs (queue st) = [3%N].
Proof. eexists. split; [vm_compute; reflexivity|]. vm_compute. split; reflexivity. Qed.

(* a reachable state inside Drop with a job running, a job queued behind it and one Terminate
   sent: the hypotheses of drop_progress hold *)
Example C20_nonvacuous_dropping :
  exists st, run (init 2) (ex_prefix ++ [EDropBegin; ESendTerminate]) = Some st /\
    phase st = Dropping 1 /\ running (workers st) = [1%N] /\
    queue st = [Job 2; Job 3; Terminate].
Proof. eexists. split; [vm_compute; reflexivity|]. vm_compute. repeat split; reflexivity. Qed.

Definition ex_full : list event :=
  [ESubmit 1; ESubmit 2; EAcquire 0; ERecv 0; ERelease 0; EStart 0 1;
   EAcquire 1; ERecv 1; ERelease 1; EStart 1 2; ESubmit 3;
   EDropBegin; ESendTerminate; ESendTerminate;
   EFinish 1 2; EAcquire 1; ERecv 1; ERelease 1; EStart 1 3; EFinish 0 1; EFinish 1 3;
   EAcquire 0; ERecv 0; ERelease 0; EExit 0; EAcquire 1; ERecv 1; ERelease 1; EExit 1;
   EJoin 0; EJoin 1; EDropEnd].

(* a complete life of a 2-worker pool: 3 jobs, drop issued while two are running and one queued *)
Example C20_nonvacuous_full_run :
  exists st, run (init 2) ex_full = Some st /\ phase st = Joined /\
    finished st = [2%N; 1%N; 3%N] /\ submitted st = [1%N; 2%N; 3%N] /\
    trace_ok 2 (trace ex_full) = true.
Proof. eexists. split; [vm_compute; reflexivity|]. vm_compute. repeat split; reflexivity. Qed.

(* the monitor rejects what the property forbids *)
Example C20_monitor_rejects :
  (* a job started twice *)
  first_bad 2 [VSubmit 1; VStart 0 1; VFinish 0 1; VStart 1 1] = Some 3 /\
  (* a job that was never submitted *)
  first_bad 2 [VSubmit 1; VStart 0 2] = Some 1 /\
  (* more jobs running than workers / a worker running two jobs *)
  first_bad 1 [VSubmit 1; VSubmit 2; VStart 0 1; VStart 1 2] = Some 3 /\
  first_bad 2 [VSubmit 1; VSubmit 2; VStart 0 1; VStart 0 2] = Some 3 /\
  (* Drop returning while a job is still running, or still queued (lost) *)
  first_bad 2 [VSubmit 1; VStart 0 1; VDropBegin; VDropEnd] = Some 3 /\
  first_bad 2 [VSubmit 1; VDropBegin; VDropEnd] = Some 2 /\
  (* anything after Drop returned *)
  first_bad 2 [VSubmit 1; VStart 0 1; VFinish 0 1; VDropBegin; VDropEnd; VFinish 0 1] = Some 5 /\
  (* a submission after Drop began *)
  first_bad 2 [VDropBegin; VSubmit 1] = Some 1 /\
  (* a finish that matches no running job *)
  first_bad 2 [VSubmit 1; VSubmit 2; VStart 0 1; VFinish 0 2] = Some 3 /\
  (* FIFO: with one worker strict submission order; with two workers, overtaking by at most one *)
  first_bad 1 [VSubmit 1; VSubmit 2; VStart 0 2] = Some 2 /\
  first_bad 2 [VSubmit 1; VSubmit 2; VSubmit 3; VStart 0 3] = Some 3 /\
  first_bad 2 [VSubmit 1; VSubmit 2; VStart 0 2; VStart 1 1] = None.
Proof. vm_compute. repeat split; reflexivity. Qed.

(* accepted by the monitor, yet not a behaviour of the model (see C20_trace_ok_sound) *)
Example C20_monitor_incomplete_witness :
  trace_ok 2 [VSubmit 1; VSubmit 2; VSubmit 3; VStart 0 2; VFinish 0 2; VStart 0 3; VFinish 0 3;
              VStart 0 1] = true.
Proof. vm_compute. reflexivity. Qed.

Print Assumptions C20_conservation.
Print Assumptions C20_places_disjoint.
Print Assumptions C20_lock_not_held_while_running.
Print Assumptions C20_lock_holder_status.
Print Assumptions C20_lock_exclusive.
Print Assumptions C20_at_most_n_running.
Print Assumptions C20_can_fill.
Print Assumptions C20_can_fill_min.
Print Assumptions C20_open_no_worker_stopped.
Print Assumptions C20_drop_drains.
Print Assumptions C20_drop_progress.
Print Assumptions C20_drop_no_deadlock.
Print Assumptions C20_worker_steps_decrease.
Print Assumptions C20_trace_ok_sound.
Print Assumptions C20_monitor_exactly_once.
Print Assumptions C20_monitor_nothing_after_end.
Print Assumptions C20_monitor_bounds_running.
Print Assumptions C20_nonvacuous_running_and_queued.
Print Assumptions C20_nonvacuous_fill.
Print Assumptions C20_nonvacuous_dropping.
Print Assumptions C20_nonvacuous_full_run.
Print Assumptions C20_monitor_rejects.
Print Assumptions C20_monitor_incomplete_witness.
